"""Per-property job tables of the driver. quick: fixed case counts, few processes,
no native fuzzing. thorough: 16 shards, larger counts, native fuzz campaigns."""

ASSUMPTIONS = [
    "wall-clock reads in the repository are replaced, at build time and from the current tree, by a harness-owned virtual clock (go build -overlay; see DESIGN.md 2.2)",
    "the API server is controller-runtime's fake client plus harness-provided creationTimestamp/UID/generateName/graceful pod deletion; no real admission, watch or informer staleness",
    "Go map iteration order and goroutine scheduling are sampled, not enumerated",
]


def rapid_job(name, run, checks, shards=1, steps=30, **kw):
    d = dict(name=name, run=run, checks=checks, shards=shards, steps=steps)
    d.update(kw)
    return d


def fuzz_job(name, fuzz, fuzztime="30s", workers=8, **kw):
    d = dict(name=name, run="^$", fuzz=fuzz, fuzztime=fuzztime, workers=workers)
    d.update(kw)
    return d


PROPS = {
    "C20": {
        "title": "Exported metrics match object status and label values match their keys",
        "level": "exploration",
        "level_text": "Generated-input search against an explicit oracle: random label maps (dots, slashes, dashes, colliding keys, empty) checked for multiset equality {(sanitise(k), v)} against a reference sanitiser, and random object statuses fed to every metric family generator with each gauge compared to the status field it documents. Pure functions of small inputs, so tens of thousands of cases per run cover the input classes named in the property; no absence claim beyond that.",
        "level_note": "Trusted: the reference sanitiser ([^a-zA-Z0-9_] -> '_') and the gauge/field table in the test; metric registration with a live REST config is not exercised (shim returns the generators).",
        "technique": "property-based testing (rapid) with reference-model oracle + native go fuzz of label keys/values",
        "quick": {"jobs": [
            rapid_job("labels", "^TestC20Labels$", 20000),
            rapid_job("metrics", "^TestC20Metrics$", 3000),
        ]},
        "thorough": {"jobs": [
            rapid_job("labels", "^TestC20Labels$", 200000, shards=8),
            rapid_job("metrics", "^TestC20Metrics$", 30000, shards=8),
            fuzz_job("fuzz-labels", "^FuzzC20Labels$", fuzztime="60s", workers=8),
        ], },
        "log_violations": True,
    },
}

NOT_APPLICABLE = {}
