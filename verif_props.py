"""Per-property job tables of the driver. quick: fixed case counts, few processes,
no native fuzzing. thorough: 16 shards, larger counts, native fuzz campaigns."""

ASSUMPTIONS = [
    "wall-clock reads in the repository are replaced, at build time and from the current tree, by a harness-owned virtual clock (go build -overlay; see DESIGN.md 2.2)",
    "the API server is controller-runtime's fake client plus harness-provided creationTimestamp/UID/generateName/graceful pod deletion; no real admission, watch or informer staleness",
    "Go map iteration order and goroutine scheduling are sampled, not enumerated",
]


def rapid_job(name, run, checks, shards=1, steps=30, **kw):
    d = dict(name=name, run=run, checks=checks, shards=shards, steps=steps)
    d.update(kw)
    return d


def fuzz_job(name, fuzz, fuzztime="30s", workers=8, **kw):
    d = dict(name=name, run="^$", fuzz=fuzz, fuzztime=fuzztime, workers=workers)
    d.update(kw)
    return d


PROPS = {
    "C20": {
        "title": "Exported metrics match object status and label values match their keys",
        "level": "exploration",
        "level_text": "Generated-input search against an explicit oracle: random label maps (dots, slashes, dashes, colliding keys, empty) checked for multiset equality {(sanitise(k), v)} against a reference sanitiser, and random object statuses fed to every metric family generator (all families of the ExtendedDaemonSet and of a replica set are generated before any series is read, as the metrics store composes them) with each gauge and label set compared to the status field it documents. A third job runs the production path end to end - GetExtraMetricHandlers, AddMetrics, list/watch reflectors, kube-state-metrics stores, the /ksmetrics handler - against a fake API server (discovery, list, watch events, 410 Gone and relist) and compares the served text with the series the generators yield for the objects the server holds, after every generated change. Pure functions of small inputs, so tens of thousands of cases per run cover the input classes named in the property; no absence claim beyond that.",
        "level_note": "Trusted: the reference sanitiser ([^a-zA-Z0-9_] -> '_') and the gauge/field table in the test; the API server of the store job is a fake one (httptest) that serves lists and watch streams the way the real one does for the requests a reflector sends; the controller's own gauges (leader election) are ignored.",
        "technique": "property-based testing (rapid) with reference-model oracle + native go fuzz of label keys/values",
        "quick": {"jobs": [
            rapid_job("labels", "^TestC20Labels$", 20000),
            rapid_job("metrics", "^TestC20Metrics$", 3000, requires="verif_metrics"),
            rapid_job("store", "^TestC20Store$", 12, requires="verif_metrics", timeout="15m"),
        ]},
        "thorough": {"jobs": [
            rapid_job("labels", "^TestC20Labels$", 200000, shards=8),
            rapid_job("metrics", "^TestC20Metrics$", 30000, shards=8, requires="verif_metrics"),
            rapid_job("store", "^TestC20Store$", 150, shards=3, requires="verif_metrics", timeout="40m"),
            fuzz_job("fuzz-labels", "^FuzzC20Labels$", fuzztime="60s", workers=8),
        ], },
        "log_violations": True,
    },
}

PROPS["C03"] = {
    "title": "Rolling update respects maxUnavailable",
    "level": "exploration",
    "level_text": "Generated node/pod layouts (every per-node situation the property names, incl. migration pods), maxUnavailable and maxPodSchedulerFailure as int or percent, one real ExtendedDaemonSetReplicaSet Reconcile per layout executed on several forks of the store to sample Go map iteration orders; the deletions actually issued are judged by an independent budget oracle (U from the state read, at most max(0, maxUnavailable-U_eff) available pods, unavailable first, never more than maxUnavailable). The same monitor runs after every sync of generated rollout histories.",
    "level_note": "Map orders are sampled (6 forks quick, 24 thorough), not enumerated; a terminating pod that is still Ready is counted as available (most lenient reading), so only over-deletion under every reading is flagged.",
    "technique": "property-based testing (rapid): generated layouts + reference budget model, map-order sampling by store forks, stateful histories with a per-sync invariant",
    "quick": {"jobs": [rapid_job("budget", "^TestC03Budget$", 1500, shards=2)]},
    "thorough": {"jobs": [rapid_job("budget", "^TestC03Budget$", 6000, shards=16, timeout="40m")]},
}

PROPS["C05"] = {
    "title": "A new version becomes active only when the promotion rule allows it",
    "level": "exploration",
    "level_text": "The promotion lattice of the property (strategy x age-vs-duration incl. the boundary instants x noRestartsDuration x last restart x pause source x unpaused x canary-valid x failed x recorded active set present / being deleted under a finalizer / gone x recorded status.canary; 89856 points) is enumerated completely through the real ExtendedDaemonSet Reconcile on a store prepared by the real reconciler, on the virtual clock; each switch of status.activeReplicaSet is judged by a reference rule (three-valued at the boundary instants). The same rule is checked after every EDS reconcile of generated histories. A second job plays the complete product of failure routes x faults of the rollback's two-write window x pause x elapsed duration x reconcile order as histories and demands that a canary marked failed never becomes active (promotion-rule and canary-latch monitors after every reconcile, end-state check). A further history job loses one canary pod, refuses its re-creation at every sync and lets the other canary pod restart after the duration has elapsed: judged against ground truth, the canary does not become active while that restart is younger than noRestartsDuration.",
    "level_note": "Exhaustive only for the finite lattice named here (exhaustive_subspaces in the evidence); durations other than the sampled ones and interleavings are covered by sampling in the history tests.",
    "technique": "exhaustive enumeration of a finite input lattice + property-based sampling (rapid) against a reference promotion rule; stateful histories with a per-reconcile invariant",
    "quick": {"jobs": [rapid_job("lattice-sample", "^TestC05Lattice$", 1500), rapid_job("lattice-all", "^TestC05Exhaustive$", 1, shards=4), rapid_job("failed-stays", "^TestC05FailedStays$", 1, shards=4), rapid_job("restart-under-pod-faults", "^TestC05RestartUnderPodFaults$", 1)]},
    "thorough": {"jobs": [rapid_job("lattice-sample", "^TestC05Lattice$", 10000, shards=4), rapid_job("lattice-all", "^TestC05Exhaustive$", 1, shards=8), rapid_job("failed-stays", "^TestC05FailedStays$", 1, shards=4), rapid_job("restart-under-pod-faults", "^TestC05RestartUnderPodFaults$", 1)]},
}

PROPS["C15"] = {
    "title": "Canary nodes are valid, distinct, stable and as many as requested",
    "level": "exploration",
    "level_text": "Generated node populations (selector label, one or two anti-affinity labels, taints, restart history of the active pods), replicas as number or percent, canary nodeSelector, anti-affinity keys, eligibility-changing new templates and previously selected lists (valid, stale, nonexistent) are fed to one real ExtendedDaemonSet Reconcile; the resulting status.canary.nodes is judged by an independent oracle: distinct, valid, previous valid entries kept, count = replicas resolved against the targeted nodes (rounded up) or an error, error only when no selection exists within the per-value quota, spread over anti-affinity values, least-restarts preference. The validity monitor also runs in generated histories with node deletion/relabel/taint during a canary.",
    "level_note": "The per-value quota ceil(replicas/#values) is taken from the code's own documentation of the spreading rule; the statement only says 'spreading'.",
    "technique": "property-based testing (rapid) of the selection against a validity/preference oracle; stateful histories with a per-reconcile invariant",
    "quick": {"jobs": [rapid_job("selection", "^TestC15Selection$", 4000, shards=2), rapid_job("known", "^TestC15Known", 1)]},
    "thorough": {"jobs": [rapid_job("selection", "^TestC15Selection$", 20000, shards=16), rapid_job("known", "^TestC15Known", 1)]},
}

SM_NOTE = "Histories are sampled, not enumerated: 1-8 nodes, up to 3-4 replica sets, up to ~45 (quick) / ~90 (thorough) generated actions; reconciles run one at a time against a linearizable in-memory store (any reconcile may run at any time, requeue hints are ignored)."

PROPS["C01"] = {
    "title": "At most one daemon pod per node, and only on eligible nodes",
    "level": "exploration",
    "level_text": "Stateful property test: generated histories interleave the real EDS/replica-set reconcilers with kubelet, scheduler, user and node actions (incl. duplicate pods, Failed/Unknown phases, taints, relabels, eligibility-changing templates, canaries); after every reconcile the pod Creates/Deletes it issued are judged against the state it read by an independent eligibility/keeper oracle (no create on absent/unfit/occupied node, never two per node per sync, duplicates resolved to the scheduled-oldest pod, pods on ineligible nodes deleted, Unknown pods untouched). A function-level differential test drives FilterAndMapPodsByNode and CheckNodeFitness with generated nodes, templates and pod multisets against the same oracle, a creation sync with one pod creation refused or stored-but-answered-with-an-error checks that no answer makes a sync create two pods for a node, and a native fuzz target covers the eligibility predicate.",
    "level_note": SM_NOTE + " Failed pods inside their deletion back-off may or may not count among the pods of a node (statement readable both ways); reads are linearizable (informer staleness is outside the statement's 'state it read').",
    "technique": "stateful property-based testing (rapid) with per-step invariants + differential testing against a reference eligibility model + native go fuzz",
    "quick": {"jobs": [rapid_job("sm", "^TestC01SM$", 750, shards=4), rapid_job("fitness", "^TestC01Fitness$", 20000), rapid_job("filter", "^TestC01Filter$", 5000), rapid_job("create-faults", "^TestC01CreateFaults$", 1500)]},
    "thorough": {"jobs": [rapid_job("sm", "^TestC01SM$", 4000, shards=12, timeout="50m"), rapid_job("fitness", "^TestC01Fitness$", 300000, shards=2), rapid_job("filter", "^TestC01Filter$", 60000, shards=2), rapid_job("create-faults", "^TestC01CreateFaults$", 20000, shards=2),
                          fuzz_job("fuzz-fitness", "^FuzzC01Fitness$", fuzztime="90s", workers=4)]},
    "log_violations": True,
}

PROPS["C02"] = {
    "title": "Reconciliation converges to one Ready live-template pod per eligible node",
    "level": "exploration",
    "level_text": "Stateful property test: a generated history (template edits incl. several in a row, annotation flips, node churn, pod failures, duplicates, partial rollouts, controller restarts; strategy from the convergent sub-lattice with or without canary) is followed by a stabilisation phase that establishes the statement's premises (annotations removed, canary resolved by validation / failure / waiting, API calls succeed, kubelet makes pods Ready, fair rounds in generated orders); the oracle demands a quiet round within a bound, the fixpoint predicate (one Ready live-hash pod per eligible node, nothing else, active set = spec.template, no canary left) and three further quiet rounds. A second job replaces the fair rounds by event-driven scheduling (watch events and requeue requests only, modelled after controllers/*_controller.go and the controller-runtime worker, virtual clock): after a generated history of template changes, node churn and pod losses the same fixpoint must be reached within 90s + 40 x reconcileFrequency of virtual time.",
    "level_note": SM_NOTE + " 'Every fair order' is sampled. The bound (60+8N rounds) is deliberately generous: a livelock fails any bound; in the round-based job requeue timers are not modelled; the event-driven job (a hand-written model of the controller-runtime work queue, reconcile frequencies of one second or more) is where a forgotten requeue shows.",
    "technique": "stateful property-based testing (rapid): generated history + stabilisation + fixpoint/convergence oracle",
    "quick": {"jobs": [rapid_job("sm", "^TestC02SM$", 500, shards=4), rapid_job("queue", "^TestC02Queue$", 240, shards=3)]},
    "thorough": {"jobs": [rapid_job("sm", "^TestC02SM$", 2500, shards=16, timeout="50m"), rapid_job("queue", "^TestC02Queue$", 3000, shards=8, timeout="50m")]},
}

PROPS["C04"] = {
    "title": "Canary blast radius: the new template runs only on the selected canary nodes",
    "level": "exploration",
    "level_text": "Stateful property test biased to canaries (strategy always has a canary block, replicas as number or percent, second template edit during a canary, eligibility-changing templates, node churn, pause/valid annotations, every interleaving of the EDS reconcile with active/canary/leftover syncs, each sync also on store forks); after every reconcile: non-active sets create only on status.canary.nodes (unknown role: nothing), the active set neither creates nor deletes on canary nodes, no canary/leftover sync deletes the pod serving a non-canary node that is eligible for the active template, the node list never grows beyond the resolved replicas, canary label present during / absent after the canary. The life cycle of the canary label is additionally enumerated completely over a scripted configuration space (hold by pause/freeze x abort by revert/failure/none x waiting time x re-promotion by canary-valid / removed canary strategy / fresh canary cycle x when the hold is lifted; 972 configurations) with the same monitors after every sync.",
    "level_note": SM_NOTE,
    "technique": "stateful property-based testing (rapid) with per-step invariants over (state read, calls issued); exhaustive enumeration of a scripted scenario space for the canary label",
    "quick": {"jobs": [rapid_job("sm", "^TestC04SM$", 750, shards=4), rapid_job("label-lifecycle-all", "^TestC04LabelLifecycleAll$", 1, shards=4)]},
    "thorough": {"jobs": [rapid_job("sm", "^TestC04SM$", 4000, shards=14, timeout="50m"), rapid_job("label-lifecycle-all", "^TestC04LabelLifecycleAll$", 1, shards=6), rapid_job("label-lifecycle", "^TestC04LabelLifecycle$", 1500, shards=6, timeout="50m")]},
}

PROPS["C08"] = {
    "title": "Pause and freeze annotations stop exactly what they promise to stop",
    "level": "exploration",
    "level_text": "Stateful property test in which the four annotations are set, flipped and removed (true/false/absent/garbage) in generated order over rollouts in progress; after every sync: no update-deletion under rolling-update-paused, no create and no update-deletion under rollout-frozen, creation still happens under pause when nothing else gates it, no canary pod created in a sync that is or ends paused/failed, time never promotes a paused canary, status.state/reason agree with annotations and canary facts; afterwards the annotations are removed (canary unpaused/validated) and the history must converge (resume).",
    "level_note": SM_NOTE,
    "technique": "stateful property-based testing (rapid) with per-step invariants + convergence oracle for 'resume'",
    "quick": {"jobs": [rapid_job("sm", "^TestC08SM$", 500, shards=4), rapid_job("toggles", "^TestC08Toggles$", 1, shards=2), rapid_job("failed-canary-held", "^TestC08FailedCanaryHeld$", 1, shards=4)]},
    "thorough": {"jobs": [rapid_job("sm", "^TestC08SM$", 2500, shards=14, timeout="50m"), rapid_job("toggles", "^TestC08Toggles$", 1, shards=2), rapid_job("failed-canary-held", "^TestC08FailedCanaryHeld$", 1, shards=4)]},
}

PROPS["C09"] = {
    "title": "Pod creation is rate limited by slow start and syncs are spaced",
    "level": "exploration",
    "level_text": "Stateful property test on the virtual clock: reconcile requests arrive at generated instants (sub-second to minutes apart, so the one-second truncation of stored timestamps is exercised); after every active sync the number of pod Creates is compared with min(maxParallelPodCreation, (1+floor(t/interval))*increase) computed in big integers from the state read, update-deletions with maxUnavailable, and two write-issuing syncs of one replica set must be >= reconcileFrequency-1s apart when the first status write succeeded. Function-level: one sync over generated populations with excluded (taint, node selector) and canary-reserved nodes and a percent increase, the percent being resolved against the targeted nodes only (TestC09Creation); sync pairs at generated second fractions and gaps around reconcileFrequency (TestC09Spacing), and the ramp itself at exact instants k*interval-1ns/0/+1ns through a build-tagged shim, compared for equality with the reference formula (TestC09Ramp). A scripted product validates a canary right after it created its pods and demands that the promoted set's next request within reconcileFrequency touches no pod (the spacing holds across a change of role).",
    "level_note": SM_NOTE + " t is measured from the Active condition's stored (second-truncated) transition time, one extra second of slack is granted.",
    "technique": "stateful property-based testing (rapid) on a virtual clock with a reference ramp formula",
    "quick": {"jobs": [rapid_job("sm", "^TestC09SM$", 750, shards=4), rapid_job("spacing", "^TestC09Spacing$", 2000), rapid_job("creation", "^TestC09Creation$", 2000), rapid_job("ramp", "^TestC09Ramp$", 30000, requires="verif_rolling"), rapid_job("role-change", "^TestC09RoleChange$", 1)]},
    "thorough": {"jobs": [rapid_job("sm", "^TestC09SM$", 4000, shards=14, timeout="50m"), rapid_job("spacing", "^TestC09Spacing$", 20000, shards=2), rapid_job("creation", "^TestC09Creation$", 30000, shards=2), rapid_job("ramp", "^TestC09Ramp$", 500000, requires="verif_rolling"), rapid_job("role-change", "^TestC09RoleChange$", 1)]},
}

PROPS["C12"] = {
    "title": "An ExtendedDaemonSet only ever touches its own objects",
    "level": "exploration",
    "level_text": "Stateful property test over a population of two ExtendedDaemonSets (same name in another namespace, or another name in the same namespace), foreign pods carrying a matching name label in a third namespace and unlabelled pods in the EDS namespace; every write of every reconcile (Create/Update/Patch/Delete/status) must target the reconciling EDS, one of its own replica sets, its PodTemplate or a pod of its namespace with its name label; the recorded active/canary replica set must be an own one; at quiescence status.current equals the number of own pods and the foreign pods are untouched.",
    "level_note": SM_NOTE,
    "technique": "stateful property-based testing (rapid) with a per-call ownership invariant",
    "quick": {"jobs": [rapid_job("sm", "^TestC12SM$", 250, shards=4)]},
    "thorough": {"jobs": [rapid_job("sm", "^TestC12SM$", 2000, shards=16, timeout="50m")]},
}

PROPS["C13"] = {
    "title": "One replica set per template, faithful to it, never collected while in use",
    "level": "exploration",
    "level_text": "Stateful property test over template-edit words on a small alphabet (A->B->A, A->B->C, edits during a canary) with all reconcilers interleaved: no replica set is created while one with the same template hash exists; a created set's template, hash annotation and templateGeneration equal spec.template and its MD5; every created pod carries its creator's hash; a replica-set Delete never hits the set that is active or matches spec.template after the reconcile, only sets whose status as read is all zero, and a failed canary not before two minutes; the PodTemplate equals spec.template and its hash after its reconcile. A scripted revert family (template X, Y, X again while X's set is held by a finalizer; one replica-set creation optionally refused or stored-but-answered-with-an-error) checks that a terminating or just-created set is re-used and never doubled. A third family changes the template and lets one of the following EDS status writes fail (refused with a generic error or Conflict, or stored and answered with an error): the set the stored status names as active is never collected.",
    "level_note": SM_NOTE,
    "technique": "stateful property-based testing (rapid) with per-step invariants; template hash recomputed independently (MD5 of the JSON rendering)",
    "quick": {"jobs": [rapid_job("sm", "^TestC13SM$", 750, shards=4), rapid_job("revert", "^TestC13Revert$", 150, shards=2), rapid_job("status-write-faults", "^TestC13StatusWriteFaults$", 600), rapid_job("queue", "^TestC13Queue$", 200)]},
    "thorough": {"jobs": [rapid_job("sm", "^TestC13SM$", 4000, shards=14, timeout="50m"), rapid_job("revert", "^TestC13Revert$", 2000, shards=4, timeout="50m"), rapid_job("status-write-faults", "^TestC13StatusWriteFaults$", 8000, shards=2), rapid_job("queue", "^TestC13Queue$", 3000, shards=4, timeout="50m")]},
}

PROPS["C14"] = {
    "title": "Status tells the truth about replica sets and pods",
    "level": "exploration",
    "level_text": "Stateful property test: after every successful EDS reconcile the stored status is compared with a reference implementation of the documented status function applied to the replica-set statuses that reconcile read (sums, desired/upToDate from active and canary set, state, reason, Canary-Paused/Canary-Failed conditions); after every active/canary sync 0<=available<=ready<=current<=desired; after stabilisation the counters are compared with the pods and nodes that exist. A function-level test feeds the status function alone with 1-3 replica sets carrying generated counters (incl. leftover sets with non-zero counters and sets that are being deleted under a finalizer while they still report pods), conditions, roles and annotation settings. A third job runs the reconcilers event-driven (watch wiring, Requeue/RequeueAfter/error handling and the no-event-for-a-no-op-write rule modelled after controllers/*_controller.go and the controller-runtime worker, virtual clock): disturbances are placed around the active replica set's next sync time and after 2 x reconcileFrequency + 2s of quiet the counters must equal what exists; the recorded sub-second-frequency finding has its own deterministic reproducer. Two scripted products compare the counters with the pods while a canary is held by canary-paused, and after one setting took a node over from another (a pod that still carries what the previous setting gave it is not a pod of the live template).",
    "level_note": SM_NOTE + " The event-driven scheduler is a hand-written model of controller-runtime (no informer lag, no 10-hour resync); it draws reconcile frequencies of one second or more (below that the recorded finding F21 applies).",
    "technique": "stateful property-based testing (rapid) against a reference status function + quiescent-state oracle + function-level property test of the status function",
    "quick": {"jobs": [rapid_job("sm", "^TestC14SM$", 500, shards=4), rapid_job("function", "^TestC14StatusFunction$", 3000, shards=2), rapid_job("queue", "^TestC14Queue$", 400, shards=2), rapid_job("known", "^TestC14Known", 1), rapid_job("paused-canary", "^TestC14PausedCanary$", 1), rapid_job("take-over", "^TestC14TakeOver$", 1)]},
    "thorough": {"jobs": [rapid_job("sm", "^TestC14SM$", 2500, shards=12, timeout="50m"), rapid_job("function", "^TestC14StatusFunction$", 40000, shards=4), rapid_job("queue", "^TestC14Queue$", 6000, shards=6, timeout="50m"), rapid_job("known", "^TestC14Known", 1), rapid_job("paused-canary", "^TestC14PausedCanary$", 1), rapid_job("take-over", "^TestC14TakeOver$", 1)]},
}

PROPS["C03"]["quick"]["jobs"].append(rapid_job("sm", "^TestC09SM$", 60, shards=2))
PROPS["C15"]["quick"]["jobs"].append(rapid_job("sm", "^TestC15SM$", 150, shards=2))
PROPS["C15"]["thorough"]["jobs"].append(rapid_job("sm", "^TestC15SM$", 800, shards=8, timeout="50m"))

PROPS["C06"] = {
    "title": "Auto-fail and auto-pause fire exactly on their documented triggers",
    "level": "exploration",
    "level_text": "Generated canary situations (0-3 up-to-date canary pods with 1-2 containers, restart counts at/below/above both thresholds, last-termination times, waiting reasons inside and outside the cannot-start set and ContainerCreating, start time around maxSlowStartDuration, every autoPause/autoFail enabled combination and threshold pair, optional maxSlowStartDuration/maxRestartsDuration/canaryTimeout, previous Canary/Canary-Paused/Canary-Failed/PodRestarting conditions with ages around the limits, pause/unpause annotations) are run through 1-4 real canary syncs (ExtendedDaemonSetReplicaSet Reconcile on the virtual clock) with pod changes in between; the stored Canary-Failed/Canary-Paused conditions are compared with a three-valued reference verdict (must / must-not / either at one-second boundaries and where the statement is silent), including stickiness of Failed, unpause overriding pause but not failure, disabled features never firing, and no canary pod creation in a sync that ends paused or failed. A model-based check (TestC06Timeline) lets canary pods restart, disappear and come back between syncs and compares the PodRestarting condition with a model of the first and the newest restart any sync has observed (the latter never moves back). A metamorphic check (TestC06Order) runs every case with at least two pods a second time with status.canary.nodes in another order and demands equal verdicts and an equal restart timeline (first/latest observed restart) after every sync. The same verdict monitor runs in the canary-biased history tests.",
    "level_note": "One-second bands around every time limit are 'either' (stored timestamps are second-truncated); with zero evaluable pods only stickiness of Failed and the unpause rule are judged (the statement's premise is 'at least one up-to-date canary pod').",
    "technique": "property-based testing (rapid) against a three-valued reference verdict, multi-sync feedback of the stored status; metamorphic relation (evaluation order of the canary pods)",
    "quick": {"jobs": [rapid_job("verdict", "^TestC06Verdict$", 2500, shards=4), rapid_job("order", "^TestC06Order$", 1500, shards=2), rapid_job("timeline", "^TestC06Timeline$", 800, shards=2)]},
    "thorough": {"jobs": [rapid_job("verdict", "^TestC06Verdict$", 20000, shards=14, timeout="50m"), rapid_job("order", "^TestC06Order$", 20000, shards=8, timeout="50m"), rapid_job("timeline", "^TestC06Timeline$", 12000, shards=6, timeout="50m")]},
}

PROPS["C16"] = {
    "title": "Defaulting is a fixed point and no accepted spec can crash the controller",
    "level": "exploration",
    "level_text": "Strategies are drawn from the boundary lattice of every field (absent, 0, negative, 1, huge, percent, malformed percent, plain string; durations <= 0 and > 0; booleans; validation mode; canary block and sub-blocks present or absent; unusable canary nodeSelector or one that matches no node, anti-affinity keys) for both controller default modes and clusters of three, one or no nodes; the oracle checks Default idempotent and non-mutating, IsDefaulted(Default(x)), every field the reconcilers dereference filled, no user-set value changed (only template.metadata.name cleared), Validate returning and rejecting the three documented cases, and then runs 11 rounds of the real reconcilers (first deployment, template change so the canary paths execute, restarting pods, elapsed time) on a store holding the undefaulted object: errors are fine, a panic is a violation. The thorough tier adds coverage-guided native fuzzing of the serialized strategy (accepted iff it decodes into the typed spec and validationMode is in the CRD enum).",
    "level_note": "The CRD schema constrains only types, the validationMode enum and int-or-string, which is what 'accepted' means here; template content is fixed (one container).",
    "technique": "property-based testing (rapid) over a boundary lattice with round-trip/idempotence oracles and crash detection + native go fuzz of the serialized spec",
    "quick": {"jobs": [rapid_job("lattice", "^TestC16Lattice$", 1500, shards=4), rapid_job("all-but-one", "^TestC16AllButOne$", 1, shards=2)]},
    "thorough": {"jobs": [rapid_job("lattice", "^TestC16Lattice$", 12000, shards=12, timeout="50m"), fuzz_job("fuzz-spec", "^FuzzC16Spec$", fuzztime="90s", workers=4), rapid_job("all-but-one", "^TestC16AllButOne$", 1, shards=4)]},
    "log_violations": True,
}

PROPS["C10"] = {
    "title": "Created pods are pinned, labelled and stable under the controller's comparison",
    "level": "exploration",
    "level_text": "Generated pod templates (nodeSelector, 0-2 required affinity terms with or without matchFields on metadata.name, tolerations, 1-3 containers with resources), nodes (labels; override annotations well-formed, malformed, or of another ExtendedDaemonSet), optional valid setting (subset of containers, a container absent from the template) and both node-assignment modes are fed to the exported CreatePodFromDaemonSetReplicaSet; the oracle checks the pin (nodeName, or the node-name requirement In [node] on every affinity term with the template's matchExpressions preserved), controller owner reference, name labels, template hash, the six default tolerations plus the template's, and per-container resources = annotation override else setting else template. Then a round trip: the pod goes through the API (JSON) and the exported ManageDeployment with an unlimited budget must keep it for the same inputs and must replace it after a template change, an override annotation added/removed, a changed or newly applying setting demand; a foreign EDS's annotation must not matter.",
    "level_note": "Trusted: the resource-resolution order as stated in the property; ManageDeployment with N=1, maxUnavailable=100% as the 'would be replaced' observer (cross-checkable with the CompareCurrentPodWithNewPodForVerif shim).",
    "technique": "property-based testing (rapid): reference-model oracle on the created object + round-trip/metamorphic relations through the controller's own comparison",
    "quick": {"jobs": [rapid_job("created-pod", "^TestC10CreatedPod$", 2500, shards=4), rapid_job("through-create-pods", "^TestC10ThroughCreatePods$", 3000, requires="verif_par")]},
    "thorough": {"jobs": [rapid_job("created-pod", "^TestC10CreatedPod$", 25000, shards=12, timeout="50m"), fuzz_job("fuzz-annotation", "^FuzzC10Annotation$", fuzztime="90s", workers=4), rapid_job("through-create-pods", "^TestC10ThroughCreatePods$", 40000, shards=2, requires="verif_par")]},
    "log_violations": True,
}

PROPS["C18"] = {
    "title": "At most one valid ExtendedDaemonsetSetting applies to a node",
    "level": "exploration",
    "level_text": "Generated populations of 1-4 settings in one or two namespaces (creation times equal or different, selectors by labels or expressions including unusable ones (In without values, an unknown operator, an illegal label value), reference present / empty / absent / naming another EDS) and 0-4 labelled nodes; every setting is reconciled (twice) by the real setting reconciler in a generated order - in TestC18AllOrders in every permutation (exhaustive in the order dimension) - and the statuses are judged by a reference verdict: malformed => error, two settings matching a common node never both valid, invalid overlapping => conflict error, well-formed and overlapping no other => valid. Then the real replica-set sync creates pods and each pod's setting label must name a valid setting of that EDS whose selector matches the pod's node. A late-arrival phase adds a newer setting after the verdicts stand and reconciles every setting once more the way a work queue does (again only after an error or a write to the setting itself) with one failing read of the setting controller: the verdicts must still be the reference ones. A take-over product (two-container template, S1 over a subset of the containers, deleted, successor S2 over another subset with equal or other values) demands that the node's pod ends up as the pod the creation path builds from the template and S2 alone.",
    "level_note": "A setting without reference still counts as an overlapping neighbour (statement is silent); only the pairwise 'never both valid' and the explicit positive case are demanded.",
    "technique": "property-based testing (rapid) against a reference verdict; exhaustive enumeration of reconcile orders per generated population",
    "quick": {"jobs": [rapid_job("settings", "^TestC18Settings$", 2000, shards=2), rapid_job("all-orders", "^TestC18AllOrders$", 250, shards=2), rapid_job("take-over", "^TestC18TakeOver$", 1)]},
    "thorough": {"jobs": [rapid_job("settings", "^TestC18Settings$", 15000, shards=8, timeout="50m"), rapid_job("all-orders", "^TestC18AllOrders$", 1500, shards=8, timeout="50m"), rapid_job("take-over", "^TestC18TakeOver$", 1)]},
}

PROPS["C07"] = {
    "title": "A failed canary is rolled back to the active version",
    "level": "fault_enumeration",
    "level_text": "Generated histories end in a failed canary by each route (canary fail, restart storm -> auto-fail, canaryTimeout, canary fail landing between the read and the status write of the canary replica set's own sync; paused or not; before or after the canary duration elapsed; replica sets or EDS reconciled first) and the rollback reconcile meets each fault position of its two-write window (status write rejected with a generic error or with Conflict, status applied but answer lost, process stop between the writes, spec write rejected with a generic error or with Conflict, spec applied but answer lost, stop before the status write; controllers rebuilt after a stop); optionally the rollout is frozen or the rolling update paused for three minutes from the failure on while the canary pods crash-loop, so the failed set still reports pods past its retention. Within 25 fair rounds spec.template must equal the active set's template, status.canary be nil, status.activeReplicaSet be unchanged and every former canary node run one Ready pod of the active template; the failed set must exist for at least two minutes and is only deleted with an all-zero status (rs-gc monitor); the promotion-rule and status monitors run throughout. TestC07Window enumerates routes x 9 fault positions/kinds x paused x after-duration x reconcile order x hold (none, frozen, rolling-update-paused) completely for a 3-node cluster (864 configurations).",
    "level_note": "Exhaustive only for the finite product named (168 combinations, exhaustive_subspaces in the evidence); cluster sizes and replicas are sampled in TestC07Rollback.",
    "technique": "fault injection at every position of the two-write window (enumerated) + property-based sampling (rapid) of failure routes, with a bounded-rounds recovery oracle",
    "quick": {"jobs": [rapid_job("window", "^TestC07Window$", 1, shards=4), rapid_job("rollback", "^TestC07Rollback$", 250, shards=4)]},
    "thorough": {"jobs": [rapid_job("window", "^TestC07Window$", 1, shards=4), rapid_job("rollback", "^TestC07Rollback$", 1500, shards=12, timeout="50m")]},
}

PROPS["C11"] = {
    "title": "Any failed API call or controller crash is recovered without breaking safety",
    "level": "fault_enumeration",
    "level_text": "An event-driven job (TestC11Queue: watch events, requeue requests and error back-off only, on the virtual clock) lets one write of the EDS or replica-set controller fail after the first roll-out and demands the failure-free fixpoint within a bound of virtual time - a failure that is swallowed (no error, no requeue, nothing written) shows there. Corpus of ten scenarios (first deployment, rolling update, canary start, promotion by validation and by time, failure and rollback by command / restart storm / timeout, node removal and taint, settings change, migration from a DaemonSet, canary paused / unpaused / validated) played by milestone-driven scripts (canary scenarios with an uneven restart history of the daemon pods, so that the node choice depends on what the selection reads). The failure-free run records the K API calls of the controllers (reads included); a faulted re-run injects, at call k, one of {call rejected with a generic error, call rejected with the API status error typical for the verb (AlreadyExists, Conflict, TooManyRequests, ServerTimeout), call applied but answer lost, process stop before the call, process stop after the call} (fresh controller instances after a stop), then failure-free fair rounds until quiet. Oracle: the safety monitors (eligible/once-per-node creation, availability budget, canary confinement and list growth, promotion rule, ownership, no panic - the five safety properties the statement lists) after every step, and the final canonical state (pods per node with template hash / readiness / labels / resources, EDS status, replica sets) equal to the failure-free run's modulo names and timestamps. Quick: sampled positions, kinds and pairs over generated configurations plus the exhaustive single-fault sweep of four scenarios; thorough: every single position x kind for all ten scenarios (exhaustive for singles of the fixed configuration) and more sampled pairs.",
    "level_note": "Exhaustive for single faults of one fixed configuration per scenario; other configurations and pairs are sampled. A stopped process is modelled as every later call of that reconcile failing, then fresh reconciler instances.",
    "technique": "fault enumeration over the recorded API-call sequence (every index x fault kind) + property-based sampling (rapid) of configurations and fault pairs; differential oracle against the failure-free run",
    "quick": {"jobs": [rapid_job("sampled", "^TestC11Sampled$", 40, shards=4), rapid_job("singles", "^TestC11Exhaustive$", 1, shards=6, env={"VERIF_SCENARIOS": "rolling-update,failure-rollback,canary-start,pause-unpause-validate,settings-change"}), rapid_job("queue", "^TestC11Queue$", 240, shards=3)]},
    "thorough": {"jobs": [rapid_job("sampled", "^TestC11Sampled$", 150, shards=6, timeout="50m"), rapid_job("singles", "^TestC11Exhaustive$", 1, shards=10, timeout="50m"), rapid_job("queue", "^TestC11Queue$", 3000, shards=8, timeout="50m")]},
}

PROPS["C17"] = {
    "title": "Concurrent reconciles and parallel pod operations are race free, lose no error",
    "level": "exploration",
    "race": True,
    "log_violations": True,
    "level_text": "Built with the Go race detector. (a) Batches of 2-64 simultaneous pod creations, update-deletions and clean-up deletions through the controller's parallel helpers and through whole replica-set Reconciles, with a generated subset (none/some/all) of the API calls failing, either with a generic error or with the API status error typical for the verb (AlreadyExists for a creation whose generated name collided, TooManyRequests for a deletion): the number of errors returned must equal the number of injected failures, ReconcileError must be True iff a pod operation failed and a failed clean-up must show in ReconcileError or PodsCleanupDone. (b) The ExtendedDaemonSet, replica-set (two workers), setting and PodTemplate reconcilers, a kubelet model and a user run as goroutines against one store for a bounded number of iterations with a generated fraction of writes failing; any race report or panic is a violation.",
    "level_note": "Interleavings are those the Go scheduler produces under -race with GOMAXPROCS=16; the harness does not own the schedule. The race detector's happens-before analysis flags an unsynchronised access even when no update is actually lost.",
    "technique": "property-based testing (rapid) of generated concurrent workloads under the Go race detector, with an error-count oracle under injected faults",
    "quick": {"jobs": [rapid_job("batches", "^TestC17Batches$", 120, shards=2, requires="verif_par"), rapid_job("concurrent", "^TestC17Concurrent$", 40, shards=2)]},
    "thorough": {"jobs": [rapid_job("batches", "^TestC17Batches$", 800, shards=8, timeout="50m", requires="verif_par"), rapid_job("concurrent", "^TestC17Concurrent$", 300, shards=8, timeout="50m")]},
}

PROPS["C19"] = {
    "title": "kubectl-eds commands change only what they document; the controller obeys them",
    "level": "exploration",
    "level_text": "Stateful property test whose user actions are the real command bodies (run through build-tagged shims with an injected client): a generated prefix history reaches no canary / canary running / auto-paused / user-paused / failed / mid rolling update, then up to three commands, each followed by fair rounds. Oracle: the store diff before/after a command touches only the documented annotation keys (for `fail`: only the canary replica set's Canary-Failed condition); a command whose precondition is false, or that returns an error, writes nothing; annotation values are the documented ones; within six rounds pause => Canary Paused, unpause => Canary, validate => exactly the replica set that was status.canary.replicaSet when the command ran is active (a later template is not promoted by the old annotation: promotion-rule monitor), fail => rollback. A scenario family covers `canary fail` on a re-used replica set, another runs the real `canary fail` body between the read and the status write of a sync of the canary set, and every sequence of one to four `canary pause` / `canary unpause` command bodies (x closing validate / fail / none x validation mode; 180 configurations) is enumerated on a running canary with the documented annotations and the controller's reading demanded after each command. An event-driven job delivers the commands' writes to the controllers only as watch events through the repository's own wiring (a real controller-runtime manager over fake informers runs the four SetupWithManager functions; scheduling by the virtual-time work queue) and demands the reading within 3 x reconcileFrequency + 2s.",
    "level_note": "Expectations about the controller's interpretation are only demanded when the command acted on the current canary (status.canary matching spec.template) and, for fail, when the canary is not explicitly validated.",
    "technique": "stateful property-based testing (rapid) with real command bodies as actions, store-diff oracle and bounded-rounds interpretation oracle",
    "quick": {"jobs": [rapid_job("commands", "^TestC19Commands$", 300, shards=4), rapid_job("reused-set", "^TestC19FailReusedSet$", 60), rapid_job("fail-mid-sync", "^TestC19FailMidSync$", 60, requires="verif_plugin"), rapid_job("sequences", "^TestC19CanarySequences$", 1, shards=4, requires="verif_plugin"), rapid_job("queue", "^TestC19Queue$", 200, shards=2, requires="verif_plugin"), rapid_job("validate-superseded", "^TestC19ValidateSuperseded$", 1, requires="verif_plugin")]},
    "thorough": {"jobs": [rapid_job("commands", "^TestC19Commands$", 2500, shards=15, timeout="50m"), rapid_job("reused-set", "^TestC19FailReusedSet$", 400), rapid_job("fail-mid-sync", "^TestC19FailMidSync$", 500, requires="verif_plugin"), rapid_job("sequences", "^TestC19CanarySequences$", 1, shards=4, requires="verif_plugin"), rapid_job("queue", "^TestC19Queue$", 3000, shards=6, timeout="50m", requires="verif_plugin"), rapid_job("validate-superseded", "^TestC19ValidateSuperseded$", 1, requires="verif_plugin")]},
}

NOT_APPLICABLE = {}

# Replay tier: the shrunk failing case of every fixed defect as a plain deterministic check.
for _p in ("C03", "C05", "C06", "C10", "C12", "C15", "C16", "C18", "C20"):
    for _t in ("quick", "thorough"):
        PROPS[_p][_t]["jobs"].append(rapid_job("regress", "^TestRegress%s$" % _p, 1))

# a test process that dies of a panic whose first frame is repository code (a worker goroutine nobody can recover
# from) is a finding of whichever check was running, not an inconclusive run
for _p in PROPS:
    PROPS[_p]["log_violations"] = True
