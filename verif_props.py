"""Per-property job tables of the driver. quick: fixed case counts, few processes,
no native fuzzing. thorough: 16 shards, larger counts, native fuzz campaigns."""

ASSUMPTIONS = [
    "wall-clock reads in the repository are replaced, at build time and from the current tree, by a harness-owned virtual clock (go build -overlay; see DESIGN.md 2.2)",
    "the API server is controller-runtime's fake client plus harness-provided creationTimestamp/UID/generateName/graceful pod deletion; no real admission, watch or informer staleness",
    "Go map iteration order and goroutine scheduling are sampled, not enumerated",
]


def rapid_job(name, run, checks, shards=1, steps=30, **kw):
    d = dict(name=name, run=run, checks=checks, shards=shards, steps=steps)
    d.update(kw)
    return d


def fuzz_job(name, fuzz, fuzztime="30s", workers=8, **kw):
    d = dict(name=name, run="^$", fuzz=fuzz, fuzztime=fuzztime, workers=workers)
    d.update(kw)
    return d


PROPS = {
    "C20": {
        "title": "Exported metrics match object status and label values match their keys",
        "level": "exploration",
        "level_text": "Generated-input search against an explicit oracle: random label maps (dots, slashes, dashes, colliding keys, empty) checked for multiset equality {(sanitise(k), v)} against a reference sanitiser, and random object statuses fed to every metric family generator with each gauge compared to the status field it documents. Pure functions of small inputs, so tens of thousands of cases per run cover the input classes named in the property; no absence claim beyond that.",
        "level_note": "Trusted: the reference sanitiser ([^a-zA-Z0-9_] -> '_') and the gauge/field table in the test; metric registration with a live REST config is not exercised (shim returns the generators).",
        "technique": "property-based testing (rapid) with reference-model oracle + native go fuzz of label keys/values",
        "quick": {"jobs": [
            rapid_job("labels", "^TestC20Labels$", 20000),
            rapid_job("metrics", "^TestC20Metrics$", 3000),
        ]},
        "thorough": {"jobs": [
            rapid_job("labels", "^TestC20Labels$", 200000, shards=8),
            rapid_job("metrics", "^TestC20Metrics$", 30000, shards=8),
            fuzz_job("fuzz-labels", "^FuzzC20Labels$", fuzztime="60s", workers=8),
        ], },
        "log_violations": True,
    },
}

PROPS["C03"] = {
    "title": "Rolling update respects maxUnavailable",
    "level": "exploration",
    "level_text": "Generated node/pod layouts (every per-node situation the property names, incl. migration pods), maxUnavailable and maxPodSchedulerFailure as int or percent, one real ExtendedDaemonSetReplicaSet Reconcile per layout executed on several forks of the store to sample Go map iteration orders; the deletions actually issued are judged by an independent budget oracle (U from the state read, at most max(0, maxUnavailable-U_eff) available pods, unavailable first, never more than maxUnavailable). The same monitor runs after every sync of generated rollout histories.",
    "level_note": "Map orders are sampled (6 forks quick, 24 thorough), not enumerated; a terminating pod that is still Ready is counted as available (most lenient reading), so only over-deletion under every reading is flagged.",
    "technique": "property-based testing (rapid): generated layouts + reference budget model, map-order sampling by store forks, stateful histories with a per-sync invariant",
    "quick": {"jobs": [rapid_job("budget", "^TestC03Budget$", 1500, shards=2)]},
    "thorough": {"jobs": [rapid_job("budget", "^TestC03Budget$", 6000, shards=16, timeout="40m")]},
}

PROPS["C05"] = {
    "title": "A new version becomes active only when the promotion rule allows it",
    "level": "exploration",
    "level_text": "The promotion lattice of the property (strategy x age-vs-duration incl. the boundary instants x noRestartsDuration x last restart x pause source x unpaused x canary-valid x failed x presence of the recorded active set; 10368 points) is enumerated completely through the real ExtendedDaemonSet Reconcile on a store prepared by the real reconciler, on the virtual clock; each switch of status.activeReplicaSet is judged by a reference rule (three-valued at the boundary instants). The same rule is checked after every EDS reconcile of generated histories.",
    "level_note": "Exhaustive only for the finite lattice named here (exhaustive_subspaces in the evidence); durations other than the sampled ones and interleavings are covered by sampling in the history tests.",
    "technique": "exhaustive enumeration of a finite input lattice + property-based sampling (rapid) against a reference promotion rule; stateful histories with a per-reconcile invariant",
    "quick": {"jobs": [rapid_job("lattice-sample", "^TestC05Lattice$", 1500), rapid_job("lattice-all", "^TestC05Exhaustive$", 1, shards=4)]},
    "thorough": {"jobs": [rapid_job("lattice-sample", "^TestC05Lattice$", 10000, shards=4), rapid_job("lattice-all", "^TestC05Exhaustive$", 1, shards=8)]},
}

PROPS["C15"] = {
    "title": "Canary nodes are valid, distinct, stable and as many as requested",
    "level": "exploration",
    "level_text": "Generated node populations (selector label, one or two anti-affinity labels, taints, restart history of the active pods), replicas as number or percent, canary nodeSelector, anti-affinity keys, eligibility-changing new templates and previously selected lists (valid, stale, nonexistent) are fed to one real ExtendedDaemonSet Reconcile; the resulting status.canary.nodes is judged by an independent oracle: distinct, valid, previous valid entries kept, count = replicas resolved against the targeted nodes (rounded up) or an error, error only when no selection exists within the per-value quota, spread over anti-affinity values, least-restarts preference. The validity monitor also runs in generated histories with node deletion/relabel/taint during a canary.",
    "level_note": "The per-value quota ceil(replicas/#values) is taken from the code's own documentation of the spreading rule; the statement only says 'spreading'.",
    "technique": "property-based testing (rapid) of the selection against a validity/preference oracle; stateful histories with a per-reconcile invariant",
    "quick": {"jobs": [rapid_job("selection", "^TestC15Selection$", 4000, shards=2), rapid_job("known", "^TestC15KnownStale$", 1)]},
    "thorough": {"jobs": [rapid_job("selection", "^TestC15Selection$", 20000, shards=16), rapid_job("known", "^TestC15KnownStale$", 1)]},
}

NOT_APPLICABLE = {}
