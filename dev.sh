#!/bin/bash
# development helper: regenerate the overlay and run go test in the harness
export GOFLAGS=-mod=mod GOPROXY=off GOSUMDB=off GOTOOLCHAIN=local GOWORK=off
/verif/.build/mkoverlay >/dev/null || exit 2
cd /verif/harness && exec go test -vet=off -tags verif,verif_plugin,verif_metrics,verif_canary,verif_rolling,verif_par -overlay /verif/.build/overlay.json "$@"
