package mon

import (
	"fmt"
	"reflect"
	"sort"
	"strings"
	"time"

	corev1 "k8s.io/api/core/v1"
	apiequality "k8s.io/apimachinery/pkg/api/equality"
	metav1 "k8s.io/apimachinery/pkg/apis/meta/v1"
	"k8s.io/apimachinery/pkg/labels"

	edsv1 "github.com/DataDog/extendeddaemonset/api/v1alpha1"
	"verifharness/oracle"
	"verifharness/sim"
)

// ownRS: replica sets of an EDS in a snapshot: same namespace and controller owner.
func ownRS(s *sim.Snapshot, eds *edsv1.ExtendedDaemonSet) []*edsv1.ExtendedDaemonSetReplicaSet {
	var out []*edsv1.ExtendedDaemonSetReplicaSet
	for _, rs := range s.RS {
		if rs.Namespace == eds.Namespace && oracle.OwnerEDSName(rs) == eds.Name {
			out = append(out, rs)
		}
	}
	return out
}

func matching(rss []*edsv1.ExtendedDaemonSetReplicaSet, tpl *corev1.PodTemplateSpec) *edsv1.ExtendedDaemonSetReplicaSet {
	var m *edsv1.ExtendedDaemonSetReplicaSet
	for _, rs := range rss {
		if oracle.RSMatchesTemplate(rs, tpl) {
			m = rs
		}
	}
	return m
}

func byName(rss []*edsv1.ExtendedDaemonSetReplicaSet, name string) *edsv1.ExtendedDaemonSetReplicaSet {
	for _, rs := range rss {
		if rs.Name == name {
			return rs
		}
	}
	return nil
}

// ---------------------------------------------------------------- C05

// PromoteVerdict is the three-valued answer of the promotion rule.
type PromoteVerdict int

// Verdicts.
const (
	MustNot PromoteVerdict = iota
	May
)

// MayPromote evaluates the rule of C05 on the state read. Boundary instants
// (now == creation+duration, now == lastRestart+noRestartsDuration) are "May".
func MayPromote(eds *edsv1.ExtendedDaemonSet, active, target *edsv1.ExtendedDaemonSetReplicaSet, now time.Time) (PromoteVerdict, string) {
	if eds.Status.ActiveReplicaSet == "" || active == nil {
		return May, "no recorded active replica set (or it no longer exists)"
	}
	c := eds.Spec.Strategy.Canary
	if c == nil {
		return May, "no canary strategy"
	}
	if eds.Annotations[oracle.AnnCanaryValid] == target.Name {
		return May, "canary-valid annotation names the replica set"
	}
	if oracle.RSCondTrue(&target.Status, edsv1.ConditionTypeCanaryFailed) {
		return MustNot, "the canary is marked failed"
	}
	if c.ValidationMode == edsv1.ExtendedDaemonSetSpecStrategyCanaryValidationModeManual {
		return MustNot, "manual validation mode and no canary-valid annotation for this replica set"
	}
	if c.Duration == nil {
		return MustNot, "no canary duration"
	}
	if eds.Annotations[oracle.AnnCanaryPaused] == "true" || oracle.RSCondTrue(&target.Status, edsv1.ConditionTypeCanaryPaused) {
		return MustNot, "the canary is paused"
	}
	if now.Before(target.CreationTimestamp.Add(c.Duration.Duration)) {
		return MustNot, fmt.Sprintf("canary duration %s not elapsed (replica set created %s, now %s)", c.Duration.Duration, target.CreationTimestamp.Format(time.RFC3339), now.Format(time.RFC3339Nano))
	}
	if c.NoRestartsDuration != nil {
		if rc := oracle.RSCond(&target.Status, edsv1.ConditionTypePodRestarting); rc != nil && !rc.LastUpdateTime.IsZero() {
			if now.Before(rc.LastUpdateTime.Add(c.NoRestartsDuration.Duration)) {
				return MustNot, fmt.Sprintf("noRestartsDuration %s not elapsed since the last restart at %s", c.NoRestartsDuration.Duration, rc.LastUpdateTime.Format(time.RFC3339))
			}
		}
	}
	return May, "duration and noRestartsDuration elapsed, neither paused nor failed"
}

func promotionRule(r *sim.Record) []V {
	pre := r.Pre.EDSByKey(r.Key.Namespace, r.Key.Name)
	post := r.Post.EDSByKey(r.Key.Namespace, r.Key.Name)
	if pre == nil || post == nil || post.Status.ActiveReplicaSet == pre.Status.ActiveReplicaSet {
		return nil
	}
	rss := ownRS(r.Pre, pre)
	target := byName(rss, post.Status.ActiveReplicaSet)
	if target == nil {
		return []V{{"C05", "promotion-rule", "C05/promotion-rule/active-is-not-an-own-replica-set", fmt.Sprintf("status.activeReplicaSet became %q which is not a replica set of %s/%s in the state read", post.Status.ActiveReplicaSet, pre.Namespace, pre.Name)}}
	}
	if !oracle.RSMatchesTemplate(target, &pre.Spec.Template) {
		return []V{{"C05", "promotion-rule", "C05/promotion-rule/switch-to-non-matching-replica-set", fmt.Sprintf("status.activeReplicaSet switched from %q to %q which does not match spec.template", pre.Status.ActiveReplicaSet, target.Name)}}
	}
	active := byName(rss, pre.Status.ActiveReplicaSet)
	verdict, why := MayPromote(pre, active, target, r.Pre.Now)
	if verdict == MustNot {
		reason := "other"
		switch {
		case strings.Contains(why, "failed"):
			reason = "failed-canary"
		case strings.Contains(why, "manual"):
			reason = "manual-mode"
		case strings.Contains(why, "paused"):
			reason = "paused-canary"
		case strings.Contains(why, "canary duration"):
			reason = "duration-not-elapsed"
		case strings.Contains(why, "noRestartsDuration"):
			reason = "noRestartsDuration-not-elapsed"
		}
		return []V{{"C05", "promotion-rule", "C05/promotion-rule/promoted-although/" + reason, fmt.Sprintf("status.activeReplicaSet switched from %q to %q although %s", pre.Status.ActiveReplicaSet, target.Name, why)}}
	}
	return nil
}

// ---------------------------------------------------------------- C04 / C15 (canary node list)

func eligibleCount(s *sim.Snapshot, tpl *corev1.PodTemplateSpec) int {
	n := 0
	for _, node := range s.Nodes {
		if oracle.Eligible(tpl, node) {
			n++
		}
	}
	return n
}

// replicaBases: the readings of "the number of nodes the ExtendedDaemonSet targets".
func replicaBases(r *sim.Record, eds *edsv1.ExtendedDaemonSet) []int {
	rss := ownRS(r.Pre, eds)
	bases := []int{int(eds.Status.Desired)}
	if a := byName(rss, eds.Status.ActiveReplicaSet); a != nil {
		bases = append(bases, eligibleCount(r.Pre, &a.Spec.Template), int(a.Status.Desired))
	}
	bases = append(bases, eligibleCount(r.Pre, &eds.Spec.Template))
	return bases
}

func canaryListGrowth(r *sim.Record) []V {
	pre := r.Pre.EDSByKey(r.Key.Namespace, r.Key.Name)
	post := r.Post.EDSByKey(r.Key.Namespace, r.Key.Name)
	if pre == nil || post == nil || post.Status.Canary == nil || pre.Spec.Strategy.Canary == nil {
		return nil
	}
	preLen := 0
	if pre.Status.Canary != nil {
		preLen = len(pre.Status.Canary.Nodes)
	}
	// "the number of nodes the ExtendedDaemonSet targets": the nodes eligible for the active template (or, whichever
	// is larger, for the new one). status.desired is deliberately not a base: during a canary it can transiently count
	// the canary nodes twice (active set not yet synced with the node list).
	max := preLen
	strict := 0
	rss := ownRS(r.Pre, pre)
	bases := []int{eligibleCount(r.Pre, &pre.Spec.Template)}
	if a := byName(rss, pre.Status.ActiveReplicaSet); a != nil {
		bases = append(bases, eligibleCount(r.Pre, &a.Spec.Template))
	}
	for _, b := range bases {
		if n, ok := oracle.Resolve(pre.Spec.Strategy.Canary.Replicas, b); ok && n > strict {
			strict = n
		}
	}
	if strict > max {
		max = strict
	}
	if len(post.Status.Canary.Nodes) > max {
		sig := "C04/canary-list-growth"
		if pre.Spec.Strategy.Canary.Replicas.Type == 1 {
			lenient := 0
			for _, b := range replicaBases(r, pre) {
				if n, ok := oracle.Resolve(pre.Spec.Strategy.Canary.Replicas, b); ok && n > lenient {
					lenient = n
				}
			}
			if len(post.Status.Canary.Nodes) <= lenient {
				sig = "C15/canary-list-growth/percent-base-inflated"
			}
		}
		prop := sig[:3]
		return []V{{prop, "canary-list-growth", sig, fmt.Sprintf("status.canary.nodes grew from %d to %d entries %v although canary.replicas=%s of the %v targeted nodes resolves to at most %d (status.desired as read: %d)", preLen, len(post.Status.Canary.Nodes), post.Status.Canary.Nodes, pre.Spec.Strategy.Canary.Replicas.String(), bases, strict, pre.Status.Desired)}}
	}
	return nil
}

// canaryNodesValid: after a successful EDS reconcile that leaves a canary in progress.
func canaryNodesValid(r *sim.Record) []V {
	pre := r.Pre.EDSByKey(r.Key.Namespace, r.Key.Name)
	post := r.Post.EDSByKey(r.Key.Namespace, r.Key.Name)
	if pre == nil || post == nil || post.Status.Canary == nil || pre.Spec.Strategy.Canary == nil || r.Panic != nil {
		return nil
	}
	for _, c := range r.Calls {
		if c.Fault != sim.FaultNone {
			return nil
		}
	}
	var out []V
	nodes := post.Status.Canary.Nodes
	seen := map[string]bool{}
	for _, n := range nodes {
		if seen[n] {
			out = append(out, V{"C15", "canary-nodes-valid", "C15/canary-nodes-valid/duplicate", fmt.Sprintf("status.canary.nodes lists %s twice: %v", n, nodes)})
		}
		seen[n] = true
	}
	// the list is only (re)written by a reconcile that got as far as the status write
	wrote := false
	for _, c := range r.Calls {
		if c.Verb == "status-update" && c.Kind == "ExtendedDaemonSet" && c.Err == "" {
			wrote = true
		}
	}
	// only a reconcile that ran to its end is obliged: one that defaults the object or creates the missing
	// replica set returns before it looks at the canary at all
	ranToEnd := false
	for _, c := range r.Calls {
		if c.Verb == "list" && c.Kind == "ExtendedDaemonSetReplicaSetList" && c.Err == "" {
			ranToEnd = true
		}
	}
	for _, c := range r.Calls {
		if c.Verb == "create" && c.Kind == "ExtendedDaemonSetReplicaSet" {
			ranToEnd = false
		}
	}
	if ranToEnd && r.Err == nil && (wrote || reflect.DeepEqual(pre.Status, post.Status)) {
		rss := ownRS(r.Pre, pre)
		target := matching(rss, &pre.Spec.Template)
		var sel labels.Selector
		if pre.Spec.Strategy.Canary.NodeSelector != nil {
			sel, _ = metav1.LabelSelectorAsSelector(pre.Spec.Strategy.Canary.NodeSelector)
		}
		for _, n := range nodes {
			node := r.Pre.NodeByName(n)
			// an invalid entry that was already listed before this reconcile (stale) is told apart from one this reconcile chose
			kind := "invalid-node-selected"
			if pre.Status.Canary != nil && oracle.Contains(pre.Status.Canary.Nodes, n) {
				kind = "stale-entry-kept"
			}
			switch {
			case node == nil:
				out = append(out, V{"C15", "canary-nodes-valid", "C15/canary-nodes-valid/" + kind + "/absent", fmt.Sprintf("status.canary.nodes %v lists %s which does not exist, and the reconcile reported no error", nodes, n)})
			case sel != nil && !sel.Matches(labels.Set(node.Labels)):
				out = append(out, V{"C15", "canary-nodes-valid", "C15/canary-nodes-valid/" + kind + "/selector-mismatch", fmt.Sprintf("canary node %s (labels %v) does not match canary.nodeSelector", n, node.Labels)})
			case target != nil && !oracle.Eligible(&target.Spec.Template, node):
				out = append(out, V{"C15", "canary-nodes-valid", "C15/canary-nodes-valid/" + kind + "/ineligible", fmt.Sprintf("canary node %s (labels %v, taints %v) is not eligible for the canary pod, and the reconcile reported no error", n, node.Labels, node.Spec.Taints)})
			}
		}
		// as many as requested: fewer than the smallest reading of replicas without an error is a silent smaller canary
		min := -1
		for _, b := range replicaBases(r, pre) {
			if n, ok := oracle.Resolve(pre.Spec.Strategy.Canary.Replicas, b); ok && (min < 0 || n < min) {
				min = n
			}
		}
		if min > 0 && len(nodes) < min {
			out = append(out, V{"C15", "canary-nodes-valid", "C15/canary-nodes-valid/fewer-than-replicas-without-error", fmt.Sprintf("canary.replicas=%s resolves to at least %d but status.canary.nodes=%v and the reconcile returned no error", pre.Spec.Strategy.Canary.Replicas.String(), min, nodes)})
		}
	}
	// stability: previously selected nodes that are still valid are kept
	if pre.Status.Canary != nil && pre.Status.Canary.ReplicaSet == post.Status.Canary.ReplicaSet {
		rss := ownRS(r.Pre, pre)
		target := byName(rss, post.Status.Canary.ReplicaSet)
		for _, n := range pre.Status.Canary.Nodes {
			node := r.Pre.NodeByName(n)
			if node != nil && target != nil && oracle.Eligible(&target.Spec.Template, node) && !seen[n] {
				out = append(out, V{"C15", "canary-nodes-valid", "C15/canary-nodes-valid/valid-node-dropped", fmt.Sprintf("canary node %s is still valid but was dropped: %v -> %v", n, pre.Status.Canary.Nodes, nodes)})
			}
		}
	}
	return out
}

// ---------------------------------------------------------------- C13

func rsIdentity(r *sim.Record) []V {
	pre := r.Pre.EDSByKey(r.Key.Namespace, r.Key.Name)
	if pre == nil {
		return nil
	}
	var out []V
	var stored []*edsv1.ExtendedDaemonSetReplicaSet // replica sets this very reconcile created (the store applied the call)
	for _, c := range r.Calls {
		if c.Verb != "create" || c.Kind != "ExtendedDaemonSetReplicaSet" {
			continue
		}
		obj, ok := c.Obj.(*edsv1.ExtendedDaemonSetReplicaSet)
		if !ok {
			continue
		}
		h := oracle.TemplateHash(&pre.Spec.Template)
		for _, rs := range stored {
			if rs.Annotations[oracle.AnnTemplateHash] == obj.Annotations[oracle.AnnTemplateHash] {
				out = append(out, V{"C13", "rs-identity", "C13/rs-identity/second-replica-set-for-template/same-reconcile", fmt.Sprintf("replica set %s created although the same reconcile had already created %s for the same template (hash %s)", obj.Name, rs.Name, h)})
			}
		}
		if c.Applied {
			stored = append(stored, obj)
		}
		for _, rs := range ownRS(r.Pre, pre) {
			// a replica set that is being deleted but still exists (finalizer) counts: "while one exists"
			if rs.Annotations[oracle.AnnTemplateHash] == h {
				out = append(out, V{"C13", "rs-identity", "C13/rs-identity/second-replica-set-for-template", fmt.Sprintf("replica set %s created although %s already exists for the same template (hash %s, deletionTimestamp set: %v)", obj.Name, rs.Name, h, rs.DeletionTimestamp != nil)})
			}
		}
		if !apiequality.Semantic.DeepEqual(obj.Spec.Template, pre.Spec.Template) {
			out = append(out, V{"C13", "rs-identity", "C13/rs-identity/template-differs-from-spec", fmt.Sprintf("replica set %s created with a template different from spec.template", obj.Name)})
		}
		if obj.Annotations[oracle.AnnTemplateHash] != h || obj.Spec.TemplateGeneration != h {
			out = append(out, V{"C13", "rs-identity", "C13/rs-identity/hash-triple", fmt.Sprintf("replica set %s: annotation hash %q, templateGeneration %q, MD5 of its template %q", obj.Name, obj.Annotations[oracle.AnnTemplateHash], obj.Spec.TemplateGeneration, h)})
		}
		if obj.Namespace != pre.Namespace || oracle.OwnerEDSName(obj) != pre.Name || obj.Labels[oracle.LabelEDSName] != pre.Name {
			out = append(out, V{"C13", "rs-identity", "C13/rs-identity/not-owned", fmt.Sprintf("replica set %s/%s created without owner/label of %s/%s", obj.Namespace, obj.Name, pre.Namespace, pre.Name)})
		}
	}
	return out
}

func rsGC(r *sim.Record) []V {
	pre := r.Pre.EDSByKey(r.Key.Namespace, r.Key.Name)
	post := r.Post.EDSByKey(r.Key.Namespace, r.Key.Name)
	if pre == nil {
		return nil
	}
	var out []V
	for _, c := range r.Calls {
		if c.Verb != "delete" || c.Kind != "ExtendedDaemonSetReplicaSet" {
			continue
		}
		rs := r.Pre.RSByKey(c.NS, c.Name)
		if rs == nil {
			continue
		}
		if post != nil && post.Status.ActiveReplicaSet == rs.Name && rs.Namespace == post.Namespace {
			out = append(out, V{"C13", "rs-gc", "C13/rs-gc/active-deleted", fmt.Sprintf("replica set %s deleted although it is status.activeReplicaSet after the reconcile", rs.Name)})
		}
		if pre.Status.ActiveReplicaSet == rs.Name && rs.Namespace == pre.Namespace && (post == nil || post.Status.ActiveReplicaSet == rs.Name) {
			continue
		}
		if rs.Namespace == pre.Namespace && (oracle.RSMatchesTemplate(rs, &pre.Spec.Template) || (post != nil && oracle.RSMatchesTemplate(rs, &post.Spec.Template))) {
			out = append(out, V{"C13", "rs-gc", "C13/rs-gc/matching-deleted", fmt.Sprintf("replica set %s deleted although it matches spec.template", rs.Name)})
		}
		s := rs.Status
		if s.Desired != 0 || s.Current != 0 || s.Ready != 0 || s.Available != 0 {
			out = append(out, V{"C13", "rs-gc", "C13/rs-gc/non-zero-status-deleted", fmt.Sprintf("replica set %s deleted while reporting desired=%d current=%d ready=%d available=%d", rs.Name, s.Desired, s.Current, s.Ready, s.Available)})
		}
		if fc := oracle.RSCond(&rs.Status, edsv1.ConditionTypeCanaryFailed); fc != nil && fc.Status == corev1.ConditionTrue {
			if r.Pre.Now.Before(fc.LastTransitionTime.Add(2*time.Minute - time.Second)) {
				out = append(out, V{"C07", "rs-gc", "C07/rs-gc/failed-canary-deleted-before-two-minutes", fmt.Sprintf("failed canary replica set %s deleted %s after it failed", rs.Name, r.Pre.Now.Sub(fc.LastTransitionTime.Time))})
			}
		}
	}
	return out
}

// ---------------------------------------------------------------- C14

// ExpectedStatus is the documented function of the replica-set statuses read.
type ExpectedStatus struct {
	Desired, Current, Ready, Available, UpToDate, Ignored int32
	Active                                                string
	CanaryRS                                              string // "" = no canary block
	State                                                 edsv1.ExtendedDaemonSetStatusState
	Reason                                                edsv1.ExtendedDaemonSetStatusReason
	FailedCond, PausedCond                                bool
	HasStrategy                                           bool
}

// EDSStatus computes the reference status for an EDS reconcile that ran to its
// end: rss are the replica sets read, activeName the active set after the reconcile.
func EDSStatus(eds *edsv1.ExtendedDaemonSet, rss []*edsv1.ExtendedDaemonSetReplicaSet, activeName string) (*ExpectedStatus, bool) {
	e := &ExpectedStatus{Active: activeName, HasStrategy: eds.Spec.Strategy.Canary != nil}
	for _, rs := range rss {
		e.Current += rs.Status.Current
		e.Ready += rs.Status.Ready
		e.Available += rs.Status.Available
	}
	a := byName(rss, activeName)
	m := matching(rss, &eds.Spec.Template)
	if a == nil || m == nil {
		return nil, false
	}
	frozen, rpaused := eds.Annotations[oracle.AnnRolloutFrozen] == "true", eds.Annotations[oracle.AnnRollingPaused] == "true"
	nonCanary := edsv1.ExtendedDaemonSetStatusStateRunning
	if frozen {
		nonCanary = edsv1.ExtendedDaemonSetStatusStateRolloutFrozen
	} else if rpaused {
		nonCanary = edsv1.ExtendedDaemonSetStatusStateRollingUpdatePaused
	}
	e.Desired, e.UpToDate, e.Ignored, e.State = a.Status.Desired, a.Status.Current, a.Status.IgnoredUnresponsiveNodes, nonCanary
	if !e.HasStrategy {
		return e, true
	}
	failed := oracle.RSCondTrue(&m.Status, edsv1.ConditionTypeCanaryFailed)
	paused, reason := false, edsv1.ExtendedDaemonSetStatusReason("")
	if pc := oracle.RSCond(&m.Status, edsv1.ConditionTypeCanaryPaused); pc != nil && pc.Status == corev1.ConditionTrue {
		paused, reason = true, edsv1.ExtendedDaemonSetStatusReason(pc.Reason)
	} else if eds.Annotations[oracle.AnnCanaryPaused] == "true" {
		paused, reason = true, edsv1.ExtendedDaemonSetStatusReasonUnknown
		if rsn, ok := eds.Annotations[oracle.AnnCanaryReason]; ok {
			reason = edsv1.ExtendedDaemonSetStatusReason(rsn)
		}
	}
	canaryOn := !failed && a.Name != m.Name
	e.FailedCond = failed
	e.PausedCond = paused && !failed
	switch {
	case failed:
		e.State = edsv1.ExtendedDaemonSetStatusStateCanaryFailed
	case canaryOn:
		e.CanaryRS = m.Name
		e.Desired += m.Status.Desired
		e.UpToDate = m.Status.Current
		e.Ignored += m.Status.IgnoredUnresponsiveNodes
		e.State = edsv1.ExtendedDaemonSetStatusStateCanary
		if paused {
			e.State = edsv1.ExtendedDaemonSetStatusStateCanaryPaused
			e.Reason = reason
		}
	}
	return e, true
}

func statusFunction(r *sim.Record) []V {
	pre := r.Pre.EDSByKey(r.Key.Namespace, r.Key.Name)
	post := r.Post.EDSByKey(r.Key.Namespace, r.Key.Name)
	if pre == nil || post == nil || r.Err != nil || r.Panic != nil {
		return nil
	}
	// only reconciles that ran to the end: no defaulting write, no replica-set creation, no fault
	for _, c := range r.Calls {
		if c.Fault != sim.FaultNone || (c.Verb == "create" && c.Kind == "ExtendedDaemonSetReplicaSet") {
			return nil
		}
	}
	listed := false
	for _, c := range r.Calls {
		if c.Verb == "list" && c.Kind == "ExtendedDaemonSetReplicaSetList" && c.Err == "" {
			listed = true
		}
	}
	if !listed {
		return nil
	}
	rss := ownRS(r.Pre, pre)
	exp, ok := EDSStatus(pre, rss, post.Status.ActiveReplicaSet)
	if !ok {
		return nil
	}
	got := post.Status
	var diffs []string
	cmp := func(name string, g, w interface{}) {
		if !reflect.DeepEqual(g, w) {
			diffs = append(diffs, fmt.Sprintf("%s=%v want %v", name, g, w))
		}
	}
	cmp("current", got.Current, exp.Current)
	cmp("ready", got.Ready, exp.Ready)
	cmp("available", got.Available, exp.Available)
	cmp("desired", got.Desired, exp.Desired)
	cmp("upToDate", got.UpToDate, exp.UpToDate)
	cmp("ignoredUnresponsiveNodes", got.IgnoredUnresponsiveNodes, exp.Ignored)
	cmp("state", got.State, exp.State)
	cmp("reason", got.Reason, exp.Reason)
	gotCanary := ""
	if got.Canary != nil {
		gotCanary = got.Canary.ReplicaSet
		if gotCanary == "" {
			gotCanary = "(empty)"
		}
	}
	cmp("canary.replicaSet", gotCanary, exp.CanaryRS)
	if exp.HasStrategy {
		gf := oracle.EDSCond(&got, edsv1.ConditionTypeEDSCanaryFailed)
		gp := oracle.EDSCond(&got, edsv1.ConditionTypeEDSCanaryPaused)
		cmp("cond Canary-Failed", gf != nil && gf.Status == corev1.ConditionTrue, exp.FailedCond)
		cmp("cond Canary-Paused", gp != nil && gp.Status == corev1.ConditionTrue, exp.PausedCond)
		// a true condition agrees with the facts it reports: the pause reason shown in status.reason and the
		// canary replica set it is about
		if exp.State == edsv1.ExtendedDaemonSetStatusStateCanaryPaused && exp.PausedCond && gp != nil && gp.Status == corev1.ConditionTrue {
			cmp("cond Canary-Paused reason", gp.Reason, string(exp.Reason))
			if exp.CanaryRS != "" && !strings.Contains(gp.Message, exp.CanaryRS) {
				diffs = append(diffs, fmt.Sprintf("cond Canary-Paused message=%q does not name the canary replica set %s", gp.Message, exp.CanaryRS))
			}
		}
	}
	if len(diffs) == 0 {
		return nil
	}
	sort.Strings(diffs)
	var fields []string
	for _, d := range diffs {
		fields = append(fields, d[:strings.Index(d, "=")])
	}
	return []V{{"C14", "status-function", "C14/status-function/" + strings.Join(fields, "+"), fmt.Sprintf("ExtendedDaemonSet %s/%s status after reconcile differs from the function of its replica sets: %s", pre.Namespace, pre.Name, strings.Join(diffs, "; "))}}
}

// ---------------------------------------------------------------- C12

// ownership: every write of a reconcile targets the reconciling EDS's own objects.
func ownership(r *sim.Record) []V {
	var eds *edsv1.ExtendedDaemonSet
	switch r.Actor {
	case sim.ActorEDS, sim.ActorPodTemplate:
		eds = r.Pre.EDSByKey(r.Key.Namespace, r.Key.Name)
	case sim.ActorERS:
		if rs := r.Pre.RSByKey(r.Key.Namespace, r.Key.Name); rs != nil {
			if o := oracle.OwnerEDSName(rs); o != "" {
				eds = r.Pre.EDSByKey(rs.Namespace, o)
			}
		}
	default:
		return nil
	}
	if eds == nil {
		return nil
	}
	var out []V
	bad := func(c *sim.Call, why string) {
		out = append(out, V{"C12", "ownership", "C12/ownership/" + r.Actor + "/" + c.Verb + "-" + c.Kind + "/" + why, fmt.Sprintf("reconcile %s of %s (ExtendedDaemonSet %s/%s) issued %s on %s %s/%s: %s", r.Actor, r.Key, eds.Namespace, eds.Name, c.Verb, c.Kind, c.NS, c.Name, why)})
	}
	old := eds.Annotations[oracle.AnnOldDaemonset]
	for _, c := range r.Calls {
		if !c.Write {
			continue
		}
		switch c.Kind {
		case "ExtendedDaemonSet":
			if c.NS != eds.Namespace || c.Name != eds.Name {
				bad(c, "another ExtendedDaemonSet")
			}
		case "ExtendedDaemonSetReplicaSet":
			if c.NS != eds.Namespace {
				bad(c, "replica set of another namespace")
				continue
			}
			var obj *edsv1.ExtendedDaemonSetReplicaSet
			if c.Verb == "create" {
				obj, _ = c.Obj.(*edsv1.ExtendedDaemonSetReplicaSet)
			} else {
				obj = r.Pre.RSByKey(c.NS, c.Name)
			}
			if obj != nil && oracle.OwnerEDSName(obj) != eds.Name {
				bad(c, "replica set owned by another ExtendedDaemonSet")
			}
		case "PodTemplate":
			if c.NS != eds.Namespace || c.Name != eds.Name {
				bad(c, "foreign PodTemplate")
			}
		case "Pod":
			var p *corev1.Pod
			if c.Verb == "create" {
				p, _ = c.Obj.(*corev1.Pod)
			} else {
				p = r.Pre.PodByKey(c.NS, c.Name)
			}
			if p == nil {
				continue
			}
			if p.Namespace != eds.Namespace {
				bad(c, "pod of another namespace")
				continue
			}
			own := p.Labels[oracle.LabelEDSName] == eds.Name
			if !own && old != "" {
				for _, ref := range p.OwnerReferences {
					if ref.Kind == "DaemonSet" && ref.Name == old {
						own = true
					}
				}
			}
			if !own {
				bad(c, "pod without this ExtendedDaemonSet's name label")
			}
		default:
			bad(c, "unexpected kind")
		}
	}
	// the recorded active / canary replica set must be an own one
	if r.Actor == sim.ActorEDS {
		if post := r.Post.EDSByKey(eds.Namespace, eds.Name); post != nil {
			check := func(field, name string) {
				if name == "" {
					return
				}
				rs := r.Post.RSByKey(eds.Namespace, name)
				if rs == nil {
					rs = r.Pre.RSByKey(eds.Namespace, name)
				}
				if rs == nil {
					// named set exists in no snapshot of this namespace: was it adopted from elsewhere?
					for _, o := range r.Pre.RS {
						if o.Name == name && o.Namespace != eds.Namespace {
							out = append(out, V{"C12", "ownership", "C12/ownership/adopted-foreign-replica-set/" + field, fmt.Sprintf("%s/%s %s=%q names a replica set that only exists in namespace %s", eds.Namespace, eds.Name, field, name, o.Namespace)})
						}
					}
					return
				}
				if oracle.OwnerEDSName(rs) != eds.Name {
					out = append(out, V{"C12", "ownership", "C12/ownership/adopted-foreign-replica-set/" + field, fmt.Sprintf("%s/%s %s=%q is owned by %q", eds.Namespace, eds.Name, field, name, oracle.OwnerEDSName(rs))})
				}
			}
			if post.Status.ActiveReplicaSet != r.Pre.EDSByKey(eds.Namespace, eds.Name).Status.ActiveReplicaSet {
				check("status.activeReplicaSet", post.Status.ActiveReplicaSet)
			}
			if post.Status.Canary != nil {
				check("status.canary.replicaSet", post.Status.Canary.ReplicaSet)
			}
		}
	}
	return out
}
