// Package mon holds the monitors: invariants over one reconcile record
// (state read, calls issued, state after) plus a little history. They only
// look at API-visible facts and judge them with the reference predicates of
// package oracle.
package mon

import (
	"fmt"
	"sort"
	"strings"
	"time"

	corev1 "k8s.io/api/core/v1"

	edsv1 "github.com/DataDog/extendeddaemonset/api/v1alpha1"
	"verifharness/oracle"
	"verifharness/sim"
)

// V is one monitor firing.
type V struct {
	Property string
	Monitor  string
	Sig      string
	Detail   string
}

func (v V) String() string { return fmt.Sprintf("%s %s: %s", v.Property, v.Sig, v.Detail) }

// Set selects monitors by name.
type Set map[string]bool

// All monitor names.
var All = []string{
	"create-eligible", "create-once", "dup-resolution", "ineligible-cleanup", "unknown-untouched",
	"budget", "canary-confinement", "canary-list-growth", "canary-label", "promotion-rule",
	"paused-frozen", "rate", "ownership", "rs-identity", "rs-gc", "status-function", "rs-status-order",
	"canary-nodes-valid", "no-panic", "canary-verdict", "condition-clock", "canary-latch",
}

// Of builds a Set.
func Of(names ...string) Set {
	s := Set{}
	for _, n := range names {
		s[n] = true
	}
	return s
}

// AllSet enables everything.
func AllSet() Set { return Of(All...) }

// History is the little cross-record state some monitors need.
type History struct {
	lastWriteSync map[string]writeSync // rs key -> last sync that created/deleted pods
}

type writeSync struct {
	at       time.Time
	statusOK bool
	step     int
}

// NewHistory returns an empty history.
func NewHistory() *History { return &History{lastWriteSync: map[string]writeSync{}} }

// Fork copies the history (for store forks).
func (h *History) Fork() *History {
	n := NewHistory()
	for k, v := range h.lastWriteSync {
		n.lastWriteSync[k] = v
	}
	return n
}

// ---------------------------------------------------------------- views

// edsPods: pods "of" an EDS in a snapshot: same namespace and name label, plus,
// during a declared migration, pods owned by the named old DaemonSet.
func edsPods(s *sim.Snapshot, eds *edsv1.ExtendedDaemonSet) []*corev1.Pod {
	var out []*corev1.Pod
	old := eds.Annotations[oracle.AnnOldDaemonset]
	for _, p := range s.Pods {
		if p.Namespace != eds.Namespace {
			continue
		}
		if p.Labels[oracle.LabelEDSName] == eds.Name {
			out = append(out, p)
			continue
		}
		if old != "" {
			for _, ref := range p.OwnerReferences {
				if ref.Kind == "DaemonSet" && ref.Name == old {
					out = append(out, p)
					break
				}
			}
		}
	}
	return out
}

func byNode(pods []*corev1.Pod) map[string][]*corev1.Pod {
	m := map[string][]*corev1.Pod{}
	for _, p := range pods {
		if n := oracle.NodeOf(p); n != "" {
			m[n] = append(m[n], p)
		}
	}
	return m
}

func nonUnknown(pods []*corev1.Pod) []*corev1.Pod {
	var out []*corev1.Pod
	for _, p := range pods {
		if p.Status.Phase != corev1.PodUnknown {
			out = append(out, p)
		}
	}
	return out
}

type ersView struct {
	rs          *edsv1.ExtendedDaemonSetReplicaSet
	eds         *edsv1.ExtendedDaemonSet
	role        oracle.Role
	full        bool // the sync reached the strategy (it listed pods)
	creates     []*sim.Call
	deletes     []*sim.Call
	patches     []*sim.Call
	statusOK    bool
	statusTried bool // a status write of the replica set was attempted (whatever its fate)
	pods        []*corev1.Pod
	podsByNode  map[string][]*corev1.Pod
	canaryNodes []string
	faulted     bool
}

func viewERS(r *sim.Record) *ersView {
	if r.Actor != sim.ActorERS || r.Pre == nil {
		return nil
	}
	rs := r.Pre.RSByKey(r.Key.Namespace, r.Key.Name)
	if rs == nil {
		return nil
	}
	v := &ersView{rs: rs}
	if owner := oracle.OwnerEDSName(rs); owner != "" {
		v.eds = r.Pre.EDSByKey(rs.Namespace, owner)
	}
	if v.eds == nil {
		return v
	}
	v.role = oracle.RoleOf(v.eds, rs.Name)
	if v.eds.Status.Canary != nil {
		v.canaryNodes = v.eds.Status.Canary.Nodes
	}
	for _, c := range r.Calls {
		if c.Fault != sim.FaultNone {
			v.faulted = true
		}
		switch {
		case c.Verb == "list" && c.Kind == "PodList" && c.Err == "":
			v.full = true
		case c.Verb == "create" && c.Kind == "Pod":
			v.creates = append(v.creates, c)
		case c.Verb == "delete" && c.Kind == "Pod":
			v.deletes = append(v.deletes, c)
		case c.Verb == "patch" && c.Kind == "Pod":
			v.patches = append(v.patches, c)
		case c.Verb == "status-update" && c.Kind == "ExtendedDaemonSetReplicaSet" && c.Err == "":
			v.statusOK = true
		}
		if (c.Verb == "status-update" || c.Verb == "status-patch") && c.Kind == "ExtendedDaemonSetReplicaSet" {
			v.statusTried = true
		}
	}
	v.pods = edsPods(r.Pre, v.eds)
	v.podsByNode = byNode(v.pods)
	return v
}

// targeted: nodes eligible for the replica set's template, minus (for the active role) the canary nodes.
func (v *ersView) targeted(s *sim.Snapshot) []*corev1.Node {
	var out []*corev1.Node
	for _, n := range s.Nodes {
		if !oracle.Eligible(&v.rs.Spec.Template, n) {
			continue
		}
		if v.role == oracle.RoleActive && oracle.Contains(v.canaryNodes, n.Name) {
			continue
		}
		out = append(out, n)
	}
	return out
}

func deleted(calls []*sim.Call, p *corev1.Pod) bool {
	for _, c := range calls {
		if c.NS == p.Namespace && c.Name == p.Name {
			return true
		}
	}
	return false
}

func podNames(pods []*corev1.Pod) string {
	var s []string
	for _, p := range pods {
		st := string(p.Status.Phase)
		if p.DeletionTimestamp != nil {
			st += ",terminating"
		}
		if p.Spec.NodeName == "" {
			st += ",unscheduled"
		}
		if oracle.IsReady(p) {
			st += ",ready"
		}
		s = append(s, fmt.Sprintf("%s(%s,created=%s,hash=%.6s)", p.Name, st, p.CreationTimestamp.Format("15:04:05"), p.Annotations[oracle.AnnTemplateHash]))
	}
	sort.Strings(s)
	return strings.Join(s, " ")
}

// ---------------------------------------------------------------- entry

// Check runs the enabled monitors over one record.
func Check(r *sim.Record, on Set, h *History) []V {
	var out []V
	add := func(v ...V) { out = append(out, v...) }
	if on["no-panic"] && r.Panic != nil {
		add(V{"C16", "no-panic", "C16/no-panic/" + r.Actor + "/" + panicSite(r.Stack), fmt.Sprintf("%s reconcile of %s panicked: %v\n%s", r.Actor, r.Key, r.Panic, trimStack(r.Stack))})
	}
	if r.Pre == nil || r.Post == nil {
		return out
	}
	if on["unknown-untouched"] {
		add(unknownUntouched(r)...)
	}
	if on["ownership"] {
		add(ownership(r)...)
	}
	if v := viewERS(r); v != nil && v.eds != nil {
		if on["create-eligible"] || on["create-once"] {
			add(createChecks(r, v, on)...)
		}
		if on["dup-resolution"] {
			add(dupResolution(r, v)...)
		}
		if on["ineligible-cleanup"] {
			add(ineligibleCleanup(r, v)...)
		}
		if on["budget"] {
			add(budget(r, v)...)
		}
		if on["canary-confinement"] {
			add(canaryConfinement(r, v)...)
		}
		if on["canary-label"] {
			add(canaryLabel(r, v)...)
		}
		if on["paused-frozen"] {
			add(pausedFrozen(r, v)...)
		}
		if on["rate"] {
			add(rate(r, v, h)...)
		}
		if on["rs-identity"] {
			add(podHash(r, v)...)
		}
		if on["rs-status-order"] {
			add(rsStatusOrder(r, v)...)
		}
		if on["canary-verdict"] {
			add(canaryVerdict(r, v)...)
		}
		if on["condition-clock"] {
			add(conditionClock(r, v)...)
		}
		if on["canary-latch"] {
			add(canaryLatch(r, v)...)
		}
	}
	if r.Actor == sim.ActorEDS {
		if on["promotion-rule"] {
			add(promotionRule(r)...)
		}
		if on["canary-list-growth"] {
			add(canaryListGrowth(r)...)
		}
		if on["rs-identity"] {
			add(rsIdentity(r)...)
		}
		if on["rs-gc"] {
			add(rsGC(r)...)
		}
		if on["status-function"] {
			add(statusFunction(r)...)
		}
		if on["canary-nodes-valid"] {
			add(canaryNodesValid(r)...)
		}
	}
	return out
}

func trimStack(s string) string {
	lines := strings.Split(s, "\n")
	var keep []string
	for i, l := range lines {
		if strings.Contains(l, "DataDog/extendeddaemonset") {
			keep = append(keep, strings.TrimSpace(l))
			if i+1 < len(lines) {
				keep = append(keep, "    "+strings.TrimSpace(lines[i+1]))
			}
		}
		if len(keep) > 12 {
			break
		}
	}
	return strings.Join(keep, "\n")
}

// panicSite names the first repository function on the panicking stack.
func panicSite(stack string) string {
	for _, l := range strings.Split(stack, "\n") {
		l = strings.TrimSpace(l)
		if strings.HasPrefix(l, "github.com/DataDog/extendeddaemonset/") && !strings.Contains(l, "verifclock") {
			l = strings.TrimPrefix(l, "github.com/DataDog/extendeddaemonset/")
			if i := strings.Index(l, "("); i > 0 && !strings.HasPrefix(l[i:], "(*") {
				l = l[:i]
			}
			if i := strings.LastIndex(l, "("); i > 0 && strings.HasSuffix(l, ")") && !strings.Contains(l[i:], "*") {
				l = l[:i]
			}
			return l
		}
	}
	return "unknown"
}

// ---------------------------------------------------------------- C01

func createChecks(r *sim.Record, v *ersView, on Set) []V {
	var out []V
	seen := map[string]string{}
	for _, c := range v.creates {
		pod, ok := c.Obj.(*corev1.Pod)
		if !ok {
			continue
		}
		nodeName := oracle.NodeOf(pod)
		if on["create-once"] {
			if prev, dup := seen[nodeName]; dup {
				out = append(out, V{"C01", "create-once", "C01/create-once/role=" + string(v.role), fmt.Sprintf("replica set %s created two pods for node %s in one sync (%s and %s)", v.rs.Name, nodeName, prev, pod.Name)})
			}
			seen[nodeName] = pod.Name
		}
		if !on["create-eligible"] {
			continue
		}
		node := r.Pre.NodeByName(nodeName)
		switch {
		case nodeName == "":
			out = append(out, V{"C01", "create-eligible", "C01/create-eligible/unpinned", fmt.Sprintf("pod %s created without node binding or name affinity", pod.Name)})
		case node == nil:
			out = append(out, V{"C01", "create-eligible", "C01/create-eligible/node-absent/role=" + string(v.role), fmt.Sprintf("pod %s created for node %s which does not exist in the state read", pod.Name, nodeName)})
		case !oracle.MatchesSelectors(&v.rs.Spec.Template.Spec, node):
			out = append(out, V{"C01", "create-eligible", "C01/create-eligible/selector-or-affinity/role=" + string(v.role), fmt.Sprintf("pod %s created for node %s (labels %v) which does not satisfy the template's nodeSelector/required affinity", pod.Name, nodeName, node.Labels)})
		case !oracle.ToleratesTaints(&v.rs.Spec.Template.Spec, node):
			out = append(out, V{"C01", "create-eligible", "C01/create-eligible/untolerated-taint/role=" + string(v.role), fmt.Sprintf("pod %s created for node %s with taints %v the pod does not tolerate", pod.Name, nodeName, node.Spec.Taints)})
		default:
			var blocking []*corev1.Pod
			for _, p := range v.podsByNode[nodeName] {
				if p.Status.Phase != corev1.PodFailed && p.Status.Phase != corev1.PodUnknown {
					blocking = append(blocking, p)
				}
			}
			if len(blocking) > 0 {
				term := "live"
				for _, b := range blocking {
					if b.DeletionTimestamp != nil {
						term = "terminating"
					}
				}
				out = append(out, V{"C01", "create-eligible", "C01/create-eligible/node-occupied/" + term + "/role=" + string(v.role), fmt.Sprintf("replica set %s (%s) created pod %s for node %s which already holds %s", v.rs.Name, v.role, pod.Name, nodeName, podNames(blocking))})
			}
		}
	}
	return out
}

// dupResolution: on an eligible, non-ignored node holding several non-Unknown
// pods, after a full sync by the active or canary role no pod other than the
// reference keeper survives (survive = not terminating and no Delete issued).
// Failed pods may or may not take part (statement readable both ways): the
// keeper is computed over the non-Failed pods and a Failed pod is never
// required to be deleted.
func dupResolution(r *sim.Record, v *ersView) []V {
	if !v.full || (v.role != oracle.RoleActive && v.role != oracle.RoleCanary) || r.Err != nil && len(v.deletes) == 0 && v.faulted {
		return nil
	}
	var out []V
	for _, node := range v.targeted(r.Pre) {
		// the canary role serves (and cleans up) the canary nodes only; the others are the active role's
		if v.role == oracle.RoleCanary && !oracle.Contains(v.canaryNodes, node.Name) {
			continue
		}
		pods := nonUnknown(v.podsByNode[node.Name])
		var live []*corev1.Pod
		for _, p := range pods {
			if p.Status.Phase != corev1.PodFailed {
				live = append(live, p)
			}
		}
		if len(live) < 2 {
			continue
		}
		keeper := oracle.Keeper(live)
		for _, p := range live {
			if p.Name == keeper.Name {
				continue
			}
			if p.DeletionTimestamp == nil && !deleted(v.deletes, p) {
				why := "younger-or-unscheduled"
				if (p.Spec.NodeName != "") != (keeper.Spec.NodeName != "") {
					why = "unscheduled-kept-over-scheduled"
				}
				out = append(out, V{"C01", "dup-resolution", "C01/dup-resolution/" + why + "/role=" + string(v.role), fmt.Sprintf("node %s holds %s; reference keeper is %s but %s was neither deleted nor terminating after the sync of %s", node.Name, podNames(live), keeper.Name, p.Name, v.rs.Name)})
			}
		}
	}
	return out
}

// ineligibleCleanup: a non-terminating, non-Unknown pod of the EDS on a node
// that is absent or unfit for the active replica set's template (and outside
// the canary nodes the active role ignores) gets a Delete in a full active sync.
func ineligibleCleanup(r *sim.Record, v *ersView) []V {
	if !v.full || v.role != oracle.RoleActive {
		return nil
	}
	var out []V
	for nodeName, pods := range v.podsByNode {
		if oracle.Contains(v.canaryNodes, nodeName) {
			continue
		}
		node := r.Pre.NodeByName(nodeName)
		if node != nil && oracle.Eligible(&v.rs.Spec.Template, node) {
			continue
		}
		for _, p := range pods {
			if p.Status.Phase == corev1.PodUnknown || p.DeletionTimestamp != nil {
				continue
			}
			if !deleted(v.deletes, p) {
				why := "node-unfit"
				if node == nil {
					why = "node-absent"
				}
				out = append(out, V{"C01", "ineligible-cleanup", "C01/ineligible-cleanup/" + why, fmt.Sprintf("pod %s on %s node %s was not deleted by the full sync of the active replica set %s", p.Name, why, nodeName, v.rs.Name)})
			}
		}
	}
	return out
}

func unknownUntouched(r *sim.Record) []V {
	var out []V
	for _, c := range r.Calls {
		// only deletions: removing the canary label from a pod that meanwhile went Unknown is harmless
		// bookkeeping and not what the statement is about (Unknown pods are left to the pod garbage collector)
		if c.Kind != "Pod" || c.Verb != "delete" {
			continue
		}
		p := r.Pre.PodByKey(c.NS, c.Name)
		if p != nil && p.Status.Phase == corev1.PodUnknown {
			out = append(out, V{"C01", "unknown-untouched", "C01/unknown-untouched/" + c.Verb, fmt.Sprintf("%s reconcile of %s issued %s on pod %s which is in phase Unknown", r.Actor, r.Key, c.Verb, c.Name)})
		}
	}
	return out
}

// ---------------------------------------------------------------- C03 / C08 / C09 (active role)

type budgetFacts struct {
	targeted      []*corev1.Node
	clean         map[string]*corev1.Pod // node -> the single non-Unknown, non-Failed pod of a node holding exactly one non-Unknown pod
	maxU          int
	maxUok        bool
	uLenient      int // targeted nodes without any Ready pod (an outdated terminating pod does not count as Ready)
	unresponsive  int
	maxSchedFail  int
	updDeletes    []*corev1.Pod // deleted pods that were the single pod of a clean targeted node
	availDeleted  int
	sparedUnavail []*corev1.Pod // hash-outdated, not ready, not terminating, responsive single pods that were not deleted
}

func budgetOf(r *sim.Record, v *ersView) *budgetFacts {
	f := &budgetFacts{clean: map[string]*corev1.Pod{}}
	f.targeted = v.targeted(r.Pre)
	n := len(f.targeted)
	f.maxU, f.maxUok = oracle.Resolve(v.eds.Spec.Strategy.RollingUpdate.MaxUnavailable, n)
	f.maxSchedFail, _ = oracle.Resolve(v.eds.Spec.Strategy.RollingUpdate.MaxPodSchedulerFailure, n)
	now := r.Pre.Now
	for _, node := range f.targeted {
		pods := nonUnknown(v.podsByNode[node.Name])
		anyReady := false
		for _, p := range pods {
			// an outdated pod whose deletion was already requested is on its way out: it does not make its node
			// available even while its Ready condition lingers (the property lists "outdated terminating" apart
			// from "outdated available"); an up-to-date terminating pod is given the benefit of the doubt
			if oracle.IsReady(p) && !(p.DeletionTimestamp != nil && p.Annotations[oracle.AnnTemplateHash] != v.rs.Spec.TemplateGeneration) {
				anyReady = true
			}
		}
		if !anyReady {
			f.uLenient++
		}
		if len(pods) == 1 && pods[0].Status.Phase != corev1.PodFailed {
			p := pods[0]
			f.clean[node.Name] = p
			if oracle.Unresponsive(p, now) {
				f.unresponsive++
			}
			if deleted(v.deletes, p) {
				f.updDeletes = append(f.updDeletes, p)
				if oracle.IsReady(p) && p.DeletionTimestamp == nil {
					f.availDeleted++
				}
			} else if !oracle.IsReady(p) && p.DeletionTimestamp == nil && !oracle.Unresponsive(p, now) &&
				p.Annotations[oracle.AnnTemplateHash] != v.rs.Spec.TemplateGeneration {
				f.sparedUnavail = append(f.sparedUnavail, p)
			}
		}
	}
	return f
}

func budget(r *sim.Record, v *ersView) []V {
	if v.role != oracle.RoleActive || len(v.deletes) == 0 {
		return nil
	}
	f := budgetOf(r, v)
	if !f.maxUok {
		return nil
	}
	var out []V
	tol := f.unresponsive
	if tol > f.maxSchedFail {
		tol = f.maxSchedFail
	}
	uEff := f.uLenient - tol
	if uEff < 0 {
		uEff = 0
	}
	allowed := f.maxU - uEff
	if allowed < 0 {
		allowed = 0
	}
	ctx := fmt.Sprintf("replica set %s: %d targeted nodes, maxUnavailable=%d, %d nodes without an available pod before the sync (%d unresponsive, %d tolerated)", v.rs.Name, len(f.targeted), f.maxU, f.uLenient, f.unresponsive, tol)
	if len(f.updDeletes) > f.maxU {
		out = append(out, V{"C03", "budget", "C03/budget/more-than-maxUnavailable-deleted", fmt.Sprintf("%s; %d pods deleted for updating: %s", ctx, len(f.updDeletes), podNames(f.updDeletes))})
	}
	if f.availDeleted > allowed {
		out = append(out, V{"C03", "budget", "C03/budget/available-pods-over-budget", fmt.Sprintf("%s; at most %d available pods may be deleted but %d were: %s", ctx, allowed, f.availDeleted, podNames(f.updDeletes))})
	}
	if f.availDeleted > 0 && len(f.sparedUnavail) > 0 {
		out = append(out, V{"C03", "budget", "C03/budget/available-deleted-while-unavailable-spared", fmt.Sprintf("%s; %d available pods deleted (%s) while outdated unavailable pods were spared: %s", ctx, f.availDeleted, podNames(f.updDeletes), podNames(f.sparedUnavail))})
	}
	return out
}

func annTrue(eds *edsv1.ExtendedDaemonSet, key string) bool { return eds.Annotations[key] == "true" }

func pausedFrozen(r *sim.Record, v *ersView) []V {
	var out []V
	switch v.role {
	case oracle.RoleActive:
		paused, frozen := annTrue(v.eds, oracle.AnnRollingPaused), annTrue(v.eds, oracle.AnnRolloutFrozen)
		if !paused && !frozen {
			return nil
		}
		f := budgetOf(r, v)
		if len(f.updDeletes) > 0 {
			which := "rolling-update-paused"
			if frozen {
				which = "rollout-frozen"
			}
			out = append(out, V{"C08", "paused-frozen", "C08/paused-frozen/update-deletion-while-" + which, fmt.Sprintf("replica set %s deleted %s for updating while %s=true", v.rs.Name, podNames(f.updDeletes), which)})
		}
		if frozen && len(v.creates) > 0 {
			out = append(out, V{"C08", "paused-frozen", "C08/paused-frozen/create-while-rollout-frozen", fmt.Sprintf("replica set %s created %d pods while rollout-frozen=true", v.rs.Name, len(v.creates))})
		}
		if paused && !frozen && v.full && !v.faulted && r.Err == nil && len(v.creates) == 0 {
			// still creates pods on eligible nodes that have none (when nothing else gates creation)
			var empty []string
			for _, n := range f.targeted {
				if len(v.podsByNode[n.Name]) == 0 {
					empty = append(empty, n.Name)
				}
			}
			gateOpen := true
			if c := oracle.RSCond(&v.rs.Status, edsv1.ConditionTypePodCreation); c != nil && v.eds.Spec.Strategy.ReconcileFrequency != nil &&
				r.Pre.Now.Sub(c.LastUpdateTime.Time) < v.eds.Spec.Strategy.ReconcileFrequency.Duration+time.Second {
				gateOpen = false
			}
			if len(empty) > 0 && gateOpen && creationBound(r, v, len(f.targeted)) >= 1 {
				out = append(out, V{"C08", "paused-frozen", "C08/paused-frozen/no-create-while-only-paused", fmt.Sprintf("replica set %s created nothing although rolling-update-paused only stops updates and nodes %v have no pod", v.rs.Name, empty)})
			}
		}
	case oracle.RoleUnknown:
		// a set that is neither active nor canary (superseded, or a failed canary after the rollback) takes no part in
		// the rollout: while it is paused or frozen its pods are outdated pods like any other and stay where they are
		paused, frozen := annTrue(v.eds, oracle.AnnRollingPaused), annTrue(v.eds, oracle.AnnRolloutFrozen)
		if (paused || frozen) && len(v.deletes) > 0 {
			which := "rolling-update-paused"
			if frozen {
				which = "rollout-frozen"
			}
			var names []string
			for _, c := range v.deletes {
				names = append(names, c.Name)
			}
			out = append(out, V{"C08", "paused-frozen", "C08/paused-frozen/deletion-by-a-set-that-is-neither-active-nor-canary-while-" + which, fmt.Sprintf("replica set %s (neither active nor canary) deleted %v while %s=true", v.rs.Name, names, which)})
		}
	case oracle.RoleCanary:
		if len(v.creates) == 0 {
			return nil
		}
		post := r.Post.RSByKey(v.rs.Namespace, v.rs.Name)
		if post != nil && v.statusOK {
			if oracle.RSCondTrue(&post.Status, edsv1.ConditionTypeCanaryPaused) {
				out = append(out, V{"C08", "paused-frozen", "C08/paused-frozen/canary-create-while-paused-condition", fmt.Sprintf("canary replica set %s created %d pods in a sync that ends with Canary-Paused=True", v.rs.Name, len(v.creates))})
			}
			if oracle.RSCondTrue(&post.Status, edsv1.ConditionTypeCanaryFailed) {
				out = append(out, V{"C08", "paused-frozen", "C08/paused-frozen/canary-create-while-failed", fmt.Sprintf("canary replica set %s created %d pods in a sync that ends with Canary-Failed=True", v.rs.Name, len(v.creates))})
			}
		}
		if annTrue(v.eds, oracle.AnnCanaryPaused) && !annTrue(v.eds, oracle.AnnCanaryUnpaused) {
			out = append(out, V{"C08", "paused-frozen", "C08/paused-frozen/canary-create-while-paused-annotation", fmt.Sprintf("canary replica set %s created %d pods while canary-paused=true", v.rs.Name, len(v.creates))})
		}
	}
	return out
}

func creationBound(r *sim.Record, v *ersView, nTargeted int) int64 {
	ru := v.eds.Spec.Strategy.RollingUpdate
	if ru.SlowStartIntervalDuration == nil || ru.MaxParallelPodCreation == nil {
		return 1 << 40
	}
	inc, ok := oracle.Resolve(ru.SlowStartAdditiveIncrease, nTargeted)
	if !ok {
		return 1 << 40
	}
	var t time.Duration
	if c := oracle.RSCond(&v.rs.Status, edsv1.ConditionTypeActive); c != nil && c.Status == corev1.ConditionTrue {
		t = r.Pre.Now.Sub(c.LastTransitionTime.Time)
	}
	// stored timestamps have one-second resolution: allow the slot the truncation may add
	return oracle.CreationBound(t+time.Second, ru.SlowStartIntervalDuration.Duration, inc, *ru.MaxParallelPodCreation)
}

// createdCount is the number of pods a sync created or tried to create: per target node one, or the number of creations
// the store applied for that node if larger (a refused creation that is tried again for the same node is one pod; a
// creation that was stored, answered with an error and repeated is two).
func createdCount(v *ersView) int {
	calls, applied := map[string]int{}, map[string]int{}
	for i, c := range v.creates {
		node := fmt.Sprintf("#%d", i)
		if pod, ok := c.Obj.(*corev1.Pod); ok && oracle.NodeOf(pod) != "" {
			node = oracle.NodeOf(pod)
		}
		calls[node]++
		if c.Applied {
			applied[node]++
		}
	}
	n := 0
	for node := range calls {
		if applied[node] > 1 {
			n += applied[node]
		} else {
			n++
		}
	}
	return n
}

func rate(r *sim.Record, v *ersView, h *History) []V {
	var out []V
	if v.role == oracle.RoleActive && len(v.creates) > 0 {
		n := len(v.targeted(r.Pre))
		if b := creationBound(r, v, n); int64(createdCount(v)) > b {
			out = append(out, V{"C09", "rate", "C09/rate/creates-over-slow-start-bound", fmt.Sprintf("replica set %s created %d pods in one sync; bound min(maxParallelPodCreation, (1+floor(t/interval))*increase) = %d (targeted nodes %d, strategy %s)", v.rs.Name, createdCount(v), b, n, strat(v.eds))})
		}
	}
	if h == nil || v.eds.Spec.Strategy.ReconcileFrequency == nil {
		return out
	}
	key := v.rs.Namespace + "/" + v.rs.Name + "/" + string(v.rs.UID)
	if len(v.creates)+len(v.deletes) > 0 {
		if prev, ok := h.lastWriteSync[key]; ok && prev.statusOK {
			gap := r.Pre.Now.Sub(prev.at)
			if gap < v.eds.Spec.Strategy.ReconcileFrequency.Duration-time.Second {
				out = append(out, V{"C09", "rate", "C09/rate/syncs-closer-than-reconcileFrequency", fmt.Sprintf("replica set %s created/deleted pods in two syncs %s apart (steps %d and %d) although reconcileFrequency is %s and the first status write succeeded", v.rs.Name, gap, prev.step, r.Step, v.eds.Spec.Strategy.ReconcileFrequency.Duration)})
			}
		}
		// the spacing obligation stands when the sync's status write succeeded - and also when the sync met no failing call
		// and simply did not write its status (the time of a sync that touched pods has to be recorded)
		h.lastWriteSync[key] = writeSync{at: r.Pre.Now, statusOK: v.statusOK || (!v.statusTried && !v.faulted && r.Err == nil && r.Panic == nil), step: r.Step}
	}
	return out
}

// conditionClock: the Active and Canary conditions are clocks ("the time since its Active condition last became
// true", "the canary has lasted longer than ..."): a sync that flips one of them must stamp the flip with its own time.
func conditionClock(r *sim.Record, v *ersView) []V {
	post := r.Post.RSByKey(v.rs.Namespace, v.rs.Name)
	if post == nil || !v.statusOK || r.Panic != nil {
		return nil
	}
	var out []V
	for _, t := range []edsv1.ExtendedDaemonSetReplicaSetConditionType{edsv1.ConditionTypeActive, edsv1.ConditionTypeCanary} {
		pc, qc := oracle.RSCond(&v.rs.Status, t), oracle.RSCond(&post.Status, t)
		if qc == nil {
			continue
		}
		flipped := (pc == nil && qc.Status == corev1.ConditionTrue) || (pc != nil && pc.Status != qc.Status)
		if !flipped {
			continue
		}
		if d := r.Pre.Now.Sub(qc.LastTransitionTime.Time); d > 2*time.Second || d < -2*time.Second {
			prop := "C09"
			if t == edsv1.ConditionTypeCanary {
				prop = "C06"
			}
			out = append(out, V{prop, "condition-clock", prop + "/condition-clock/" + string(t) + "-transition-time-not-refreshed", fmt.Sprintf("the sync of %s at %s changed condition %s to %s but its lastTransitionTime is %s", v.rs.Name, r.Pre.Now.Format("15:04:05"), t, qc.Status, qc.LastTransitionTime.Format("15:04:05"))})
		}
	}
	return out
}

// canaryLatch: Canary-Failed and Canary-Paused are the only record of a failure / a pause of that replica set. A sync
// in which the replica set is neither active nor canary (it is waiting: rolled back, superseded, retained after a
// failure) must leave them as they are - the rollback (C07) and "a canary resumes on unpause or explicit
// validation" (C08) depend on it.
func canaryLatch(r *sim.Record, v *ersView) []V {
	post := r.Post.RSByKey(v.rs.Namespace, v.rs.Name)
	if post == nil || v.role != oracle.RoleUnknown || !v.statusOK || r.Panic != nil {
		return nil
	}
	var out []V
	for _, t := range []edsv1.ExtendedDaemonSetReplicaSetConditionType{edsv1.ConditionTypeCanaryFailed, edsv1.ConditionTypeCanaryPaused} {
		if oracle.RSCondTrue(&v.rs.Status, t) && !oracle.RSCondTrue(&post.Status, t) {
			prop := "C07"
			if t == edsv1.ConditionTypeCanaryPaused {
				prop = "C08"
			}
			out = append(out, V{prop, "canary-latch", prop + "/canary-latch/" + string(t) + "-reset-while-neither-active-nor-canary", fmt.Sprintf("the sync of %s (neither active nor canary) reset its %s condition from True", v.rs.Name, t)})
		}
	}
	return out
}

func strat(e *edsv1.ExtendedDaemonSet) string {
	ru := e.Spec.Strategy.RollingUpdate
	s := ""
	if ru.MaxUnavailable != nil {
		s += "maxUnavailable=" + ru.MaxUnavailable.String()
	}
	if ru.SlowStartAdditiveIncrease != nil {
		s += " increase=" + ru.SlowStartAdditiveIncrease.String()
	}
	if ru.SlowStartIntervalDuration != nil {
		s += " interval=" + ru.SlowStartIntervalDuration.Duration.String()
	}
	if ru.MaxParallelPodCreation != nil {
		s += fmt.Sprintf(" maxParallel=%d", *ru.MaxParallelPodCreation)
	}
	return s
}

// ---------------------------------------------------------------- C04

func canaryConfinement(r *sim.Record, v *ersView) []V {
	var out []V
	activeRS := r.Pre.RSByKey(v.eds.Namespace, v.eds.Status.ActiveReplicaSet)
	switch v.role {
	case oracle.RoleActive:
		for _, c := range v.creates {
			if pod, ok := c.Obj.(*corev1.Pod); ok && oracle.Contains(v.canaryNodes, oracle.NodeOf(pod)) {
				out = append(out, V{"C04", "canary-confinement", "C04/canary-confinement/active-creates-on-canary-node", fmt.Sprintf("active replica set %s created pod %s on canary node %s", v.rs.Name, pod.Name, oracle.NodeOf(pod))})
			}
		}
		for _, c := range v.deletes {
			if p := r.Pre.PodByKey(c.NS, c.Name); p != nil && oracle.Contains(v.canaryNodes, oracle.NodeOf(p)) {
				out = append(out, V{"C04", "canary-confinement", "C04/canary-confinement/active-deletes-on-canary-node", fmt.Sprintf("active replica set %s deleted pod %s on canary node %s", v.rs.Name, p.Name, oracle.NodeOf(p))})
			}
		}
	case oracle.RoleCanary, oracle.RoleUnknown:
		for _, c := range v.creates {
			pod, ok := c.Obj.(*corev1.Pod)
			if !ok {
				continue
			}
			if v.role == oracle.RoleUnknown {
				out = append(out, V{"C04", "canary-confinement", "C04/canary-confinement/unknown-role-creates", fmt.Sprintf("replica set %s is neither active nor canary but created pod %s on %s", v.rs.Name, pod.Name, oracle.NodeOf(pod))})
			} else if !oracle.Contains(v.canaryNodes, oracle.NodeOf(pod)) {
				out = append(out, V{"C04", "canary-confinement", "C04/canary-confinement/canary-creates-off-list", fmt.Sprintf("canary replica set %s created pod %s on node %s which is not in status.canary.nodes %v", v.rs.Name, pod.Name, oracle.NodeOf(pod), v.canaryNodes)})
			}
		}
		if activeRS == nil {
			break
		}
		for _, c := range v.deletes {
			p := r.Pre.PodByKey(c.NS, c.Name)
			if p == nil || p.Status.Phase == corev1.PodFailed {
				continue
			}
			nodeName := oracle.NodeOf(p)
			if oracle.Contains(v.canaryNodes, nodeName) {
				continue
			}
			node := r.Pre.NodeByName(nodeName)
			if node == nil || !oracle.Eligible(&activeRS.Spec.Template, node) {
				continue
			}
			var live []*corev1.Pod
			for _, q := range nonUnknown(v.podsByNode[nodeName]) {
				if q.Status.Phase != corev1.PodFailed {
					live = append(live, q)
				}
			}
			if k := oracle.Keeper(live); k != nil && k.Name == p.Name {
				out = append(out, V{"C04", "canary-confinement", "C04/canary-confinement/" + string(v.role) + "-role-deletes-kept-pod-outside-canary-nodes", fmt.Sprintf("%s-role replica set %s deleted pod %s, the pod serving node %s (eligible for the active template, not a canary node; canary nodes %v)", v.role, v.rs.Name, p.Name, nodeName, v.canaryNodes)})
			}
		}
	}
	return out
}

func canaryLabel(r *sim.Record, v *ersView) []V {
	if !v.full || v.faulted || r.Err != nil || r.Panic != nil {
		return nil
	}
	var out []V
	switch v.role {
	case oracle.RoleCanary:
		for _, nodeName := range v.canaryNodes {
			node := r.Pre.NodeByName(nodeName)
			if node == nil || !oracle.Eligible(&v.rs.Spec.Template, node) {
				continue
			}
			pods := nonUnknown(v.podsByNode[nodeName])
			if len(pods) != 1 {
				continue
			}
			p := pods[0]
			if p.Labels[oracle.LabelRSName] != v.rs.Name || p.Status.Phase == corev1.PodFailed {
				continue
			}
			if q := r.Post.PodByKey(p.Namespace, p.Name); q != nil && q.DeletionTimestamp == nil && q.Labels[oracle.LabelCanary] != "true" {
				out = append(out, V{"C04", "canary-label", "C04/canary-label/missing-during-canary", fmt.Sprintf("pod %s of canary replica set %s on canary node %s lacks the canary label after the canary sync", p.Name, v.rs.Name, nodeName)})
			}
		}
	case oracle.RoleActive:
		// the active set's label clean-up concerns its own pods: the pods of a canary that runs meanwhile keep their label
		if cn := v.eds.Status.Canary; cn != nil && cn.ReplicaSet != v.rs.Name {
			for _, p := range r.Pre.Pods {
				if p.Namespace != v.rs.Namespace || p.Labels[oracle.LabelRSName] != cn.ReplicaSet || p.Labels[oracle.LabelCanary] != "true" {
					continue
				}
				wrote := false
				for _, c := range r.Calls {
					if c.Kind == "Pod" && c.Write && c.Applied && c.NS == p.Namespace && c.Name == p.Name {
						wrote = true
					}
				}
				if q := r.Post.PodByKey(p.Namespace, p.Name); wrote && q != nil && q.Labels[oracle.LabelCanary] != "true" {
					out = append(out, V{"C04", "canary-label", "C04/canary-label/removed-from-canary-pod-by-active-sync", fmt.Sprintf("the sync of the active replica set %s removed the canary label from pod %s of the running canary %s", v.rs.Name, p.Name, cn.ReplicaSet)})
				}
			}
		}
		if len(out) > 0 {
			return out
		}
		if c := oracle.RSCond(&v.rs.Status, edsv1.ConditionTypeActive); c != nil && c.Status == corev1.ConditionTrue && r.Pre.Now.Sub(c.LastTransitionTime.Time) >= 5*time.Minute-2*time.Second {
			return nil // the controller documents that it only retries label removal for five minutes
		}
		for _, q := range r.Post.Pods {
			if q.Namespace == v.rs.Namespace && q.Labels[oracle.LabelRSName] == v.rs.Name && q.Labels[oracle.LabelCanary] == "true" {
				out = append(out, V{"C04", "canary-label", "C04/canary-label/kept-after-becoming-active", fmt.Sprintf("pod %s of the now active replica set %s still carries the canary label after a successful active sync", q.Name, v.rs.Name)})
			}
		}
	}
	return out
}

// ---------------------------------------------------------------- C13 (pod hash) / C14 (rs order)

func podHash(r *sim.Record, v *ersView) []V {
	var out []V
	for _, c := range v.creates {
		if pod, ok := c.Obj.(*corev1.Pod); ok {
			if pod.Annotations[oracle.AnnTemplateHash] != v.rs.Spec.TemplateGeneration || pod.Annotations[oracle.AnnTemplateHash] != oracle.TemplateHash(&v.rs.Spec.Template) {
				out = append(out, V{"C13", "rs-identity", "C13/rs-identity/pod-hash-differs-from-creator", fmt.Sprintf("pod %s carries hash %q, its creator %s has templateGeneration %q and template hash %q", pod.Name, pod.Annotations[oracle.AnnTemplateHash], v.rs.Name, v.rs.Spec.TemplateGeneration, oracle.TemplateHash(&v.rs.Spec.Template))})
			}
		}
	}
	return out
}

func rsStatusOrder(r *sim.Record, v *ersView) []V {
	if !v.statusOK || (v.role != oracle.RoleActive && v.role != oracle.RoleCanary) {
		return nil
	}
	post := r.Post.RSByKey(v.rs.Namespace, v.rs.Name)
	if post == nil {
		return nil
	}
	s := post.Status
	// desired is "the number of nodes that should be running the daemon pod" (CRD documentation of the field):
	// for the active set the targeted nodes, whether or not their pod is healthy, stuck or missing
	if v.role == oracle.RoleActive && v.full && !v.faulted && r.Err == nil {
		if _, ok := oracle.Resolve(v.eds.Spec.Strategy.RollingUpdate.MaxUnavailable, 1); ok {
			if want := len(v.targeted(r.Pre)); int(s.Desired) != want {
				return []V{{"C14", "rs-status-order", "C14/rs-desired/differs-from-targeted-nodes", fmt.Sprintf("active replica set %s reports desired=%d but %d nodes are targeted (eligible for its template, canary nodes excluded); ignoredUnresponsiveNodes=%d", post.Name, s.Desired, want, s.IgnoredUnresponsiveNodes)}}
			}
		}
	}
	if !(0 <= s.Available && s.Available <= s.Ready && s.Ready <= s.Current && s.Current <= s.Desired) {
		return []V{{"C14", "rs-status-order", "C14/rs-status-order/role=" + string(v.role), fmt.Sprintf("replica set %s (%s) reports desired=%d current=%d ready=%d available=%d, violating 0<=available<=ready<=current<=desired", post.Name, v.role, s.Desired, s.Current, s.Ready, s.Available)}}
	}
	return nil
}

// Facts classifies the state a replica-set sync read (for the non-triviality rules of the checks).
func Facts(r *sim.Record) []string {
	v := viewERS(r)
	if v == nil || v.eds == nil {
		return nil
	}
	var out []string
	add := func(s string) { out = append(out, s) }
	add("role-" + string(v.role))
	for nodeName, pods := range v.podsByNode {
		if len(nonUnknown(pods)) >= 2 {
			add("node-with-2+-pods")
		}
		node := r.Pre.NodeByName(nodeName)
		if node == nil {
			add("pod-on-absent-node")
		} else if !oracle.Eligible(&v.rs.Spec.Template, node) {
			add("pod-on-unfit-node")
		}
		for _, p := range pods {
			if p.Status.Phase == corev1.PodUnknown {
				add("unknown-pod")
			}
			if p.Status.Phase == corev1.PodFailed {
				add("failed-pod")
			}
			if p.DeletionTimestamp != nil {
				add("terminating-pod")
			}
		}
	}
	for _, n := range r.Pre.Nodes {
		if len(n.Spec.Taints) > 0 || !oracle.MatchesSelectors(&v.rs.Spec.Template.Spec, n) {
			add("eligibility-decided-by-taint-or-selector")
			break
		}
	}
	if v.role == oracle.RoleActive && v.full {
		f := budgetOf(r, v)
		outdated, missing := 0, 0
		for _, n := range f.targeted {
			if p, ok := f.clean[n.Name]; ok && p.Annotations[oracle.AnnTemplateHash] != v.rs.Spec.TemplateGeneration && p.DeletionTimestamp == nil {
				outdated++
			}
			if len(v.podsByNode[n.Name]) == 0 {
				missing++
			}
		}
		if annTrue(v.eds, oracle.AnnRollingPaused) && outdated > 0 {
			add("paused-with-outdated-pods")
		}
		if annTrue(v.eds, oracle.AnnRolloutFrozen) && outdated+missing > 0 {
			add("frozen-with-work")
		}
		if annTrue(v.eds, oracle.AnnRollingPaused) && missing > 0 {
			add("paused-with-missing-pods")
		}
		if int64(missing) > creationBound(r, v, len(f.targeted)) {
			add("creation-cap-binding")
		}
		if outdated > f.maxU && f.maxUok {
			add("deletion-budget-binding")
		}
	}
	if v.role == oracle.RoleCanary && v.full {
		missing := 0
		for _, n := range v.canaryNodes {
			if len(v.podsByNode[n]) == 0 {
				missing++
			}
		}
		paused := annTrue(v.eds, oracle.AnnCanaryPaused) || oracle.RSCondTrue(&v.rs.Status, edsv1.ConditionTypeCanaryPaused)
		if paused && missing > 0 {
			add("canary-paused-with-missing-pods")
		}
	}
	if len(v.creates) > 0 {
		add("creates")
	}
	if len(v.deletes) > 0 {
		add("deletes")
	}
	if !v.full {
		add("sync-skipped-by-frequency-gate")
	}
	return out
}

// ---------------------------------------------------------------- C06

var cannotStartReasons = map[string]bool{
	"ErrImagePull": true, "ImagePullBackOff": true, "ImageInspectError": true, "ErrImageNeverPull": true, "RegistryUnavailable": true,
	"InvalidImageName": true, "CreateContainerConfigError": true, "CreateContainerError": true, "PreStartHookError": true,
	"PostStartHookError": true, "PreCreateHookError": true,
}

// Tri is a three-valued verdict.
type Tri int

// Verdict values.
const (
	MustNotBe Tri = iota
	Either
	MustBe
)

func (t Tri) String() string { return [...]string{"must-not", "either", "must"}[t] }

// CanaryFacts is what the canary verdict is computed from (all API-visible).
type CanaryFacts struct {
	Pods        []*corev1.Pod
	Canary      *edsv1.ExtendedDaemonSetSpecStrategyCanary
	Prior       *edsv1.ExtendedDaemonSetReplicaSetStatus
	Annotations map[string]string
	Now         time.Time
}

func highestRestart(p *corev1.Pod) int32 {
	var m int32
	for _, lists := range [][]corev1.ContainerStatus{p.Status.ContainerStatuses, p.Status.InitContainerStatuses, p.Status.EphemeralContainerStatuses} {
		for _, s := range lists {
			if s.RestartCount > m {
				m = s.RestartCount
			}
		}
	}
	return m
}

func waitingReasons(p *corev1.Pod) []string {
	var out []string
	for _, lists := range [][]corev1.ContainerStatus{p.Status.ContainerStatuses, p.Status.InitContainerStatuses, p.Status.EphemeralContainerStatuses} {
		for _, s := range lists {
			if s.State.Waiting != nil {
				out = append(out, s.State.Waiting.Reason)
			}
		}
	}
	return out
}

// CanaryVerdict is the reference of C06: what Canary-Failed and Canary-Paused must be
// after a canary sync that evaluated the given pods. why explains the verdicts.
func CanaryVerdict(f CanaryFacts) (failed, paused Tri, why string) {
	c := f.Canary
	ap, af := c.AutoPause, c.AutoFail
	priorFailed := oracle.RSCondTrue(f.Prior, edsv1.ConditionTypeCanaryFailed)
	priorPaused := oracle.RSCondTrue(f.Prior, edsv1.ConditionTypeCanaryPaused)
	var notes []string
	failTrig, failMaybe := false, false
	if len(f.Pods) > 0 && af != nil && af.Enabled != nil && *af.Enabled {
		for _, p := range f.Pods {
			if af.MaxRestarts != nil && highestRestart(p) > *af.MaxRestarts {
				failTrig = true
				notes = append(notes, fmt.Sprintf("pod %s restarted %d times > autoFail.maxRestarts %d", p.Name, highestRestart(p), *af.MaxRestarts))
			}
		}
		if af.MaxRestartsDuration != nil {
			var latest time.Time
			for _, p := range f.Pods {
				for _, lists := range [][]corev1.ContainerStatus{p.Status.ContainerStatuses, p.Status.InitContainerStatuses, p.Status.EphemeralContainerStatuses} {
					for _, s := range lists {
						if s.RestartCount > 0 && s.LastTerminationState.Terminated != nil && s.LastTerminationState.Terminated.FinishedAt.After(latest) {
							latest = s.LastTerminationState.Terminated.FinishedAt.Time
						}
					}
				}
			}
			if rc := oracle.RSCond(f.Prior, edsv1.ConditionTypePodRestarting); rc != nil {
				spanPrev := rc.LastUpdateTime.Sub(rc.LastTransitionTime.Time)
				// stored timestamps have one-second resolution: a band of one second around the limit is "either"
				if spanPrev > af.MaxRestartsDuration.Duration+time.Second {
					failTrig = true
					notes = append(notes, fmt.Sprintf("restarts observed over %s > autoFail.maxRestartsDuration %s", spanPrev, af.MaxRestartsDuration.Duration))
				} else if spanPrev > af.MaxRestartsDuration.Duration-time.Second {
					failMaybe = true
				} else if !latest.IsZero() && latest.Sub(rc.LastTransitionTime.Time) > af.MaxRestartsDuration.Duration-time.Second {
					failMaybe = true // only the restart seen in this very sync pushes the span over the limit
				}
			}
		}
		if af.CanaryTimeout != nil {
			age := time.Duration(0)
			if cc := oracle.RSCond(f.Prior, edsv1.ConditionTypeCanary); cc != nil && cc.Status == corev1.ConditionTrue {
				age = f.Now.Sub(cc.LastTransitionTime.Time)
			}
			if age > af.CanaryTimeout.Duration {
				failTrig = true
				notes = append(notes, fmt.Sprintf("canary lasted %s > autoFail.canaryTimeout %s", age, af.CanaryTimeout.Duration))
			} else if age+time.Second > af.CanaryTimeout.Duration {
				failMaybe = true // within the one-second resolution of the stored start
			}
		}
	}
	switch {
	case priorFailed:
		failed = MustBe
		notes = append(notes, "already failed")
	case failTrig:
		failed = MustBe
	case failMaybe:
		failed = Either
	default:
		failed = MustNotBe
	}
	pauseSrc := priorPaused || f.Annotations[oracle.AnnCanaryPaused] == "true"
	unpaused := f.Annotations[oracle.AnnCanaryUnpaused] == "true"
	pauseTrig, pauseMaybe := false, false
	if ap != nil && ap.Enabled != nil && *ap.Enabled {
		for _, p := range f.Pods {
			if ap.MaxRestarts != nil && highestRestart(p) > *ap.MaxRestarts {
				pauseTrig = true
				notes = append(notes, fmt.Sprintf("pod %s restarted %d times > autoPause.maxRestarts %d", p.Name, highestRestart(p), *ap.MaxRestarts))
			}
			for _, reason := range waitingReasons(p) {
				cannot := cannotStartReasons[reason]
				creating := reason == "ContainerCreating"
				if !cannot && !creating {
					continue
				}
				if ap.MaxSlowStartDuration == nil {
					if cannot {
						pauseTrig = true
						notes = append(notes, fmt.Sprintf("pod %s cannot start: %s", p.Name, reason))
					}
					continue
				}
				if p.Status.StartTime == nil {
					pauseMaybe = true
					continue
				}
				limit := p.Status.StartTime.Add(ap.MaxSlowStartDuration.Duration)
				switch {
				case f.Now.After(limit.Add(time.Second)):
					pauseTrig = true
					notes = append(notes, fmt.Sprintf("pod %s in %s for more than maxSlowStartDuration %s", p.Name, reason, ap.MaxSlowStartDuration.Duration))
				case f.Now.After(limit.Add(-time.Second)):
					pauseMaybe = true // boundary instant (and second-truncated start time)
				}
			}
		}
	}
	switch {
	case failed != MustNotBe:
		paused = Either
	case unpaused:
		paused = MustNotBe
		notes = append(notes, "manually unpaused")
	case pauseSrc:
		paused = MustBe
		notes = append(notes, "paused before (condition or annotation)")
	case len(f.Pods) == 0:
		paused = MustNotBe
	case pauseTrig:
		paused = MustBe
	case pauseMaybe:
		paused = Either
	default:
		paused = MustNotBe
	}
	return failed, paused, strings.Join(notes, "; ")
}

// canaryVerdict judges a canary-role sync that wrote its status.
func canaryVerdict(r *sim.Record, v *ersView) []V {
	if v.role != oracle.RoleCanary || !v.full || !v.statusOK || v.eds.Spec.Strategy.Canary == nil || r.Panic != nil {
		return nil
	}
	c := v.eds.Spec.Strategy.Canary
	if c.AutoPause == nil || c.AutoFail == nil || c.AutoPause.Enabled == nil || c.AutoFail.Enabled == nil {
		return nil
	}
	post := r.Post.RSByKey(v.rs.Namespace, v.rs.Name)
	if post == nil {
		return nil
	}
	var pods []*corev1.Pod
	for _, n := range v.canaryNodes {
		node := r.Pre.NodeByName(n)
		if node == nil || !oracle.Eligible(&v.rs.Spec.Template, node) {
			continue
		}
		ps := nonUnknown(v.podsByNode[n])
		if len(ps) == 0 {
			continue
		}
		if len(ps) > 1 || ps[0].Status.Phase == corev1.PodFailed {
			return nil // which pod the sync evaluates is not determined by the statement
		}
		p := ps[0]
		if p.DeletionTimestamp != nil || p.Annotations[oracle.AnnTemplateHash] != v.rs.Spec.TemplateGeneration {
			continue
		}
		if len(node.Annotations) > 0 || p.Annotations[oracle.AnnNodeHash] != "" {
			// resources override annotations on the node (now, or when the pod was built): whether the pod still counts
			// as up to date is C10's business, not decided here
			return nil
		}
		pods = append(pods, p)
	}
	if len(r.Pre.Settings) > 0 {
		return nil
	}
	// the prior status as the strategy sees it: the sync marks the replica set as canary first
	// (a Canary condition that is not yet True means the canary starts now: age 0, handled by the verdict)
	prior := v.rs.Status.DeepCopy()
	wantFailed, wantPaused, why := CanaryVerdict(CanaryFacts{Pods: pods, Canary: c, Prior: prior, Annotations: v.eds.Annotations, Now: r.Pre.Now})
	gotFailed := oracle.RSCondTrue(&post.Status, edsv1.ConditionTypeCanaryFailed)
	gotPaused := oracle.RSCondTrue(&post.Status, edsv1.ConditionTypeCanaryPaused)
	var out []V
	ctx := fmt.Sprintf("canary sync of %s at %s evaluated pods %s; autoPause=%v/%d autoFail=%v/%d; annotations=%v; %s", v.rs.Name, r.Pre.Now.Format("15:04:05.000"), podRestarts(pods), *c.AutoPause.Enabled, deref32(c.AutoPause.MaxRestarts), *c.AutoFail.Enabled, deref32(c.AutoFail.MaxRestarts), canaryAnn(v.eds), why)
	if len(pods) == 0 {
		if oracle.RSCondTrue(&v.rs.Status, edsv1.ConditionTypeCanaryFailed) && !gotFailed {
			out = append(out, V{"C06", "canary-verdict", "C06/canary-verdict/failed-not-sticky", "Canary-Failed was true and became false while the replica set is still the canary; " + ctx})
		}
		if wantPaused == MustNotBe && wantFailed == MustNotBe && gotPaused && v.eds.Annotations[oracle.AnnCanaryUnpaused] == "true" {
			out = append(out, V{"C06", "canary-verdict", "C06/canary-verdict/paused-although-unpaused", "Canary-Paused is true although the canary was manually unpaused; " + ctx})
		}
		return out
	}
	if wantFailed == MustBe && !gotFailed {
		sig := "failed-missing"
		if oracle.RSCondTrue(&v.rs.Status, edsv1.ConditionTypeCanaryFailed) {
			sig = "failed-not-sticky"
		}
		out = append(out, V{"C06", "canary-verdict", "C06/canary-verdict/" + sig, "Canary-Failed must be true but is not; " + ctx})
	}
	if wantFailed == MustNotBe && gotFailed {
		sig := "failed-without-trigger"
		if !*c.AutoFail.Enabled {
			sig = "failed-although-autoFail-disabled"
		}
		out = append(out, V{"C06", "canary-verdict", "C06/canary-verdict/" + sig, "Canary-Failed became true without a documented trigger; " + ctx})
	}
	if wantPaused == MustBe && !gotPaused {
		out = append(out, V{"C06", "canary-verdict", "C06/canary-verdict/paused-missing", "Canary-Paused must be true but is not; " + ctx})
	}
	if wantPaused == MustNotBe && gotPaused {
		sig := "paused-without-trigger"
		switch {
		case v.eds.Annotations[oracle.AnnCanaryUnpaused] == "true":
			sig = "paused-although-unpaused"
		case !*c.AutoPause.Enabled:
			sig = "paused-although-autoPause-disabled"
		}
		out = append(out, V{"C06", "canary-verdict", "C06/canary-verdict/" + sig, "Canary-Paused became true without a documented trigger; " + ctx})
	}
	if (gotFailed || gotPaused) && len(v.creates) > 0 {
		out = append(out, V{"C06", "canary-verdict", "C06/canary-verdict/pod-created-while-paused-or-failed", fmt.Sprintf("%d canary pods created in a sync that ends paused=%v failed=%v; %s", len(v.creates), gotPaused, gotFailed, ctx)})
	}
	return out
}

func deref32(p *int32) int32 {
	if p == nil {
		return -1
	}
	return *p
}

func canaryAnn(e *edsv1.ExtendedDaemonSet) string {
	var s []string
	for _, k := range []string{oracle.AnnCanaryPaused, oracle.AnnCanaryUnpaused} {
		if v, ok := e.Annotations[k]; ok {
			s = append(s, k[strings.LastIndex(k, "/")+1:]+"="+v)
		}
	}
	return "[" + strings.Join(s, " ") + "]"
}

func podRestarts(pods []*corev1.Pod) string {
	var s []string
	for _, p := range pods {
		start := "nil"
		if p.Status.StartTime != nil {
			start = p.Status.StartTime.Format("15:04:05")
		}
		s = append(s, fmt.Sprintf("%s{restarts=%d waiting=%v start=%s}", p.Name, highestRestart(p), waitingReasons(p), start))
	}
	return "[" + strings.Join(s, " ") + "]"
}
