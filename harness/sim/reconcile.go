package sim

import (
	"fmt"
	"runtime/debug"

	"github.com/go-logr/logr"
	"k8s.io/apimachinery/pkg/runtime"
	"k8s.io/apimachinery/pkg/types"
	"sigs.k8s.io/controller-runtime/pkg/reconcile"

	edsctrl "github.com/DataDog/extendeddaemonset/controllers/extendeddaemonset"
	ersctrl "github.com/DataDog/extendeddaemonset/controllers/extendeddaemonsetreplicaset"
	settingctrl "github.com/DataDog/extendeddaemonset/controllers/extendeddaemonsetsetting"
	ptctrl "github.com/DataDog/extendeddaemonset/controllers/podtemplate"
)

// nopRecorder drops events (the fake recorder blocks when its buffer fills).
type nopRecorder struct{}

func (nopRecorder) Event(runtime.Object, string, string, string)                  {}
func (nopRecorder) Eventf(runtime.Object, string, string, string, ...interface{}) {}
func (nopRecorder) AnnotatedEventf(runtime.Object, map[string]string, string, string, string, ...interface{}) {
}

type controllers struct {
	eds     *edsctrl.Reconciler
	ers     *ersctrl.Reconciler
	setting *settingctrl.Reconciler
	pt      *ptctrl.Reconciler
}

// Actor names.
const (
	ActorEDS         = "eds"
	ActorERS         = "ers"
	ActorSetting     = "setting"
	ActorPodTemplate = "podtemplate"
)

// RestartControllers drops the reconciler instances (and with them the only
// in-memory state, the failed-pod back-off) and clears crash marks.
func (c *Cluster) RestartControllers() {
	c.mu.Lock()
	c.crashed = map[string]bool{}
	c.ctrl = nil
	c.mu.Unlock()
}

func (c *Cluster) controllers() *controllers {
	c.mu.Lock()
	defer c.mu.Unlock()
	if c.ctrl != nil {
		return c.ctrl
	}
	log := logr.Discard()
	k := &controllers{}
	k.eds, _ = edsctrl.NewReconciler(edsctrl.ReconcilerOptions{DefaultValidationMode: c.Opts.DefaultValidationMode}, c.ClientFor(ActorEDS), Scheme, log, nopRecorder{})
	k.ers, _ = ersctrl.NewReconciler(ersctrl.ReconcilerOptions{IsNodeAffinitySupported: c.Opts.AffinityMode}, c.ClientFor(ActorERS), Scheme, log, nopRecorder{})
	k.setting, _ = settingctrl.NewReconciler(settingctrl.ReconcilerOptions{}, c.ClientFor(ActorSetting), Scheme, log, nopRecorder{})
	k.pt, _ = ptctrl.NewReconciler(ptctrl.ReconcilerOptions{}, c.ClientFor(ActorPodTemplate), Scheme, log, nopRecorder{})
	c.ctrl = k
	return k
}

// ERSReconciler exposes the replica-set reconciler (FilterAndMapPodsByNode is exported on it).
func (c *Cluster) ERSReconciler() *ersctrl.Reconciler { return c.controllers().ers }

// Record is everything observable about one reconcile.
type Record struct {
	Step    int
	Actor   string
	Key     types.NamespacedName
	Pre     *Snapshot
	Post    *Snapshot
	Calls   []*Call
	Result  reconcile.Result
	Err     error
	Panic   interface{}
	Stack   string
	Crashed bool
}

func (r *Record) String() string {
	s := fmt.Sprintf("step %d reconcile %s %s", r.Step, r.Actor, r.Key)
	if r.Err != nil {
		s += " err=" + r.Err.Error()
	}
	if r.Panic != nil {
		s += fmt.Sprintf(" PANIC=%v", r.Panic)
	}
	return s
}

// Writes returns the write calls of the record.
func (r *Record) Writes() []*Call {
	var out []*Call
	for _, c := range r.Calls {
		if c.Write {
			out = append(out, c)
		}
	}
	return out
}

// Reconcile runs one reconcile of the given actor on the given key and records it.
func (c *Cluster) Reconcile(actor, ns, name string) *Record {
	k := c.controllers()
	c.mu.Lock()
	c.StepNo++
	step := c.StepNo
	first := len(c.Calls)
	c.mu.Unlock()
	rec := &Record{Step: step, Actor: actor, Key: types.NamespacedName{Namespace: ns, Name: name}}
	if !c.NoRecord {
		rec.Pre = c.Snapshot()
	}
	req := reconcile.Request{NamespacedName: rec.Key}
	func() {
		defer func() {
			if p := recover(); p != nil {
				rec.Panic = p
				rec.Stack = string(debug.Stack())
			}
		}()
		switch actor {
		case ActorEDS:
			rec.Result, rec.Err = k.eds.Reconcile(bg, req)
		case ActorERS:
			rec.Result, rec.Err = k.ers.Reconcile(bg, req)
		case ActorSetting:
			rec.Result, rec.Err = k.setting.Reconcile(bg, req)
		case ActorPodTemplate:
			rec.Result, rec.Err = k.pt.Reconcile(bg, req)
		default:
			panic("sim: unknown actor " + actor)
		}
	}()
	c.mu.Lock()
	rec.Calls = append([]*Call(nil), c.Calls[first:]...)
	rec.Crashed = c.crashed[actor]
	c.mu.Unlock()
	if !c.NoRecord {
		rec.Post = c.Snapshot()
	}
	c.tracef("reconcile %s %s/%s -> calls=%d err=%v", actor, ns, name, len(rec.Calls), rec.Err)
	if actor == ActorEDS {
		if e := c.EDS(ns, name); e != nil {
			can := "-"
			if e.Status.Canary != nil {
				can = fmt.Sprintf("%s%v", e.Status.Canary.ReplicaSet, e.Status.Canary.Nodes)
			}
			c.tracef("    status: active=%s canary=%s state=%q desired=%d current=%d ready=%d upToDate=%d", e.Status.ActiveReplicaSet, can, e.Status.State, e.Status.Desired, e.Status.Current, e.Status.Ready, e.Status.UpToDate)
		}
	}
	if rec.Crashed {
		// a stopped process is replaced by a fresh one
		c.RestartControllers()
	}
	return rec
}
