// Package sim is the simulated cluster the checks run the real reconcilers
// against: an in-memory API store (controller-runtime's fake client over an
// object tracker the harness also holds), the API-server behaviours the fake
// lacks (creationTimestamp/UID/generateName from harness state, graceful pod
// deletion, owner GC as an explicit action), a total call log with fault
// injection, a kubelet/scheduler/user model, and a virtual clock.
package sim

import (
	"context"
	"fmt"
	apierrors "k8s.io/apimachinery/pkg/api/errors"
	"sort"
	"sync"
	"time"

	appsv1 "k8s.io/api/apps/v1"
	corev1 "k8s.io/api/core/v1"
	"k8s.io/apimachinery/pkg/api/meta"
	metav1 "k8s.io/apimachinery/pkg/apis/meta/v1"
	"k8s.io/apimachinery/pkg/runtime"
	"k8s.io/apimachinery/pkg/runtime/schema"
	"k8s.io/apimachinery/pkg/runtime/serializer"
	"k8s.io/apimachinery/pkg/types"
	clientgoscheme "k8s.io/client-go/kubernetes/scheme"
	clienttesting "k8s.io/client-go/testing"
	"sigs.k8s.io/controller-runtime/pkg/client"
	"sigs.k8s.io/controller-runtime/pkg/client/fake"

	edsv1 "github.com/DataDog/extendeddaemonset/api/v1alpha1"
	"github.com/DataDog/extendeddaemonset/pkg/verifclock"
)

// Scheme is shared by every cluster (read-only after init).
var Scheme = func() *runtime.Scheme {
	s := runtime.NewScheme()
	_ = clientgoscheme.AddToScheme(s)
	_ = edsv1.AddToScheme(s)
	return s
}()

var codecs = serializer.NewCodecFactory(Scheme)

// Kinds the simulation knows about, in the order snapshots list them.
var (
	GVKEDS         = edsv1.GroupVersion.WithKind("ExtendedDaemonSet")
	GVKERS         = edsv1.GroupVersion.WithKind("ExtendedDaemonSetReplicaSet")
	GVKSetting     = edsv1.GroupVersion.WithKind("ExtendedDaemonsetSetting")
	GVKPod         = corev1.SchemeGroupVersion.WithKind("Pod")
	GVKNode        = corev1.SchemeGroupVersion.WithKind("Node")
	GVKPodTemplate = corev1.SchemeGroupVersion.WithKind("PodTemplate")
	GVKDaemonSet   = appsv1.SchemeGroupVersion.WithKind("DaemonSet")
	allGVKs        = []schema.GroupVersionKind{GVKEDS, GVKERS, GVKSetting, GVKPod, GVKNode, GVKPodTemplate, GVKDaemonSet}
)

func gvrOf(gvk schema.GroupVersionKind) schema.GroupVersionResource {
	gvr, _ := meta.UnsafeGuessKindToResource(gvk)
	return gvr
}

// Options of a simulated control plane.
type Options struct {
	AffinityMode          bool // --pod-affinity-supported: pods pinned by node affinity, scheduler binds them
	DefaultValidationMode edsv1.ExtendedDaemonSetSpecStrategyCanaryValidationMode
}

// Cluster is one simulated cluster.
type Cluster struct {
	Opts    Options
	tracker clienttesting.ObjectTracker
	fake    client.WithWatch

	mu       sync.Mutex
	seq      int
	nameCtr  int
	uidCtr   int
	StepNo   int
	Calls    []*Call
	Faults   FaultFunc
	crashed  map[string]bool // actor -> stopped
	ctrl     *controllers
	Trace    []string // human readable action trace (for replay files)
	NoRecord bool     // skip snapshots (speed) when only the call log matters
	// ListOrder, when set, permutes the items of every List answer (kind, n) -> permutation of 0..n-1:
	// a cache-backed client gives no ordering guarantee
	ListOrder func(kind string, n int) []int
	// Broken pods (ns/name) never become Ready again: KubeletProgress leaves them alone
	Broken map[string]bool
}

// New builds an empty cluster at the virtual epoch. The virtual clock is
// process-global: one cluster is driven at a time (forks share the instant).
func New(opts Options) *Cluster {
	if opts.DefaultValidationMode == "" {
		opts.DefaultValidationMode = edsv1.ExtendedDaemonSetSpecStrategyCanaryValidationModeAuto
	}
	c := &Cluster{Opts: opts, crashed: map[string]bool{}}
	c.tracker = clienttesting.NewObjectTracker(Scheme, codecs.UniversalDecoder())
	c.fake = newFake(c.tracker)
	verifclock.Set(verifclock.Epoch())
	return c
}

func newFake(tr clienttesting.ObjectTracker) client.WithWatch {
	return fake.NewClientBuilder().
		WithScheme(Scheme).
		WithObjectTracker(tr).
		WithStatusSubresource(&edsv1.ExtendedDaemonSet{}, &edsv1.ExtendedDaemonSetReplicaSet{}, &edsv1.ExtendedDaemonsetSetting{}).
		Build()
}

// Now is the virtual instant.
func (c *Cluster) Now() time.Time { return verifclock.Now() }

// Advance moves the virtual clock.
func (c *Cluster) Advance(d time.Duration) {
	verifclock.Advance(d)
	c.tracef("advance %s", d)
}

func (c *Cluster) tracef(format string, a ...interface{}) {
	c.mu.Lock()
	c.Trace = append(c.Trace, fmt.Sprintf(format, a...))
	c.mu.Unlock()
}

// Tracef appends a line to the action trace.
func (c *Cluster) Tracef(format string, a ...interface{}) { c.tracef(format, a...) }

// ---------------------------------------------------------------- raw store

func (c *Cluster) rawList(gvk schema.GroupVersionKind) []runtime.Object {
	l, err := c.tracker.List(gvrOf(gvk), gvk, "")
	if err != nil {
		return nil
	}
	items, err := meta.ExtractList(l)
	if err != nil {
		return nil
	}
	sort.Slice(items, func(i, j int) bool {
		a, _ := meta.Accessor(items[i])
		b, _ := meta.Accessor(items[j])
		if a.GetNamespace() != b.GetNamespace() {
			return a.GetNamespace() < b.GetNamespace()
		}
		return a.GetName() < b.GetName()
	})
	return items
}

// rawGet returns a deep copy of the stored object or nil.
func (c *Cluster) rawGet(gvk schema.GroupVersionKind, ns, name string) runtime.Object {
	o, err := c.tracker.Get(gvrOf(gvk), ns, name)
	if err != nil {
		return nil
	}
	return o.DeepCopyObject()
}

func bumpRV(o metav1.Object) {
	var n uint64
	fmt.Sscanf(o.GetResourceVersion(), "%d", &n)
	o.SetResourceVersion(fmt.Sprintf("%d", n+1))
}

// rawUpdate writes the object straight into the store (environment writes:
// kubelet, scheduler, the API server's own bookkeeping).
// rawUpdate writes an object the environment changed. It reports false when the object vanished between the
// environment's read and this write (only possible while controllers run concurrently: the environment lost a race).
func (c *Cluster) rawUpdate(gvk schema.GroupVersionKind, obj client.Object) bool {
	bumpRV(obj)
	if err := c.tracker.Update(gvrOf(gvk), obj, obj.GetNamespace()); err != nil {
		if apierrors.IsNotFound(err) {
			return false
		}
		panic(fmt.Sprintf("sim: raw update %s %s/%s: %v", gvk.Kind, obj.GetNamespace(), obj.GetName(), err))
	}
	return true
}

func (c *Cluster) rawDelete(gvk schema.GroupVersionKind, ns, name string) {
	_ = c.tracker.Delete(gvrOf(gvk), ns, name)
}

// Add stores an object as the API server would on creation by a user.
func (c *Cluster) Add(obj client.Object) {
	c.stampNew(obj)
	gvk, err := gvkFor(obj)
	if err != nil {
		panic(err)
	}
	if obj.GetResourceVersion() == "" {
		obj.SetResourceVersion("1")
	}
	if err := c.tracker.Create(gvrOf(gvk), obj.DeepCopyObject(), obj.GetNamespace()); err != nil {
		panic(fmt.Sprintf("sim: add %s %s/%s: %v", gvk.Kind, obj.GetNamespace(), obj.GetName(), err))
	}
}

func gvkFor(obj runtime.Object) (schema.GroupVersionKind, error) {
	gvks, _, err := Scheme.ObjectKinds(obj)
	if err != nil || len(gvks) == 0 {
		return schema.GroupVersionKind{}, fmt.Errorf("sim: unknown kind %T", obj)
	}
	return gvks[0], nil
}

// stampNew fills what the API server fills on create.
func (c *Cluster) stampNew(obj client.Object) {
	c.mu.Lock()
	defer c.mu.Unlock()
	if obj.GetName() == "" && obj.GetGenerateName() != "" {
		c.nameCtr++
		obj.SetName(fmt.Sprintf("%s%s", obj.GetGenerateName(), suffix(c.nameCtr)))
	}
	if obj.GetUID() == "" {
		c.uidCtr++
		obj.SetUID(types.UID(fmt.Sprintf("uid-%06d", c.uidCtr)))
	}
	if ts := obj.GetCreationTimestamp(); ts.IsZero() {
		obj.SetCreationTimestamp(metav1.NewTime(verifclock.Now().Truncate(time.Second)))
	}
}

// suffix renders a counter as a 5-letter name suffix (deterministic generateName).
func suffix(n int) string {
	const letters = "bcdfghjklmnpqrstvwxz2456789"
	b := []byte("aaaaa")
	for i := 4; i >= 0; i-- {
		b[i] = letters[n%len(letters)]
		n /= len(letters)
	}
	return string(b)
}

// ---------------------------------------------------------------- typed views

// EDS returns a copy of the stored ExtendedDaemonSet or nil.
func (c *Cluster) EDS(ns, name string) *edsv1.ExtendedDaemonSet {
	if o := c.rawGet(GVKEDS, ns, name); o != nil {
		return o.(*edsv1.ExtendedDaemonSet)
	}
	return nil
}

// ERS returns a copy of the stored replica set or nil.
func (c *Cluster) ERS(ns, name string) *edsv1.ExtendedDaemonSetReplicaSet {
	if o := c.rawGet(GVKERS, ns, name); o != nil {
		return o.(*edsv1.ExtendedDaemonSetReplicaSet)
	}
	return nil
}

// Pod returns a copy of the stored pod or nil.
func (c *Cluster) Pod(ns, name string) *corev1.Pod {
	if o := c.rawGet(GVKPod, ns, name); o != nil {
		return o.(*corev1.Pod)
	}
	return nil
}

// Node returns a copy of the stored node or nil.
func (c *Cluster) Node(name string) *corev1.Node {
	if o := c.rawGet(GVKNode, "", name); o != nil {
		return o.(*corev1.Node)
	}
	return nil
}

// Setting returns a copy of the stored setting or nil.
func (c *Cluster) Setting(ns, name string) *edsv1.ExtendedDaemonsetSetting {
	if o := c.rawGet(GVKSetting, ns, name); o != nil {
		return o.(*edsv1.ExtendedDaemonsetSetting)
	}
	return nil
}

// Snapshot is a deep copy of everything in the store at one instant.
type Snapshot struct {
	Now          time.Time
	EDS          []*edsv1.ExtendedDaemonSet
	RS           []*edsv1.ExtendedDaemonSetReplicaSet
	Settings     []*edsv1.ExtendedDaemonsetSetting
	Pods         []*corev1.Pod
	Nodes        []*corev1.Node
	PodTemplates []*corev1.PodTemplate
	DaemonSets   []*appsv1.DaemonSet
}

// Snapshot copies the store.
func (c *Cluster) Snapshot() *Snapshot {
	s := &Snapshot{Now: verifclock.Now()}
	for _, o := range c.rawList(GVKEDS) {
		s.EDS = append(s.EDS, o.DeepCopyObject().(*edsv1.ExtendedDaemonSet))
	}
	for _, o := range c.rawList(GVKERS) {
		s.RS = append(s.RS, o.DeepCopyObject().(*edsv1.ExtendedDaemonSetReplicaSet))
	}
	for _, o := range c.rawList(GVKSetting) {
		s.Settings = append(s.Settings, o.DeepCopyObject().(*edsv1.ExtendedDaemonsetSetting))
	}
	for _, o := range c.rawList(GVKPod) {
		s.Pods = append(s.Pods, o.DeepCopyObject().(*corev1.Pod))
	}
	for _, o := range c.rawList(GVKNode) {
		s.Nodes = append(s.Nodes, o.DeepCopyObject().(*corev1.Node))
	}
	for _, o := range c.rawList(GVKPodTemplate) {
		s.PodTemplates = append(s.PodTemplates, o.DeepCopyObject().(*corev1.PodTemplate))
	}
	for _, o := range c.rawList(GVKDaemonSet) {
		s.DaemonSets = append(s.DaemonSets, o.DeepCopyObject().(*appsv1.DaemonSet))
	}
	return s
}

// EDSByKey finds an EDS in a snapshot.
func (s *Snapshot) EDSByKey(ns, name string) *edsv1.ExtendedDaemonSet {
	for _, e := range s.EDS {
		if e.Namespace == ns && e.Name == name {
			return e
		}
	}
	return nil
}

// RSByKey finds a replica set in a snapshot.
func (s *Snapshot) RSByKey(ns, name string) *edsv1.ExtendedDaemonSetReplicaSet {
	for _, e := range s.RS {
		if e.Namespace == ns && e.Name == name {
			return e
		}
	}
	return nil
}

// NodeByName finds a node in a snapshot.
func (s *Snapshot) NodeByName(name string) *corev1.Node {
	for _, n := range s.Nodes {
		if n.Name == name {
			return n
		}
	}
	return nil
}

// PodByKey finds a pod in a snapshot.
func (s *Snapshot) PodByKey(ns, name string) *corev1.Pod {
	for _, p := range s.Pods {
		if p.Namespace == ns && p.Name == name {
			return p
		}
	}
	return nil
}

// Fork returns an independent cluster holding a copy of the store, the same
// counters and (a copy of) the reconcilers' only in-memory state. The virtual
// clock is shared (process global).
func (c *Cluster) Fork() *Cluster {
	f := &Cluster{Opts: c.Opts, crashed: map[string]bool{}, Faults: c.Faults}
	f.tracker = clienttesting.NewObjectTracker(Scheme, codecs.UniversalDecoder())
	for _, gvk := range allGVKs {
		for _, o := range c.rawList(gvk) {
			acc, _ := meta.Accessor(o)
			if err := f.tracker.Create(gvrOf(gvk), o.DeepCopyObject(), acc.GetNamespace()); err != nil {
				panic(err)
			}
		}
	}
	f.fake = newFake(f.tracker)
	f.seq, f.nameCtr, f.uidCtr, f.StepNo = c.seq, c.nameCtr, c.uidCtr, c.StepNo
	f.Trace = append([]string(nil), c.Trace...)
	f.NoRecord = c.NoRecord
	f.ListOrder = c.ListOrder
	if c.Broken != nil {
		f.Broken = map[string]bool{}
		for k, v := range c.Broken {
			f.Broken[k] = v
		}
	}
	return f
}

// Env returns a client for environment/user actions: not logged, never faulted.
func (c *Cluster) Env() client.Client { return c.fake }

var bg = context.Background()

func keyOf(ns, name string) types.NamespacedName {
	return types.NamespacedName{Namespace: ns, Name: name}
}

// KeyOf builds a namespaced name.
func KeyOf(ns, name string) types.NamespacedName { return keyOf(ns, name) }
