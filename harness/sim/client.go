package sim

import (
	"context"
	"errors"
	"fmt"
	"reflect"
	"strings"
	"time"

	corev1 "k8s.io/api/core/v1"
	apierrors "k8s.io/apimachinery/pkg/api/errors"
	"k8s.io/apimachinery/pkg/api/meta"
	metav1 "k8s.io/apimachinery/pkg/apis/meta/v1"
	"k8s.io/apimachinery/pkg/runtime"
	"k8s.io/apimachinery/pkg/runtime/schema"
	"sigs.k8s.io/controller-runtime/pkg/client"

	"github.com/DataDog/extendeddaemonset/pkg/verifclock"
)

// FaultKind says what happens to one API call.
type FaultKind int

// Fault kinds.
const (
	FaultNone        FaultKind = iota
	FaultReject                // error returned, call not applied
	FaultLostAnswer            // call applied, error returned
	FaultCrashBefore           // process stops before the call: not applied, every later call of this actor fails
	FaultCrashAfter            // call applied, then the process stops
	// FaultRejectTyped: as FaultReject, but the error is the API status error typical for the verb
	// (AlreadyExists for create, Conflict for update/patch/status writes, TooManyRequests for delete,
	// ServerTimeout for reads), which client code may treat specially (IgnoreAlreadyExists, IsConflict ...)
	FaultRejectTyped
	// FaultLostAnswerTyped: as FaultLostAnswer (the call is applied), answered with ServerTimeout - the ambiguous
	// outcome of a write whose answer timed out, which client code may be tempted to retry
	FaultLostAnswerTyped
)

func (k FaultKind) String() string {
	return [...]string{"none", "reject", "lost-answer", "crash-before", "crash-after", "reject-typed", "lost-answer-typed"}[k]
}

// FaultFunc decides the fate of a call before it is applied.
type FaultFunc func(call *Call) FaultKind

// ErrInjected is the error injected calls return.
var ErrInjected = errors.New("verif: injected API failure")

// ErrCrashed is returned to a stopped actor.
var ErrCrashed = errors.New("verif: process stopped")

// Call is one API call as seen by the store.
type Call struct {
	Seq     int
	Step    int
	Actor   string // eds, ers, setting, podtemplate, plugin
	Verb    string // get list create update patch delete status-update status-patch
	Kind    string
	NS      string
	Name    string
	Obj     client.Object // deep copy of the object as sent (after name generation for creates)
	Err     string
	Applied bool
	Fault   FaultKind
	Write   bool
}

func (c *Call) String() string {
	s := fmt.Sprintf("#%d %s %s %s %s/%s", c.Seq, c.Actor, c.Verb, c.Kind, c.NS, c.Name)
	if c.Fault != FaultNone {
		s += " fault=" + c.Fault.String()
	}
	if c.Err != "" {
		s += " err=" + c.Err
	}
	return s
}

type simClient struct {
	c     *Cluster
	actor string
}

// ClientFor returns the logging, fault-injecting client of one actor.
func (c *Cluster) ClientFor(actor string) client.Client { return &simClient{c: c, actor: actor} }

func kindOf(obj runtime.Object) string {
	if gvk, err := gvkFor(obj); err == nil {
		return gvk.Kind
	}
	return fmt.Sprintf("%T", obj)
}

// begin registers the call and decides its fault. It returns (call, proceed, errToReturnIfNotProceed).
func (s *simClient) begin(verb string, obj runtime.Object, ns, name string, write bool) (*Call, FaultKind) {
	c := s.c
	c.mu.Lock()
	c.seq++
	call := &Call{Seq: c.seq, Step: c.StepNo, Actor: s.actor, Verb: verb, Kind: kindOf(obj), NS: ns, Name: name, Write: write}
	if co, ok := obj.(client.Object); ok && write {
		call.Obj = co.DeepCopyObject().(client.Object)
	}
	c.Calls = append(c.Calls, call)
	crashed := c.crashed[s.actor]
	ff := c.Faults
	c.mu.Unlock()
	if crashed {
		call.Fault = FaultCrashBefore
		call.Err = ErrCrashed.Error()
		return call, FaultCrashBefore
	}
	k := FaultNone
	if ff != nil {
		k = ff(call)
	}
	call.Fault = k
	if k == FaultCrashBefore || k == FaultCrashAfter {
		c.mu.Lock()
		c.crashed[s.actor] = true
		c.mu.Unlock()
	}
	return call, k
}

func (s *simClient) finish(call *Call, k FaultKind, err error) error {
	if err == nil {
		call.Applied = true
	}
	switch k {
	case FaultLostAnswer:
		err = ErrInjected
	case FaultLostAnswerTyped:
		err = apierrors.NewServerTimeout(schema.GroupResource{Resource: strings.ToLower(call.Kind) + "s"}, call.Verb, 1)
	case FaultCrashAfter:
		err = ErrCrashed
	}
	if err != nil {
		call.Err = err.Error()
	}
	return err
}

func early(call *Call, k FaultKind) (bool, error) {
	switch k {
	case FaultReject:
		call.Err = ErrInjected.Error()
		return true, ErrInjected
	case FaultCrashBefore:
		call.Err = ErrCrashed.Error()
		return true, ErrCrashed
	case FaultRejectTyped:
		err := typedError(call)
		call.Err = err.Error()
		return true, err
	}
	return false, nil
}

// typedError is the API status error a real server would typically answer for a rejected call of this verb.
func typedError(call *Call) error {
	gr := schema.GroupResource{Resource: strings.ToLower(call.Kind) + "s"}
	switch call.Verb {
	case "create":
		// with generateName: the generated name collided, nothing was stored
		return apierrors.NewAlreadyExists(gr, call.Name)
	case "update", "patch", "status-update", "status-patch":
		return apierrors.NewConflict(gr, call.Name, errors.New("the object has been modified; please apply your changes to the latest version and try again"))
	case "delete":
		return apierrors.NewTooManyRequests("verif: throttled", 1)
	}
	return apierrors.NewServerTimeout(gr, call.Verb, 1)
}

func (s *simClient) Get(ctx context.Context, key client.ObjectKey, obj client.Object, opts ...client.GetOption) error {
	call, k := s.begin("get", obj, key.Namespace, key.Name, false)
	if stop, err := early(call, k); stop {
		return err
	}
	return s.finish(call, k, s.c.fake.Get(ctx, key, obj, opts...))
}

func (s *simClient) List(ctx context.Context, list client.ObjectList, opts ...client.ListOption) error {
	lo := client.ListOptions{}
	lo.ApplyOptions(opts)
	kind := kindOf(list)
	call, k := s.begin("list", list, lo.Namespace, "", false)
	call.Kind = kind
	if lo.LabelSelector != nil {
		call.Name = lo.LabelSelector.String()
	}
	if stop, err := early(call, k); stop {
		return err
	}
	err := s.c.fake.List(ctx, list, opts...)
	if err == nil && s.c.ListOrder != nil {
		// a cache-backed client returns list items in no particular order
		if items, e := meta.ExtractList(list); e == nil && len(items) > 1 {
			perm := s.c.ListOrder(kind, len(items))
			if len(perm) == len(items) {
				out := make([]runtime.Object, len(items))
				for i, j := range perm {
					out[i] = items[j]
				}
				_ = meta.SetList(list, out)
			}
		}
	}
	return s.finish(call, k, err)
}

// answerLost: the call is applied but its answer never reaches the caller.
func answerLost(k FaultKind) bool {
	return k == FaultLostAnswer || k == FaultLostAnswerTyped || k == FaultCrashAfter
}

// assign copies the server's answer into the caller's object, as a real client does when it decodes the response.
func assign(dst, src client.Object) {
	reflect.ValueOf(dst).Elem().Set(reflect.ValueOf(src).Elem())
}

// answered runs a write on a copy of the caller's object and hands the answer (generated name, uid, resourceVersion)
// over only if the call succeeded and its answer arrived: after an error a real client leaves the object as sent.
func answered(obj client.Object, k FaultKind, do func(cp client.Object) error) error {
	cp := obj.DeepCopyObject().(client.Object)
	err := do(cp)
	if err == nil && !answerLost(k) {
		assign(obj, cp)
	}
	return err
}

func (s *simClient) Create(ctx context.Context, obj client.Object, opts ...client.CreateOption) error {
	sent := obj.DeepCopyObject().(client.Object)
	s.c.stampNew(sent)
	call, k := s.begin("create", sent, sent.GetNamespace(), sent.GetName(), true)
	if stop, err := early(call, k); stop {
		return err
	}
	err := s.c.fake.Create(ctx, sent, opts...)
	if err == nil && !answerLost(k) {
		assign(obj, sent)
	}
	return s.finish(call, k, err)
}

func (s *simClient) Delete(ctx context.Context, obj client.Object, opts ...client.DeleteOption) error {
	call, k := s.begin("delete", obj, obj.GetNamespace(), obj.GetName(), true)
	if stop, err := early(call, k); stop {
		return err
	}
	var err error
	if pod, ok := obj.(*corev1.Pod); ok {
		err = s.c.gracefulDeletePod(pod.Namespace, pod.Name)
	} else {
		err = s.c.fake.Delete(ctx, obj, opts...)
	}
	return s.finish(call, k, err)
}

// gracefulDeletePod mimics the API server: a pod bound to a node and not yet
// finished becomes terminating (deletionTimestamp from the virtual clock,
// grace period from the pod spec, 30 s default); an unbound or finished pod is
// removed at once; deleting a terminating pod again is a no-op.
func (c *Cluster) gracefulDeletePod(ns, name string) error {
	cur := c.Pod(ns, name)
	if cur == nil {
		return apierrors.NewNotFound(schema.GroupResource{Resource: "pods"}, name)
	}
	if cur.DeletionTimestamp != nil {
		return nil
	}
	if cur.Spec.NodeName == "" || cur.Status.Phase == corev1.PodFailed || cur.Status.Phase == corev1.PodSucceeded {
		c.rawDelete(GVKPod, ns, name)
		return nil
	}
	grace := int64(30)
	if cur.Spec.TerminationGracePeriodSeconds != nil {
		grace = *cur.Spec.TerminationGracePeriodSeconds
	}
	if grace == 0 {
		c.rawDelete(GVKPod, ns, name)
		return nil
	}
	// request time + grace period, as the API server records it
	ts := metav1.NewTime(verifclock.Now().Add(time.Duration(grace) * time.Second))
	cur.DeletionTimestamp = &ts
	cur.DeletionGracePeriodSeconds = &grace
	// the kubelet plays the role of a finalizer; without one the fake client
	// would drop a terminating object on its next update/patch
	cur.Finalizers = append(cur.Finalizers, "verif/kubelet")
	c.rawUpdate(GVKPod, cur)
	return nil
}

func (s *simClient) Update(ctx context.Context, obj client.Object, opts ...client.UpdateOption) error {
	call, k := s.begin("update", obj, obj.GetNamespace(), obj.GetName(), true)
	if stop, err := early(call, k); stop {
		return err
	}
	return s.finish(call, k, answered(obj, k, func(cp client.Object) error { return s.c.fake.Update(ctx, cp, opts...) }))
}

func (s *simClient) Patch(ctx context.Context, obj client.Object, patch client.Patch, opts ...client.PatchOption) error {
	call, k := s.begin("patch", obj, obj.GetNamespace(), obj.GetName(), true)
	if stop, err := early(call, k); stop {
		return err
	}
	return s.finish(call, k, answered(obj, k, func(cp client.Object) error { return s.c.fake.Patch(ctx, cp, patch, opts...) }))
}

func (s *simClient) DeleteAllOf(ctx context.Context, obj client.Object, opts ...client.DeleteAllOfOption) error {
	call, k := s.begin("deleteallof", obj, obj.GetNamespace(), "", true)
	if stop, err := early(call, k); stop {
		return err
	}
	return s.finish(call, k, s.c.fake.DeleteAllOf(ctx, obj, opts...))
}

func (s *simClient) Status() client.SubResourceWriter { return &simStatus{s: s} }

func (s *simClient) SubResource(sub string) client.SubResourceClient {
	return s.c.fake.SubResource(sub)
}
func (s *simClient) Scheme() *runtime.Scheme     { return Scheme }
func (s *simClient) RESTMapper() meta.RESTMapper { return s.c.fake.RESTMapper() }
func (s *simClient) GroupVersionKindFor(obj runtime.Object) (schema.GroupVersionKind, error) {
	return s.c.fake.GroupVersionKindFor(obj)
}
func (s *simClient) IsObjectNamespaced(obj runtime.Object) (bool, error) {
	return s.c.fake.IsObjectNamespaced(obj)
}

type simStatus struct{ s *simClient }

func (w *simStatus) Create(ctx context.Context, obj client.Object, sub client.Object, opts ...client.SubResourceCreateOption) error {
	return w.s.c.fake.Status().Create(ctx, obj, sub, opts...)
}

func (w *simStatus) Update(ctx context.Context, obj client.Object, opts ...client.SubResourceUpdateOption) error {
	call, k := w.s.begin("status-update", obj, obj.GetNamespace(), obj.GetName(), true)
	if stop, err := early(call, k); stop {
		return err
	}
	return w.s.finish(call, k, answered(obj, k, func(cp client.Object) error { return w.s.c.fake.Status().Update(ctx, cp, opts...) }))
}

func (w *simStatus) Patch(ctx context.Context, obj client.Object, patch client.Patch, opts ...client.SubResourcePatchOption) error {
	call, k := w.s.begin("status-patch", obj, obj.GetNamespace(), obj.GetName(), true)
	if stop, err := early(call, k); stop {
		return err
	}
	return w.s.finish(call, k, answered(obj, k, func(cp client.Object) error { return w.s.c.fake.Status().Patch(ctx, cp, patch, opts...) }))
}
