package sim

import (
	"fmt"
	"sort"
	"time"

	corev1 "k8s.io/api/core/v1"
	metav1 "k8s.io/apimachinery/pkg/apis/meta/v1"

	edsv1 "github.com/DataDog/extendeddaemonset/api/v1alpha1"
	"github.com/DataDog/extendeddaemonset/pkg/verifclock"
)

// ---------------------------------------------------------------- nodes

// AddNode creates a node.
func (c *Cluster) AddNode(name string, labels map[string]string, taints []corev1.Taint) *corev1.Node {
	n := &corev1.Node{ObjectMeta: metav1.ObjectMeta{Name: name, Labels: labels}, Spec: corev1.NodeSpec{Taints: taints}}
	c.Add(n)
	c.tracef("node add %s labels=%v taints=%v", name, labels, taints)
	return n
}

// RemoveNode deletes a node object (its pods stay, as in a real cluster until pod GC).
func (c *Cluster) RemoveNode(name string) {
	c.rawDelete(GVKNode, "", name)
	c.tracef("node remove %s", name)
}

// MutateNode edits a node in place.
func (c *Cluster) MutateNode(name string, f func(*corev1.Node)) bool {
	n := c.Node(name)
	if n == nil {
		return false
	}
	f(n)
	return c.rawUpdate(GVKNode, n)
}

// ---------------------------------------------------------------- pods (scheduler + kubelet)

// MutatePod edits a pod in place (environment write).
func (c *Cluster) MutatePod(ns, name string, f func(*corev1.Pod)) bool {
	p := c.Pod(ns, name)
	if p == nil {
		return false
	}
	f(p)
	return c.rawUpdate(GVKPod, p)
}

// PinnedNode is the node a pod is bound or pinned to ("" if none).
func PinnedNode(p *corev1.Pod) string {
	if p.Spec.NodeName != "" {
		return p.Spec.NodeName
	}
	a := p.Spec.Affinity
	if a == nil || a.NodeAffinity == nil || a.NodeAffinity.RequiredDuringSchedulingIgnoredDuringExecution == nil {
		return ""
	}
	for _, t := range a.NodeAffinity.RequiredDuringSchedulingIgnoredDuringExecution.NodeSelectorTerms {
		for _, f := range t.MatchFields {
			if f.Key == "metadata.name" && len(f.Values) > 0 {
				return f.Values[0]
			}
		}
	}
	return ""
}

func setPodCond(p *corev1.Pod, t corev1.PodConditionType, st corev1.ConditionStatus, reason string, now time.Time) {
	for i := range p.Status.Conditions {
		if p.Status.Conditions[i].Type == t {
			if p.Status.Conditions[i].Status != st {
				p.Status.Conditions[i].LastTransitionTime = metav1.NewTime(now)
			}
			p.Status.Conditions[i].Status = st
			p.Status.Conditions[i].Reason = reason
			return
		}
	}
	p.Status.Conditions = append(p.Status.Conditions, corev1.PodCondition{Type: t, Status: st, Reason: reason, LastTransitionTime: metav1.NewTime(now)})
}

// Bind is the scheduler binding an affinity-pinned pod to its node.
func (c *Cluster) Bind(ns, name string) bool {
	ok := c.MutatePod(ns, name, func(p *corev1.Pod) {
		if p.Spec.NodeName == "" {
			p.Spec.NodeName = PinnedNode(p)
		}
		setPodCond(p, corev1.PodScheduled, corev1.ConditionTrue, "", verifclock.Now())
	})
	c.tracef("pod bind %s/%s", ns, name)
	return ok
}

// MarkUnschedulable is the scheduler reporting that the pod does not fit.
func (c *Cluster) MarkUnschedulable(ns, name string) bool {
	c.tracef("pod unschedulable %s/%s", ns, name)
	return c.MutatePod(ns, name, func(p *corev1.Pod) {
		if p.Spec.NodeName != "" {
			return
		}
		p.Status.Phase = corev1.PodPending
		setPodCond(p, corev1.PodScheduled, corev1.ConditionFalse, corev1.PodReasonUnschedulable, verifclock.Now())
	})
}

// Start is the kubelet bringing every container up: Running and Ready.
func (c *Cluster) Start(ns, name string) bool {
	c.tracef("pod start %s/%s", ns, name)
	return c.MutatePod(ns, name, func(p *corev1.Pod) {
		if p.Spec.NodeName == "" || p.DeletionTimestamp != nil {
			return
		}
		now := verifclock.Now()
		p.Status.Phase = corev1.PodRunning
		if p.Status.StartTime == nil {
			t := metav1.NewTime(now)
			p.Status.StartTime = &t
		}
		setPodCond(p, corev1.PodScheduled, corev1.ConditionTrue, "", now)
		setPodCond(p, corev1.PodReady, corev1.ConditionTrue, "", now)
		old := map[string]corev1.ContainerStatus{}
		for _, cs := range p.Status.ContainerStatuses {
			old[cs.Name] = cs
		}
		p.Status.ContainerStatuses = nil
		for _, ct := range p.Spec.Containers {
			cs := old[ct.Name]
			cs.Name = ct.Name
			cs.Ready = true
			cs.State = corev1.ContainerState{Running: &corev1.ContainerStateRunning{StartedAt: metav1.NewTime(now)}}
			p.Status.ContainerStatuses = append(p.Status.ContainerStatuses, cs)
		}
	})
}

// Unready flips the Ready condition to False.
func (c *Cluster) Unready(ns, name string) bool {
	c.tracef("pod unready %s/%s", ns, name)
	return c.MutatePod(ns, name, func(p *corev1.Pod) {
		if p.Status.StartTime == nil {
			return
		}
		setPodCond(p, corev1.PodReady, corev1.ConditionFalse, "ContainersNotReady", verifclock.Now())
		for i := range p.Status.ContainerStatuses {
			p.Status.ContainerStatuses[i].Ready = false
		}
	})
}

// Break makes a started pod not Ready for good (a crash-looping container): KubeletProgress will not heal it.
func (c *Cluster) Break(ns, name string) bool {
	if c.Broken == nil {
		c.Broken = map[string]bool{}
	}
	c.Broken[ns+"/"+name] = true
	return c.Unready(ns, name)
}

// Restart records one container restart (restartCount++, lastState.terminated at now).
func (c *Cluster) Restart(ns, name string, container int, reason string) bool {
	c.tracef("pod restart %s/%s c=%d reason=%s", ns, name, container, reason)
	return c.MutatePod(ns, name, func(p *corev1.Pod) {
		if p.Status.StartTime == nil || len(p.Status.ContainerStatuses) == 0 {
			return
		}
		i := container % len(p.Status.ContainerStatuses)
		now := verifclock.Now()
		cs := &p.Status.ContainerStatuses[i]
		cs.RestartCount++
		cs.LastTerminationState = corev1.ContainerState{Terminated: &corev1.ContainerStateTerminated{ExitCode: 1, Reason: reason, FinishedAt: metav1.NewTime(now)}}
	})
}

// Waiting puts a container into a waiting state with the given reason (pod not ready).
func (c *Cluster) Waiting(ns, name string, container int, reason string) bool {
	c.tracef("pod waiting %s/%s c=%d reason=%s", ns, name, container, reason)
	return c.MutatePod(ns, name, func(p *corev1.Pod) {
		if p.Spec.NodeName == "" || p.DeletionTimestamp != nil {
			return
		}
		now := verifclock.Now()
		if p.Status.StartTime == nil {
			t := metav1.NewTime(now)
			p.Status.StartTime = &t
			p.Status.Phase = corev1.PodPending
			for _, ct := range p.Spec.Containers {
				p.Status.ContainerStatuses = append(p.Status.ContainerStatuses, corev1.ContainerStatus{Name: ct.Name})
			}
		}
		if len(p.Status.ContainerStatuses) == 0 {
			return
		}
		i := container % len(p.Status.ContainerStatuses)
		p.Status.ContainerStatuses[i].Ready = false
		p.Status.ContainerStatuses[i].State = corev1.ContainerState{Waiting: &corev1.ContainerStateWaiting{Reason: reason}}
		setPodCond(p, corev1.PodScheduled, corev1.ConditionTrue, "", now)
		setPodCond(p, corev1.PodReady, corev1.ConditionFalse, "ContainersNotReady", now)
	})
}

// SetPhase sets the pod phase (Failed / Unknown / ...); a Failed or Unknown pod is not Ready.
func (c *Cluster) SetPhase(ns, name string, phase corev1.PodPhase, reason string) bool {
	c.tracef("pod phase %s/%s %s %s", ns, name, phase, reason)
	return c.MutatePod(ns, name, func(p *corev1.Pod) {
		p.Status.Phase = phase
		p.Status.Reason = reason
		if phase == corev1.PodFailed || phase == corev1.PodUnknown {
			for i := range p.Status.Conditions {
				if p.Status.Conditions[i].Type == corev1.PodReady && p.Status.Conditions[i].Status == corev1.ConditionTrue {
					p.Status.Conditions[i].Status = corev1.ConditionFalse
					p.Status.Conditions[i].LastTransitionTime = metav1.NewTime(verifclock.Now())
				}
			}
		}
	})
}

// Finalize is the kubelet confirming termination: the pod object disappears.
func (c *Cluster) Finalize(ns, name string) bool {
	p := c.Pod(ns, name)
	if p == nil || p.DeletionTimestamp == nil {
		return false
	}
	c.rawDelete(GVKPod, ns, name)
	c.tracef("pod finalize %s/%s", ns, name)
	return true
}

// Pods returns copies of all pods, sorted by namespace/name.
func (c *Cluster) Pods() []*corev1.Pod {
	var out []*corev1.Pod
	for _, o := range c.rawList(GVKPod) {
		out = append(out, o.DeepCopyObject().(*corev1.Pod))
	}
	return out
}

// Nodes returns copies of all nodes sorted by name.
func (c *Cluster) Nodes() []*corev1.Node {
	var out []*corev1.Node
	for _, o := range c.rawList(GVKNode) {
		out = append(out, o.DeepCopyObject().(*corev1.Node))
	}
	return out
}

// AllEDS returns copies of all ExtendedDaemonSets.
func (c *Cluster) AllEDS() []*edsv1.ExtendedDaemonSet {
	var out []*edsv1.ExtendedDaemonSet
	for _, o := range c.rawList(GVKEDS) {
		out = append(out, o.DeepCopyObject().(*edsv1.ExtendedDaemonSet))
	}
	return out
}

// AllERS returns copies of all replica sets.
func (c *Cluster) AllERS() []*edsv1.ExtendedDaemonSetReplicaSet {
	var out []*edsv1.ExtendedDaemonSetReplicaSet
	for _, o := range c.rawList(GVKERS) {
		out = append(out, o.DeepCopyObject().(*edsv1.ExtendedDaemonSetReplicaSet))
	}
	return out
}

// AllSettings returns copies of all settings.
func (c *Cluster) AllSettings() []*edsv1.ExtendedDaemonsetSetting {
	var out []*edsv1.ExtendedDaemonsetSetting
	for _, o := range c.rawList(GVKSetting) {
		out = append(out, o.DeepCopyObject().(*edsv1.ExtendedDaemonsetSetting))
	}
	return out
}

// KubeletProgress lets scheduler and kubelet make every pod healthy: terminating
// pods vanish, pinned pods get bound, pods on existing nodes become Running+Ready.
// Pods in phase Failed/Unknown are left alone.
func (c *Cluster) KubeletProgress() {
	for _, p := range c.Pods() {
		switch {
		case p.DeletionTimestamp != nil:
			c.Finalize(p.Namespace, p.Name)
		case p.Status.Phase == corev1.PodFailed || p.Status.Phase == corev1.PodUnknown:
		case c.Broken[p.Namespace+"/"+p.Name]:
		default:
			node := PinnedNode(p)
			if node == "" || c.Node(node) == nil {
				continue
			}
			if p.Spec.NodeName == "" {
				c.Bind(p.Namespace, p.Name)
			}
			ready := false
			for _, cd := range p.Status.Conditions {
				if cd.Type == corev1.PodReady && cd.Status == corev1.ConditionTrue {
					ready = true
				}
			}
			if !ready {
				c.Start(p.Namespace, p.Name)
			}
		}
	}
}

// GC is the garbage collector: objects whose controller owner is gone are deleted
// (replica sets of a deleted EDS, pods of a deleted replica set).
func (c *Cluster) GC() int {
	n := 0
	uids := map[string]bool{}
	for _, e := range c.AllEDS() {
		uids[string(e.UID)] = true
	}
	for _, r := range c.AllERS() {
		gone := false
		for _, ref := range r.OwnerReferences {
			if ref.Kind == "ExtendedDaemonSet" && !uids[string(ref.UID)] {
				gone = true
			}
		}
		if gone {
			c.rawDelete(GVKERS, r.Namespace, r.Name)
			n++
			continue
		}
		uids[string(r.UID)] = true
	}
	for _, p := range c.Pods() {
		for _, ref := range p.OwnerReferences {
			if ref.Kind == "ExtendedDaemonSetReplicaSet" && !uids[string(ref.UID)] {
				_ = c.gracefulDeletePod(p.Namespace, p.Name)
				n++
			}
		}
	}
	c.tracef("gc deleted=%d", n)
	return n
}

// ---------------------------------------------------------------- user

// EditEDS applies a user edit to spec/metadata (retrying on conflict like kubectl).
func (c *Cluster) EditEDS(ns, name string, f func(*edsv1.ExtendedDaemonSet)) error {
	for i := 0; i < 5; i++ {
		e := &edsv1.ExtendedDaemonSet{}
		if err := c.fake.Get(bg, keyOf(ns, name), e); err != nil {
			return err
		}
		f(e)
		err := c.fake.Update(bg, e)
		if err == nil {
			return nil
		}
	}
	return fmt.Errorf("sim: edit conflict")
}

// SetEDSAnnotation sets (or with value "-" removes) an annotation.
func (c *Cluster) SetEDSAnnotation(ns, name, key, value string) error {
	c.tracef("eds %s/%s annotation %s=%s", ns, name, key, value)
	return c.EditEDS(ns, name, func(e *edsv1.ExtendedDaemonSet) {
		if value == "-" {
			delete(e.Annotations, key)
			return
		}
		if e.Annotations == nil {
			e.Annotations = map[string]string{}
		}
		e.Annotations[key] = value
	})
}

// SortedKeys is a tiny helper for deterministic iteration.
func SortedKeys[V any](m map[string]V) []string {
	out := make([]string, 0, len(m))
	for k := range m {
		out = append(out, k)
	}
	sort.Strings(out)
	return out
}

// UserDeletePod is `kubectl delete pod`: graceful like any other deletion.
func (c *Cluster) UserDeletePod(ns, name string) {
	c.tracef("user deletes pod %s/%s", ns, name)
	_ = c.gracefulDeletePod(ns, name)
}

// MutateERS edits a replica set in place (raw write: spec, status and metadata).
func (c *Cluster) MutateERS(ns, name string, f func(*edsv1.ExtendedDaemonSetReplicaSet)) bool {
	rs := c.ERS(ns, name)
	if rs == nil {
		return false
	}
	f(rs)
	return c.rawUpdate(GVKERS, rs)
}

// MutateEDS edits an ExtendedDaemonSet in place (raw write incl. status).
func (c *Cluster) MutateEDS(ns, name string, f func(*edsv1.ExtendedDaemonSet)) bool {
	e := c.EDS(ns, name)
	if e == nil {
		return false
	}
	f(e)
	return c.rawUpdate(GVKEDS, e)
}

// MutateSetting edits a setting in place (raw write).
func (c *Cluster) MutateSetting(ns, name string, f func(*edsv1.ExtendedDaemonsetSetting)) bool {
	s := c.Setting(ns, name)
	if s == nil {
		return false
	}
	f(s)
	return c.rawUpdate(GVKSetting, s)
}

// DeleteERS removes a replica set object (user or GC).
func (c *Cluster) DeleteERS(ns, name string) {
	c.rawDelete(GVKERS, ns, name)
	c.tracef("ers delete %s/%s", ns, name)
}

// ForceRemovePod removes a pod object whatever its state (pod GC).
func (c *Cluster) ForceRemovePod(ns, name string) {
	c.rawDelete(GVKPod, ns, name)
	c.tracef("pod force-removed %s/%s", ns, name)
}

// DeleteSetting removes a setting object.
func (c *Cluster) DeleteSetting(ns, name string) { c.rawDelete(GVKSetting, ns, name) }
