// Package gen holds the rapid generators shared by the checks: pod templates,
// nodes, strategies. Construction, not rejection; only objects the API server
// would store.
package gen

import (
	"fmt"
	"time"

	corev1 "k8s.io/api/core/v1"
	"k8s.io/apimachinery/pkg/api/resource"
	metav1 "k8s.io/apimachinery/pkg/apis/meta/v1"
	"k8s.io/apimachinery/pkg/util/intstr"
	"pgregory.net/rapid"

	edsv1 "github.com/DataDog/extendeddaemonset/api/v1alpha1"
)

// Label grid of nodes.
var (
	LabelKeys = []string{"zone", "tier", "disk"}
	LabelVals = []string{"a", "b", "c"}
)

// TaintPool is what node taints are drawn from.
var TaintPool = []corev1.Taint{
	{Key: "node.kubernetes.io/unschedulable", Effect: corev1.TaintEffectNoSchedule},
	{Key: "node.kubernetes.io/not-ready", Effect: corev1.TaintEffectNoExecute},
	{Key: "node.kubernetes.io/not-ready", Effect: corev1.TaintEffectNoSchedule},
	{Key: "dedicated", Value: "gpu", Effect: corev1.TaintEffectNoSchedule},
	{Key: "dedicated", Value: "infra", Effect: corev1.TaintEffectNoExecute},
	{Key: "maint", Value: "", Effect: corev1.TaintEffectNoExecute},
	{Key: "soft", Value: "x", Effect: corev1.TaintEffectPreferNoSchedule},
}

// NodeLabels draws labels over the grid (+ an integer label for Gt/Lt).
func NodeLabels(t *rapid.T, name string) map[string]string {
	l := map[string]string{}
	for _, k := range LabelKeys {
		if rapid.IntRange(0, 3).Draw(t, name+"-has-"+k) > 0 {
			l[k] = rapid.SampledFrom(LabelVals).Draw(t, name+"-"+k)
		}
	}
	if rapid.IntRange(0, 2).Draw(t, name+"-has-rank") == 0 {
		l["rank"] = fmt.Sprintf("%d", rapid.IntRange(0, 9).Draw(t, name+"-rank"))
	}
	return l
}

// NodeTaints draws 0-2 taints, mostly none.
func NodeTaints(t *rapid.T, name string) []corev1.Taint {
	n := rapid.SampledFrom([]int{0, 0, 0, 1, 1, 2}).Draw(t, name+"-ntaints")
	var out []corev1.Taint
	for i := 0; i < n; i++ {
		out = append(out, rapid.SampledFrom(TaintPool).Draw(t, fmt.Sprintf("%s-taint%d", name, i)))
	}
	return out
}

// Toleration draws a valid toleration.
var fiveMinutes = int64(300)

func Toleration(t *rapid.T, name string) corev1.Toleration {
	pool := []corev1.Toleration{
		{Operator: corev1.TolerationOpExists},
		{Key: "dedicated", Operator: corev1.TolerationOpExists},
		{Key: "dedicated", Operator: corev1.TolerationOpEqual, Value: "gpu"},
		{Key: "dedicated", Operator: corev1.TolerationOpEqual, Value: "gpu", Effect: corev1.TaintEffectNoSchedule},
		{Key: "dedicated", Operator: corev1.TolerationOpEqual, Value: "infra", Effect: corev1.TaintEffectNoExecute},
		{Key: "dedicated", Operator: corev1.TolerationOpExists, Effect: corev1.TaintEffectNoExecute},
		{Key: "maint", Operator: corev1.TolerationOpExists},
		{Key: "maint", Operator: corev1.TolerationOpEqual, Value: ""},
		{Key: "node.kubernetes.io/not-ready", Operator: corev1.TolerationOpExists, Effect: corev1.TaintEffectNoSchedule},
		{Operator: corev1.TolerationOpExists, Effect: corev1.TaintEffectNoSchedule},
		// the time-bounded tolerations the DefaultTolerationSeconds admission plugin puts on pods (and that get copied
		// into templates): same key/operator/effect as a default DaemonSet toleration, but bounded
		{Key: "node.kubernetes.io/not-ready", Operator: corev1.TolerationOpExists, Effect: corev1.TaintEffectNoExecute, TolerationSeconds: &fiveMinutes},
		{Key: "node.kubernetes.io/unreachable", Operator: corev1.TolerationOpExists, Effect: corev1.TaintEffectNoExecute, TolerationSeconds: &fiveMinutes},
		// and one that repeats a default verbatim
		{Key: "node.kubernetes.io/disk-pressure", Operator: corev1.TolerationOpExists, Effect: corev1.TaintEffectNoSchedule},
	}
	return rapid.SampledFrom(pool).Draw(t, name)
}

// Requirement draws a valid node selector requirement over the label grid.
func Requirement(t *rapid.T, name string) corev1.NodeSelectorRequirement {
	// now and then a requirement the selector grammar rejects (templates are not validated by the API server):
	// the term that carries it matches no node
	if rapid.IntRange(0, 9).Draw(t, name+"-malformed") == 0 {
		return rapid.SampledFrom([]corev1.NodeSelectorRequirement{
			{Key: "zone", Operator: corev1.NodeSelectorOpIn},
			{Key: "zone", Operator: corev1.NodeSelectorOpNotIn},
			{Key: "zone", Operator: corev1.NodeSelectorOpExists, Values: []string{"a"}},
			{Key: "rank", Operator: corev1.NodeSelectorOpGt, Values: []string{"many"}},
			{Key: "rank", Operator: corev1.NodeSelectorOpLt, Values: []string{"1", "2"}},
			{Key: "zone", Operator: "Equals", Values: []string{"a"}},
		}).Draw(t, name+"-malformedKind")
	}
	op := rapid.SampledFrom([]corev1.NodeSelectorOperator{corev1.NodeSelectorOpIn, corev1.NodeSelectorOpNotIn, corev1.NodeSelectorOpExists, corev1.NodeSelectorOpDoesNotExist, corev1.NodeSelectorOpGt, corev1.NodeSelectorOpLt}).Draw(t, name+"-op")
	switch op {
	case corev1.NodeSelectorOpGt, corev1.NodeSelectorOpLt:
		return corev1.NodeSelectorRequirement{Key: "rank", Operator: op, Values: []string{fmt.Sprintf("%d", rapid.IntRange(0, 9).Draw(t, name+"-n"))}}
	case corev1.NodeSelectorOpExists, corev1.NodeSelectorOpDoesNotExist:
		return corev1.NodeSelectorRequirement{Key: rapid.SampledFrom(LabelKeys).Draw(t, name+"-k"), Operator: op}
	}
	vals := rapid.SliceOfNDistinct(rapid.SampledFrom(LabelVals), 1, 2, func(s string) string { return s }).Draw(t, name+"-v")
	return corev1.NodeSelectorRequirement{Key: rapid.SampledFrom(LabelKeys).Draw(t, name+"-k"), Operator: op, Values: vals}
}

// Affinity draws a required node affinity with 1-2 terms (or nil).
func Affinity(t *rapid.T, name string, nodeNames []string) *corev1.Affinity {
	switch rapid.IntRange(0, 5).Draw(t, name+"-kind") {
	case 0, 1, 2:
		return nil
	case 3:
		return &corev1.Affinity{} // no node affinity
	case 4:
		return &corev1.Affinity{NodeAffinity: &corev1.NodeAffinity{}} // no required block
	}
	nTerms := rapid.IntRange(1, 2).Draw(t, name+"-nterms")
	sel := &corev1.NodeSelector{}
	for i := 0; i < nTerms; i++ {
		term := corev1.NodeSelectorTerm{}
		ne := rapid.IntRange(0, 2).Draw(t, fmt.Sprintf("%s-t%d-nexpr", name, i))
		for j := 0; j < ne; j++ {
			term.MatchExpressions = append(term.MatchExpressions, Requirement(t, fmt.Sprintf("%s-t%d-e%d", name, i, j)))
		}
		if len(nodeNames) > 0 && rapid.IntRange(0, 3).Draw(t, fmt.Sprintf("%s-t%d-field", name, i)) == 0 {
			op := rapid.SampledFrom([]corev1.NodeSelectorOperator{corev1.NodeSelectorOpIn, corev1.NodeSelectorOpIn, corev1.NodeSelectorOpNotIn, corev1.NodeSelectorOpNotIn, corev1.NodeSelectorOpExists}).Draw(t, fmt.Sprintf("%s-t%d-fop", name, i))
			vals := []string{rapid.SampledFrom(nodeNames).Draw(t, fmt.Sprintf("%s-t%d-fv", name, i))}
			if rapid.IntRange(0, 5).Draw(t, fmt.Sprintf("%s-t%d-fmulti", name, i)) == 0 {
				vals = append(vals, "n9") // a field requirement with two values is not valid: the term matches nothing
			}
			term.MatchFields = []corev1.NodeSelectorRequirement{{Key: "metadata.name", Operator: op, Values: vals}}
		}
		sel.NodeSelectorTerms = append(sel.NodeSelectorTerms, term)
	}
	return &corev1.Affinity{NodeAffinity: &corev1.NodeAffinity{RequiredDuringSchedulingIgnoredDuringExecution: sel}}
}

func rl(cpu, mem string) corev1.ResourceList {
	l := corev1.ResourceList{}
	if cpu != "" {
		l[corev1.ResourceCPU] = resource.MustParse(cpu)
	}
	if mem != "" {
		l[corev1.ResourceMemory] = resource.MustParse(mem)
	}
	return l
}

// Resources draws container resource requirements.
func Resources(t *rapid.T, name string) corev1.ResourceRequirements {
	pool := []corev1.ResourceRequirements{
		{},
		{Requests: rl("100m", "")},
		{Requests: rl("100m", "64Mi"), Limits: rl("200m", "128Mi")},
		{Limits: rl("", "256Mi")},
		{Requests: rl("1", "1Gi"), Limits: rl("1", "1Gi")},
		{Requests: rl("0.1", "")}, // same quantity as 100m, different spelling
	}
	return rapid.SampledFrom(pool).Draw(t, name)
}

// RandomTemplate draws an arbitrary (valid) pod template: selectors, affinity,
// tolerations, 1-3 containers with resources.
func RandomTemplate(t *rapid.T, name string, nodeNames []string) corev1.PodTemplateSpec {
	tpl := corev1.PodTemplateSpec{}
	if rapid.IntRange(0, 2).Draw(t, name+"-has-labels") == 0 {
		tpl.Labels = map[string]string{"app": rapid.SampledFrom([]string{"agent", "x"}).Draw(t, name+"-app")}
	}
	// now and then the template carries keys the controller reserves for itself (metadata of a running pod
	// pasted back into the template): the controller's own values must win
	if rapid.IntRange(0, 4).Draw(t, name+"-reserved") == 0 {
		if tpl.Labels == nil {
			tpl.Labels = map[string]string{}
		}
		tpl.Labels["extendeddaemonset.datadoghq.com/name"] = "bar"
		tpl.Labels["extendeddaemonsetreplicaset.datadoghq.com/name"] = "bar-stale"
		tpl.Annotations = map[string]string{"extendeddaemonset.datadoghq.com/templatehash": "stale-hash", "note": "x"}
		// ... and the pasted metadata may name the namespace and the name prefix of the pod it was copied from (the CRD
		// schema accepts a full ObjectMeta there): pods still belong in their replica set's namespace, under its name
		tpl.Namespace, tpl.GenerateName = "ns2", "pasted-"
	}
	if rapid.IntRange(0, 2).Draw(t, name+"-has-sel") == 0 {
		tpl.Spec.NodeSelector = map[string]string{rapid.SampledFrom(LabelKeys).Draw(t, name+"-selk"): rapid.SampledFrom(LabelVals).Draw(t, name+"-selv")}
	}
	tpl.Spec.Affinity = Affinity(t, name+"-aff", nodeNames)
	nt := rapid.SampledFrom([]int{0, 0, 1, 2}).Draw(t, name+"-ntol")
	for i := 0; i < nt; i++ {
		tpl.Spec.Tolerations = append(tpl.Spec.Tolerations, Toleration(t, fmt.Sprintf("%s-tol%d", name, i)))
	}
	nc := rapid.IntRange(1, 3).Draw(t, name+"-ncont")
	for i := 0; i < nc; i++ {
		tpl.Spec.Containers = append(tpl.Spec.Containers, corev1.Container{
			Name:      fmt.Sprintf("c%d", i),
			Image:     rapid.SampledFrom([]string{"img:1", "img:2", "img:3"}).Draw(t, fmt.Sprintf("%s-img%d", name, i)),
			Resources: Resources(t, fmt.Sprintf("%s-res%d", name, i)),
		})
	}
	return tpl
}

// Letters of the template alphabet used by the state machines.
const Letters = "ABCDEFG"

// LetterTemplate: a small alphabet of templates. A-C differ in image/env (the
// common case); D-G change node eligibility.
func LetterTemplate(letter byte) corev1.PodTemplateSpec {
	c := corev1.Container{Name: "agent", Image: "img:" + string(letter)}
	tpl := corev1.PodTemplateSpec{ObjectMeta: metav1.ObjectMeta{Labels: map[string]string{"app": "agent"}}, Spec: corev1.PodSpec{Containers: []corev1.Container{c}}}
	switch letter {
	case 'B':
		// the pod template's own metadata differs too (labels and annotations are part of the template)
		tpl.Labels["rev"] = "b"
		tpl.Annotations = map[string]string{"checksum/config": "b1"}
	case 'C':
		// this template also carries keys the controller reserves for itself (as happens when a running pod's
		// metadata is pasted back into the template): the controller's own values must win on the pods it creates
		tpl.Labels["extendeddaemonset.datadoghq.com/name"] = "bar"
		tpl.Labels["extendeddaemonsetreplicaset.datadoghq.com/name"] = "bar-stale"
		tpl.Annotations = map[string]string{"checksum/config": "c1", "note": "c", "extendeddaemonset.datadoghq.com/templatehash": "stale-hash"}
		tpl.Namespace, tpl.GenerateName = "ns2", "pasted-"
		tpl.Spec.Containers[0].Env = []corev1.EnvVar{{Name: "X", Value: "1"}}
		tpl.Spec.Containers = append(tpl.Spec.Containers, corev1.Container{Name: "side", Image: "side:1"})
	case 'D':
		tpl.Spec.NodeSelector = map[string]string{"zone": "a"}
	case 'E':
		tpl.Spec.Affinity = &corev1.Affinity{NodeAffinity: &corev1.NodeAffinity{RequiredDuringSchedulingIgnoredDuringExecution: &corev1.NodeSelector{NodeSelectorTerms: []corev1.NodeSelectorTerm{
			{MatchExpressions: []corev1.NodeSelectorRequirement{{Key: "zone", Operator: corev1.NodeSelectorOpIn, Values: []string{"a", "b"}}}},
			{MatchExpressions: []corev1.NodeSelectorRequirement{{Key: "tier", Operator: corev1.NodeSelectorOpExists}}},
		}}}}
	case 'F':
		tpl.Spec.Tolerations = []corev1.Toleration{{Key: "dedicated", Operator: corev1.TolerationOpExists}}
	case 'I', 'J':
		// two templates that differ only in the ORDER of a keyed list (env): order matters to the pods
		// ($(HOST_IP) only expands against variables declared earlier), so they are different templates
		env := []corev1.EnvVar{{Name: "HOST_IP", Value: "10.0.0.1"}, {Name: "AGENT_URL", Value: "http://$(HOST_IP):8126"}}
		if letter == 'J' {
			env[0], env[1] = env[1], env[0]
		}
		tpl.Spec.Containers[0].Image = "img:I"
		tpl.Spec.Containers[0].Env = env
	case 'H':
		// the template itself carries a matchFields requirement on the node name (an exclusion): pods bound by
		// spec.nodeName keep it, pods pinned by affinity get it replaced by the controller
		tpl.Spec.Affinity = &corev1.Affinity{NodeAffinity: &corev1.NodeAffinity{RequiredDuringSchedulingIgnoredDuringExecution: &corev1.NodeSelector{NodeSelectorTerms: []corev1.NodeSelectorTerm{
			{MatchFields: []corev1.NodeSelectorRequirement{{Key: "metadata.name", Operator: corev1.NodeSelectorOpNotIn, Values: []string{"n2"}}}},
		}}}}
	case 'G':
		tpl.Spec.Affinity = &corev1.Affinity{NodeAffinity: &corev1.NodeAffinity{RequiredDuringSchedulingIgnoredDuringExecution: &corev1.NodeSelector{NodeSelectorTerms: []corev1.NodeSelectorTerm{
			{MatchExpressions: []corev1.NodeSelectorRequirement{{Key: "zone", Operator: corev1.NodeSelectorOpNotIn, Values: []string{"c"}}}},
		}}}}
	}
	return tpl
}

func d(x time.Duration) *metav1.Duration { return &metav1.Duration{Duration: x} }

func ios(s string) *intstr.IntOrString { v := intstr.FromString(s); return &v }
func ioi(i int) *intstr.IntOrString    { v := intstr.FromInt(i); return &v }

// IntOrPercent draws from a list of spellings ("3" or "30%").
func IntOrPercent(t *rapid.T, name string, pool []string) *intstr.IntOrString {
	s := rapid.SampledFrom(pool).Draw(t, name)
	if len(s) > 0 && s[len(s)-1] == '%' {
		return ios(s)
	}
	var n int
	fmt.Sscanf(s, "%d", &n)
	return ioi(n)
}

// StrategyOpts tunes the convergent strategy generator.
type StrategyOpts struct {
	Canary        int  // 0 never, 1 maybe, 2 always
	NoPercentRepl bool // exclude percent canary replicas (known-finding exclusion switch)
	FastRamp      bool // bias towards strategies that converge in few rounds
}

// ConvergentStrategy draws from the sub-lattice in which a rollout can make progress.
func ConvergentStrategy(t *rapid.T, o StrategyOpts) edsv1.ExtendedDaemonSetSpecStrategy {
	s := edsv1.ExtendedDaemonSetSpecStrategy{}
	s.RollingUpdate.MaxUnavailable = IntOrPercent(t, "maxUnavailable", []string{"1", "2", "3", "30%", "50%", "100%"})
	s.RollingUpdate.MaxPodSchedulerFailure = IntOrPercent(t, "maxPodSchedulerFailure", []string{"0", "0", "1", "20%"})
	s.RollingUpdate.SlowStartAdditiveIncrease = IntOrPercent(t, "slowStartAdditiveIncrease", []string{"1", "2", "5", "50%"})
	iv := []time.Duration{time.Second, 10 * time.Second, time.Minute}
	if o.FastRamp {
		iv = []time.Duration{time.Second, 5 * time.Second}
	}
	s.RollingUpdate.SlowStartIntervalDuration = d(rapid.SampledFrom(iv).Draw(t, "slowStartInterval"))
	mp := rapid.SampledFrom([]int32{1, 3, 250}).Draw(t, "maxParallelPodCreation")
	s.RollingUpdate.MaxParallelPodCreation = &mp
	s.ReconcileFrequency = d(rapid.SampledFrom([]time.Duration{time.Second, 10 * time.Second}).Draw(t, "reconcileFrequency"))
	withCanary := o.Canary == 2 || (o.Canary == 1 && rapid.Bool().Draw(t, "withCanary"))
	if withCanary {
		s.Canary = Canary(t, o)
	}
	return s
}

// Canary draws a canary block that passes validation.
func Canary(t *rapid.T, o StrategyOpts) *edsv1.ExtendedDaemonSetSpecStrategyCanary {
	c := &edsv1.ExtendedDaemonSetSpecStrategyCanary{}
	pool := []string{"1", "1", "2", "3", "30%", "50%"}
	if o.NoPercentRepl {
		pool = []string{"1", "1", "2", "3"}
	}
	c.Replicas = IntOrPercent(t, "canaryReplicas", pool)
	manual := rapid.IntRange(0, 3).Draw(t, "canaryManual") == 0
	if manual {
		c.ValidationMode = edsv1.ExtendedDaemonSetSpecStrategyCanaryValidationModeManual
	} else {
		c.ValidationMode = edsv1.ExtendedDaemonSetSpecStrategyCanaryValidationModeAuto
		c.Duration = d(rapid.SampledFrom([]time.Duration{30 * time.Second, 2 * time.Minute, 10 * time.Minute}).Draw(t, "canaryDuration"))
		switch rapid.IntRange(0, 2).Draw(t, "noRestartsKind") {
		case 1:
			c.NoRestartsDuration = d(0)
		case 2:
			c.NoRestartsDuration = d(rapid.SampledFrom([]time.Duration{20 * time.Second, time.Minute}).Draw(t, "noRestartsDuration"))
		}
	}
	pe := rapid.IntRange(0, 3).Draw(t, "autoPauseEnabled") != 0
	fe := rapid.IntRange(0, 3).Draw(t, "autoFailEnabled") != 0
	pm := rapid.Int32Range(0, 2).Draw(t, "autoPauseMaxRestarts")
	fm := pm + rapid.Int32Range(0, 3).Draw(t, "autoFailMaxRestartsDelta")
	c.AutoPause = &edsv1.ExtendedDaemonSetSpecStrategyCanaryAutoPause{Enabled: &pe, MaxRestarts: &pm}
	c.AutoFail = &edsv1.ExtendedDaemonSetSpecStrategyCanaryAutoFail{Enabled: &fe, MaxRestarts: &fm}
	if rapid.IntRange(0, 2).Draw(t, "hasMaxSlowStart") == 0 {
		c.AutoPause.MaxSlowStartDuration = d(rapid.SampledFrom([]time.Duration{10 * time.Second, time.Minute}).Draw(t, "maxSlowStart"))
	}
	if rapid.IntRange(0, 2).Draw(t, "hasMaxRestartsDuration") == 0 {
		c.AutoFail.MaxRestartsDuration = d(rapid.SampledFrom([]time.Duration{10 * time.Second, time.Minute}).Draw(t, "maxRestartsDuration"))
	}
	if !manual && rapid.IntRange(0, 3).Draw(t, "hasCanaryTimeout") == 0 {
		c.AutoFail.CanaryTimeout = d(c.Duration.Duration + rapid.SampledFrom([]time.Duration{time.Second, time.Minute}).Draw(t, "canaryTimeoutExtra"))
	}
	return c
}

// ParseIntOrPercent turns "3" or "30%" (or any other string, kept as is) into an IntOrString.
func ParseIntOrPercent(s string) *intstr.IntOrString {
	var n int
	if _, err := fmt.Sscanf(s, "%d", &n); err == nil && fmt.Sprintf("%d", n) == s {
		return ioi(n)
	}
	return ios(s)
}
