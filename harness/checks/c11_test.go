package checks

import (
	"encoding/json"
	"fmt"
	"sort"
	"strings"
	"testing"
	"time"

	autoscalingv1 "k8s.io/api/autoscaling/v1"
	corev1 "k8s.io/api/core/v1"
	"k8s.io/apimachinery/pkg/api/resource"
	metav1 "k8s.io/apimachinery/pkg/apis/meta/v1"
	"k8s.io/apimachinery/pkg/util/intstr"
	"pgregory.net/rapid"

	edsv1 "github.com/DataDog/extendeddaemonset/api/v1alpha1"
	"verifharness/evid"
	"verifharness/gen"
	"verifharness/mon"
	"verifharness/oracle"
	"verifharness/sim"
)

// scnCfg is everything a scenario run depends on (drawn once, replayed many times).
type scnCfg struct {
	Scenario string
	Nodes    int
	Affinity bool
	MaxUnav  string
	Increase string
	Parallel int32
	Replicas string
	FailBy   string // failure scenario: "command" or "restarts" or "timeout"
	// Restarts: before the template changes, the daemon pods of the first nodes have restarted (most on n1):
	// the canary node choice then depends on the pod list the selection reads
	Restarts bool
}

func (c scnCfg) String() string { b, _ := json.Marshal(c); return string(b) }

var scenarios = []string{"first-deployment", "rolling-update", "canary-start", "promotion-validate", "promotion-auto", "failure-rollback", "node-removal", "settings-change", "migration", "pause-unpause-validate"}

func scnDraw(rt *rapid.T, scenario string) scnCfg {
	return scnCfg{Scenario: scenario, Nodes: rapid.IntRange(2, 4).Draw(rt, "nodes"), Affinity: rapid.Bool().Draw(rt, "affinity"),
		MaxUnav:  rapid.SampledFrom([]string{"1", "2", "50%"}).Draw(rt, "maxUnavailable"),
		Increase: rapid.SampledFrom([]string{"1", "2", "50%"}).Draw(rt, "increase"),
		Parallel: rapid.SampledFrom([]int32{1, 3, 250}).Draw(rt, "parallel"),
		// percent replicas are excluded by construction here: the recorded finding C15/canary-list-growth/percent-base-inflated
		// makes the size of a percent canary depend on the reconcile order, which would make the two runs incomparable
		Replicas: rapid.SampledFrom([]string{"1", "2"}).Draw(rt, "replicas"),
		FailBy:   rapid.SampledFrom([]string{"command", "restarts", "timeout"}).Draw(rt, "failBy"), Restarts: rapid.Bool().Draw(rt, "restartHistory")}
}

// scnWorld builds the world of a scenario (no draws: everything comes from cfg).
func scnWorld(rec *evid.Rec, cfg scnCfg, monitors mon.Set) *World {
	w := &World{rec: rec, cfg: WorldCfg{Monitors: monitors, Property: "C11"}, H: mon.NewHistory(), RSSeen: map[string]bool{}, RolesSynced: map[string]bool{}, Facts: map[string]int{}, lastSyncAt: map[string]time.Time{}, Det: true, RetryFaulted: true}
	w.C = sim.New(sim.Options{AffinityMode: cfg.Affinity})
	for i := 0; i < cfg.Nodes; i++ {
		w.C.AddNode(fmt.Sprintf("n%d", i+1), map[string]string{"zone": gen.LabelVals[i%3], "tier": "a"}, nil)
	}
	st := edsv1.ExtendedDaemonSetSpecStrategy{}
	st.RollingUpdate.MaxUnavailable = gen.ParseIntOrPercent(cfg.MaxUnav)
	st.RollingUpdate.SlowStartAdditiveIncrease = gen.ParseIntOrPercent(cfg.Increase)
	st.RollingUpdate.SlowStartIntervalDuration = &metav1.Duration{Duration: 5 * time.Second}
	st.RollingUpdate.MaxParallelPodCreation = &cfg.Parallel
	switch cfg.Scenario {
	case "canary-start", "promotion-validate", "failure-rollback", "pause-unpause-validate":
		pe, fe := true, true
		pm, fm := int32(1), int32(2)
		cn := &edsv1.ExtendedDaemonSetSpecStrategyCanary{Replicas: gen.ParseIntOrPercent(cfg.Replicas), ValidationMode: edsv1.ExtendedDaemonSetSpecStrategyCanaryValidationModeManual,
			AutoPause: &edsv1.ExtendedDaemonSetSpecStrategyCanaryAutoPause{Enabled: &pe, MaxRestarts: &pm}, AutoFail: &edsv1.ExtendedDaemonSetSpecStrategyCanaryAutoFail{Enabled: &fe, MaxRestarts: &fm}}
		if cfg.Scenario == "failure-rollback" && cfg.FailBy == "timeout" {
			cn.ValidationMode = edsv1.ExtendedDaemonSetSpecStrategyCanaryValidationModeAuto
			cn.Duration = &metav1.Duration{Duration: 30 * time.Minute}
			cn.AutoFail.CanaryTimeout = &metav1.Duration{Duration: 31 * time.Minute}
		}
		st.Canary = cn
	case "promotion-auto":
		one := intstr.FromInt(1)
		st.Canary = &edsv1.ExtendedDaemonSetSpecStrategyCanary{Replicas: &one, ValidationMode: edsv1.ExtendedDaemonSetSpecStrategyCanaryValidationModeAuto,
			Duration: &metav1.Duration{Duration: 40 * time.Second}, NoRestartsDuration: &metav1.Duration{}}
	}
	var ann map[string]string
	if cfg.Scenario == "migration" {
		ann = map[string]string{oracle.AnnOldDaemonset: "old-ds"}
	}
	e := &edsv1.ExtendedDaemonSet{ObjectMeta: metav1.ObjectMeta{Namespace: "ns1", Name: "foo", Annotations: ann}, Spec: edsv1.ExtendedDaemonSetSpec{Template: gen.LetterTemplate('A'), Strategy: st}}
	w.C.Add(e)
	w.EDS = append(w.EDS, sim.KeyOf("ns1", "foo"))
	if cfg.Scenario == "migration" {
		p := &Prep{C: w.C, NS: "ns1", Name: "foo", RS: map[byte]string{}}
		p.addOldDaemonSet()
		for i := 0; i < cfg.Nodes; i++ {
			p.addPod(fmt.Sprintf("n%d", i+1), 0, PSAvailable, 0)
		}
	}
	return w
}

// scnScript plays the scenario. stop() is consulted between actions (a monitor fired).
func scnScript(w *World, cfg scnCfg, stop func() bool) (milestones bool) {
	milestones = true
	rounds := func(n int) {
		for i := 0; i < n && !stop(); i++ {
			w.fairRound(cfg.Scenario)
		}
	}
	k := w.EDS[0]
	// the user acts on what they see: wait (bounded) for a milestone instead of a fixed number of rounds,
	// so that a fault that delays the controller does not change what the user does
	waitFor := func(cond func() bool, max int) {
		for i := 0; i < max && !stop() && !cond(); i++ {
			w.fairRound(cfg.Scenario + " (waiting)")
		}
		if !cond() {
			milestones = false // the user never saw the state they were waiting for: the rest of the script is moot
		}
	}
	deployed := func() bool {
		e := w.C.EDS(k.Namespace, k.Name)
		if e == nil || e.Status.ActiveReplicaSet == "" {
			return false
		}
		n := 0
		for _, p := range w.C.Pods() {
			if p.Labels[oracle.LabelRSName] == e.Status.ActiveReplicaSet && oracle.IsReady(p) {
				n++
			}
		}
		return n == len(w.C.Nodes())
	}
	canaryUp := func() bool {
		e := w.C.EDS(k.Namespace, k.Name)
		if e == nil || e.Status.Canary == nil || len(e.Status.Canary.Nodes) == 0 {
			return false
		}
		n := 0
		for _, p := range w.C.Pods() {
			if p.Labels[oracle.LabelRSName] == e.Status.Canary.ReplicaSet && oracle.IsReady(p) && p.Labels[oracle.LabelCanary] == "true" {
				n++
			}
		}
		return n == len(e.Status.Canary.Nodes)
	}
	restartHistory := func() {
		if !cfg.Restarts {
			return
		}
		for _, p := range w.C.Pods() {
			var i int
			if _, err := fmt.Sscanf(oracle.NodeOf(p), "n%d", &i); err != nil || i >= cfg.Nodes {
				continue // the last node's pod never restarted
			}
			for j := 0; j < cfg.Nodes-i+1; j++ {
				w.C.Restart(p.Namespace, p.Name, 0, "Error")
			}
		}
	}
	switch cfg.Scenario {
	case "first-deployment", "migration":
		rounds(7)
	case "rolling-update":
		waitFor(deployed, 25)
		w.editTemplate(k, 'B')
		rounds(7)
	case "canary-start":
		waitFor(deployed, 25)
		restartHistory()
		w.editTemplate(k, 'B')
		rounds(5)
	case "promotion-validate":
		waitFor(deployed, 25)
		restartHistory()
		w.editTemplate(k, 'B')
		waitFor(canaryUp, 25)
		if e := w.C.EDS(k.Namespace, k.Name); e != nil && e.Status.Canary != nil {
			_ = w.C.SetEDSAnnotation(k.Namespace, k.Name, oracle.AnnCanaryValid, e.Status.Canary.ReplicaSet)
		} else {
			// the canary has not started yet (a fault delayed it): validate the matching set by name once it exists
			for _, rs := range w.rsOf(k) {
				if e != nil && oracle.RSMatchesTemplate(rs, &e.Spec.Template) && rs.Name != e.Status.ActiveReplicaSet {
					_ = w.C.SetEDSAnnotation(k.Namespace, k.Name, oracle.AnnCanaryValid, rs.Name)
				}
			}
		}
		rounds(8)
	case "pause-unpause-validate":
		// the user pauses and unpauses the canary (as kubectl-eds does: both annotations each time) before validating it;
		// the controller removes these annotations when the canary ends
		waitFor(deployed, 25)
		restartHistory()
		w.editTemplate(k, 'B')
		waitFor(canaryUp, 25)
		_ = w.C.SetEDSAnnotation(k.Namespace, k.Name, oracle.AnnCanaryPaused, "true")
		_ = w.C.SetEDSAnnotation(k.Namespace, k.Name, oracle.AnnCanaryUnpaused, "false")
		rounds(2)
		_ = w.C.SetEDSAnnotation(k.Namespace, k.Name, oracle.AnnCanaryPaused, "false")
		_ = w.C.SetEDSAnnotation(k.Namespace, k.Name, oracle.AnnCanaryUnpaused, "true")
		rounds(2)
		if e := w.C.EDS(k.Namespace, k.Name); e != nil && e.Status.Canary != nil {
			_ = w.C.SetEDSAnnotation(k.Namespace, k.Name, oracle.AnnCanaryValid, e.Status.Canary.ReplicaSet)
		} else {
			milestones = false
		}
		rounds(8)
	case "promotion-auto":
		waitFor(deployed, 25)
		restartHistory()
		w.editTemplate(k, 'B')
		rounds(12)
	case "failure-rollback":
		waitFor(deployed, 25)
		restartHistory()
		w.editTemplate(k, 'B')
		waitFor(canaryUp, 25)
		e := w.C.EDS(k.Namespace, k.Name)
		crs := ""
		for _, rs := range w.rsOf(k) {
			if e != nil && oracle.RSMatchesTemplate(rs, &e.Spec.Template) && rs.Name != e.Status.ActiveReplicaSet {
				crs = rs.Name
			}
		}
		switch cfg.FailBy {
		case "command":
			if crs != "" {
				w.C.Tracef("user fails canary %s", crs)
				w.C.MutateERS(k.Namespace, crs, func(rs *edsv1.ExtendedDaemonSetReplicaSet) {
					now := metav1.NewTime(w.C.Now())
					if c := oracle.RSCond(&rs.Status, edsv1.ConditionTypeCanaryFailed); c != nil {
						c.Status, c.LastTransitionTime, c.LastUpdateTime = corev1.ConditionTrue, now, now
					} else {
						rs.Status.Conditions = append(rs.Status.Conditions, edsv1.ExtendedDaemonSetReplicaSetCondition{Type: edsv1.ConditionTypeCanaryFailed, Status: corev1.ConditionTrue, LastTransitionTime: now, LastUpdateTime: now, Reason: "Manually failed"})
					}
				})
			}
		case "restarts":
			for _, p := range w.C.Pods() {
				if p.Labels[oracle.LabelRSName] == crs && crs != "" {
					for i := 0; i < 4; i++ {
						w.C.Restart(p.Namespace, p.Name, 0, "Error")
					}
				}
			}
		case "timeout":
			// the timeout lies behind the canary duration (validation demands it), so a canary that is not paused
			// may just as well be promoted by elapsed time first - both are right. The user pauses it, then time passes.
			_ = w.C.SetEDSAnnotation(k.Namespace, k.Name, oracle.AnnCanaryPaused, "true")
			rounds(2)
			w.C.Advance(32 * time.Minute)
		}
		rounds(6)
		w.C.Advance(3 * time.Minute) // retention of the failed replica set
		rounds(5)
	case "node-removal":
		waitFor(deployed, 25)
		w.C.RemoveNode("n1")
		w.C.MutateNode("n2", func(n *corev1.Node) {
			n.Spec.Taints = append(n.Spec.Taints, corev1.Taint{Key: "dedicated", Value: "gpu", Effect: corev1.TaintEffectNoSchedule})
		})
		w.C.Tracef("node n2 tainted dedicated=gpu:NoSchedule")
		rounds(6)
	case "settings-change":
		waitFor(deployed, 25)
		s := &edsv1.ExtendedDaemonsetSetting{ObjectMeta: metav1.ObjectMeta{Namespace: "ns1", Name: "big"}, Spec: edsv1.ExtendedDaemonsetSettingSpec{
			Reference: &autoscalingv1.CrossVersionObjectReference{Kind: "ExtendedDaemonset", Name: "foo"}, NodeSelector: metav1.LabelSelector{MatchLabels: map[string]string{"zone": "a"}},
			Containers: []edsv1.ExtendedDaemonsetSettingContainerSpec{{Name: "agent", Resources: corev1.ResourceRequirements{Requests: corev1.ResourceList{corev1.ResourceCPU: resource.MustParse("300m")}}}}}}
		w.C.Add(s)
		w.C.Tracef("setting ns1/big created (zone=a, cpu 300m)")
		rounds(8)
	}
	return milestones
}

// settle: failure-free rounds until nothing is created or deleted for three rounds.
func scnSettle(w *World, stop func() bool) int {
	quiet, n := 0, 0
	for quiet < 3 && n < 30 && !stop() {
		n++
		first := len(w.C.Calls)
		w.fairRound("settle")
		busy := false
		for _, c := range w.C.Calls[first:] {
			if (c.Kind == "Pod" || c.Kind == "ExtendedDaemonSetReplicaSet") && (c.Verb == "create" || c.Verb == "delete") {
				busy = true
			}
		}
		if busy {
			quiet = 0
		} else {
			quiet++
		}
	}
	return n
}

// canon renders the final state modulo generated names and timestamps.
func canon(w *World) string {
	var b strings.Builder
	for _, k := range w.EDS {
		e := w.C.EDS(k.Namespace, k.Name)
		if e == nil {
			continue
		}
		hashOf := func(rsName string) string {
			if rs := w.C.ERS(k.Namespace, rsName); rs != nil {
				return rs.Spec.TemplateGeneration[:6]
			}
			return "<none>"
		}
		fmt.Fprintf(&b, "eds %s spec=%s active=%s state=%q desired=%d current=%d ready=%d available=%d upToDate=%d", k, oracle.TemplateHash(&e.Spec.Template)[:6], hashOf(e.Status.ActiveReplicaSet), e.Status.State, e.Status.Desired, e.Status.Current, e.Status.Ready, e.Status.Available, e.Status.UpToDate)
		if e.Status.Canary != nil {
			nodes := append([]string(nil), e.Status.Canary.Nodes...)
			sort.Strings(nodes)
			fmt.Fprintf(&b, " canary=%s%v", hashOf(e.Status.Canary.ReplicaSet), nodes)
		}
		var anns []string
		for ak, av := range e.Annotations {
			if strings.Contains(ak, "canary-valid") {
				av = hashOf(av)
			}
			anns = append(anns, ak[strings.LastIndex(ak, "/")+1:]+"="+av)
		}
		sort.Strings(anns)
		fmt.Fprintf(&b, " ann=%v\n", anns)
		var rss []string
		for _, rs := range w.rsOf(k) {
			rss = append(rss, fmt.Sprintf("rs %s desired=%d current=%d ready=%d failed=%v", rs.Spec.TemplateGeneration[:6], rs.Status.Desired, rs.Status.Current, rs.Status.Ready, oracle.RSCondTrue(&rs.Status, edsv1.ConditionTypeCanaryFailed)))
		}
		sort.Strings(rss)
		b.WriteString(strings.Join(rss, "\n") + "\n")
	}
	var pods []string
	for _, p := range w.C.Pods() {
		setting := p.Labels[oracle.LabelSettingName]
		cpu := ""
		if len(p.Spec.Containers) > 0 {
			if q, ok := p.Spec.Containers[0].Resources.Requests[corev1.ResourceCPU]; ok {
				cpu = q.String()
			}
		}
		h := p.Annotations[oracle.AnnTemplateHash]
		if len(h) > 6 {
			h = h[:6]
		}
		pods = append(pods, fmt.Sprintf("pod@%s hash=%s ready=%v terminating=%v canaryLabel=%q setting=%q cpu=%s", oracle.NodeOf(p), h, oracle.IsReady(p), p.DeletionTimestamp != nil, p.Labels[oracle.LabelCanary], setting, cpu))
	}
	sort.Strings(pods)
	b.WriteString(strings.Join(pods, "\n"))
	return b.String()
}

var controllerActors = map[string]bool{sim.ActorEDS: true, sim.ActorERS: true, sim.ActorPodTemplate: true, sim.ActorSetting: true}

// safety monitors of C11: one pod per node, availability budget, canary confinement, promotion rule, ownership
var c11Monitors = mon.Of("create-eligible", "create-once", "unknown-untouched", "budget", "canary-confinement", "canary-list-growth", "promotion-rule", "ownership", "rs-gc", "no-panic")

type scnResult struct {
	Calls        int
	WriteIdx     []int // indices (1-based, among controller calls) that are writes
	Final        string
	Viol         []mon.V
	SettleN      int
	Trace        []string
	FaultOnWrite bool
	FaultCall    string
	Milestones   bool
}

// scnRun plays one scenario with an optional fault plan: faults[k] = kind for the k-th controller call.
func scnRun(rec *evid.Rec, cfg scnCfg, faults map[int]sim.FaultKind) *scnResult {
	res := &scnResult{}
	w := scnWorld(rec, cfg, c11Monitors)
	w.OnViolation = func(vs []mon.V) { res.Viol = append(res.Viol, vs...) }
	n := 0
	scriptDone := false
	w.C.Faults = func(call *sim.Call) sim.FaultKind {
		if !controllerActors[call.Actor] || scriptDone {
			return sim.FaultNone
		}
		n++
		if call.Write {
			res.WriteIdx = append(res.WriteIdx, n)
		}
		if k, ok := faults[n]; ok {
			if call.Write {
				res.FaultOnWrite = true
			}
			res.FaultCall = call.String()
			w.C.Tracef("FAULT %s at controller call %d: %s %s %s/%s", k, n, call.Verb, call.Kind, call.NS, call.Name)
			return k
		}
		return sim.FaultNone
	}
	stop := func() bool { return len(res.Viol) > 0 }
	res.Milestones = scnScript(w, cfg, stop)
	scriptDone = true
	res.Calls = n
	// no controller restart here: a process that was stopped has already been replaced (sim.Reconcile does that);
	// after a merely rejected or unanswered call the same instances carry on, in-memory state included
	res.SettleN = scnSettle(w, stop)
	res.Final = canon(w)
	res.Trace = w.C.Trace
	return res
}

func faultKinds() []sim.FaultKind {
	return []sim.FaultKind{sim.FaultReject, sim.FaultRejectTyped, sim.FaultLostAnswer, sim.FaultLostAnswerTyped, sim.FaultCrashBefore, sim.FaultCrashAfter}
}

// c11Judge compares a faulted run with the failure-free one.
func c11Judge(rec *evid.Rec, f fataler, cfg scnCfg, base, got *scnResult, plan string) {
	var vs []mon.V
	vs = append(vs, got.Viol...)
	if !got.Milestones {
		rec.Class("milestone-missed-in-faulted-run(not-compared)", 1)
	}
	if len(got.Viol) == 0 && got.Milestones && base.Milestones && got.Final != base.Final {
		vs = append(vs, mon.V{Property: "C11", Monitor: "recovery", Sig: "C11/recovery/final-state-differs/" + cfg.Scenario, Detail: fmt.Sprintf("scenario %s with %s (%s): after failure-free settling the final pods/status differ from the failure-free run\n--- failure-free ---\n%s\n--- with fault ---\n%s", cfg.Scenario, plan, got.FaultCall, base.Final, got.Final)})
	}
	for i := range vs {
		if vs[i].Property != "C11" {
			vs[i].Detail = fmt.Sprintf("[scenario %s, %s at %s] ", cfg.Scenario, plan, got.FaultCall) + vs[i].Detail
			vs[i].Sig = "C11/safety/" + vs[i].Sig
			vs[i].Property = "C11"
		}
	}
	settle(f, rec, vs, map[string]interface{}{"config": cfg, "faults": plan, "trace": got.Trace}, len(got.Trace), "config: "+cfg.String()+" faults: "+plan+"\n--- trace ---\n"+strings.Join(got.Trace, "\n"))
}

// TestC11Sampled: generated scenario configuration, failure-free run, then sampled single faults and pairs.
func TestC11Sampled(t *testing.T) {
	rec := evid.New("TestC11Sampled", "C11", "scenario of the corpus (first deployment, rolling update, canary start, promotion by validation and by time, failure and rollback by command / restart storm / timeout, node removal and taint, settings change, migration from a DaemonSet, pause + unpause + validation) with generated size and strategy; failure-free run records K controller API calls (reads included); then faulted re-runs with kind in {rejected with a generic error, rejected with the API status error typical for the verb (AlreadyExists / Conflict / TooManyRequests / ServerTimeout), applied-but-answer-lost, process stop before the call, process stop after the call} at sampled positions (and sampled pairs), controllers rebuilt after a stop, followed by failure-free fair rounds; oracle: every safety monitor after every step and final canonical state (pods per node with hash/readiness, status, replica sets) equal to the failure-free run; non-trivial = the fault hit a write; distinct by (config, position, kind)")
	t.Cleanup(func() {
		if !t.Failed() {
			rec.Done()
		}
	})
	perCase := 10
	if thorough() {
		perCase = 40
	}
	rapid.Check(t, func(rt *rapid.T) {
		cfg := scnDraw(rt, rapid.SampledFrom(scenarios).Draw(rt, "scenario"))
		base := scnRun(rec, cfg, nil)
		if len(base.Viol) > 0 {
			c11Judge(rec, rt, cfg, base, base, "no fault")
			return
		}
		rec.Class("scenario-"+cfg.Scenario, 1)
		for i := 0; i < perCase; i++ {
			k := rapid.IntRange(1, base.Calls).Draw(rt, fmt.Sprintf("pos%d", i))
			if rapid.IntRange(0, 3).Draw(rt, fmt.Sprintf("preferWrite%d", i)) != 0 && len(base.WriteIdx) > 0 {
				k = base.WriteIdx[rapid.IntRange(0, len(base.WriteIdx)-1).Draw(rt, fmt.Sprintf("w%d", i))]
			}
			kind := rapid.SampledFrom(faultKinds()).Draw(rt, fmt.Sprintf("kind%d", i))
			plan := map[int]sim.FaultKind{k: kind}
			desc := fmt.Sprintf("%s@%d", kind, k)
			if rapid.IntRange(0, 4).Draw(rt, fmt.Sprintf("pair%d", i)) == 0 {
				k2 := rapid.IntRange(1, base.Calls).Draw(rt, fmt.Sprintf("pos%db", i))
				kind2 := rapid.SampledFrom(faultKinds()).Draw(rt, fmt.Sprintf("kind%db", i))
				plan[k2] = kind2
				desc += fmt.Sprintf("+%s@%d", kind2, k2)
			}
			got := scnRun(rec, cfg, plan)
			rec.Case(got.FaultOnWrite, evid.FP(cfg.String(), desc), "kind-"+kind.String())
			rec.Steps(1)
			if got.FaultOnWrite && rec.WantSample() {
				rec.Sample(map[string]interface{}{"config": cfg, "fault": desc, "call": got.FaultCall, "controller_calls_failure_free": base.Calls, "settle_rounds": got.SettleN})
			}
			c11Judge(rec, rt, cfg, base, got, desc)
		}
	})
}

// TestC11Exhaustive: for one fixed configuration per scenario, every single position x every kind.
func TestC11Exhaustive(t *testing.T) {
	rec := evid.New("TestC11Exhaustive", "C11", "fixed configuration per corpus scenario; every index k of the K controller API calls of the failure-free run x every fault kind (exhaustive for single faults of that configuration); oracle as TestC11Sampled; non-trivial = the fault hit a write; distinct by (scenario, position, kind)")
	shard, shards := envInt("VERIF_SHARD", 0), envInt("VERIF_SHARDS", 1)
	only := envOr("VERIF_SCENARIOS", "")
	failed := false
	ff := &firstFail{t: t, failed: &failed}
	total := 0
	for _, sc := range scenarios {
		if only != "" && !strings.Contains(only, sc) {
			continue
		}
		cfg := scnCfg{Scenario: sc, Nodes: 3, Affinity: sc == "rolling-update" || sc == "canary-start", MaxUnav: "2", Increase: "2", Parallel: 3, Replicas: "1", FailBy: "command", Restarts: true}
		if sc == "failure-rollback" {
			cfg.FailBy = "restarts"
		}
		base := scnRun(rec, cfg, nil)
		if len(base.Viol) > 0 {
			c11Judge(rec, ff, cfg, base, base, "no fault")
			continue
		}
		rec.Extra("calls_"+sc, base.Calls)
		i := 0
		for k := 1; k <= base.Calls; k++ {
			for _, kind := range faultKinds() {
				i++
				if i%shards != shard {
					continue
				}
				total++
				desc := fmt.Sprintf("%s@%d", kind, k)
				got := scnRun(rec, cfg, map[int]sim.FaultKind{k: kind})
				rec.Case(got.FaultOnWrite, evid.FP(sc, desc), "scenario-"+sc, "kind-"+kind.String())
				rec.Steps(1)
				if got.FaultOnWrite && rec.WantSample() {
					rec.Sample(map[string]interface{}{"scenario": sc, "fault": desc, "call": got.FaultCall})
				}
				c11Judge(rec, ff, cfg, base, got, desc)
			}
		}
	}
	rec.Exhaustive(true)
	rec.Extra("faulted_runs", total)
	if !failed {
		rec.Done()
	}
}

// firstFail lets the enumeration continue after a violation (all are recorded), failing the test once.
type firstFail struct {
	t      *testing.T
	failed *bool
}

func (f *firstFail) Fatalf(format string, args ...any) {
	if !*f.failed {
		f.t.Errorf(format, args...)
	}
	*f.failed = true
}
