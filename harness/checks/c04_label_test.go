package checks

import (
	"fmt"
	"strings"
	"testing"
	"time"

	corev1 "k8s.io/api/core/v1"
	metav1 "k8s.io/apimachinery/pkg/apis/meta/v1"
	"pgregory.net/rapid"

	edsv1 "github.com/DataDog/extendeddaemonset/api/v1alpha1"
	"verifharness/evid"
	"verifharness/gen"
	"verifharness/mon"
	"verifharness/oracle"
	"verifharness/sim"
)

type c04Cfg struct {
	Nodes     int
	Auto      bool          // validation mode auto (duration 5m) or manual
	Hold      string        // "", rolling-paused, frozen: set when the canary is up, so its pod survives the abort
	Abort     string        // revert (template back to A), fail (canary marked failed -> rollback), none
	Rounds    int           // fair rounds after the abort
	Gap       time.Duration // extra time that passes before the new template comes back
	Repromote string        // valid (re-apply B with canary-valid naming it), drop-strategy (canary strategy removed, B re-applied), cycle (B re-applied, canary validated once it runs)
	Lift      string        // before, after, never: when the hold is lifted relative to the re-promotion
}

func (c c04Cfg) String() string {
	return fmt.Sprintf("nodes=%d auto=%v hold=%q abort=%s rounds=%d gap=%s repromote=%s lift=%s", c.Nodes, c.Auto, c.Hold, c.Abort, c.Rounds, c.Gap, c.Repromote, c.Lift)
}

// c04Run drives the life cycle of the canary label: canary up (label added), canary aborted while its pod
// survives, the same template promoted later by another route; every sync is judged by the canary-label,
// confinement and promotion monitors.
func c04Run(rec *evid.Rec, f fataler, cfg c04Cfg) {
	var viol []mon.V
	w := &World{rec: rec, cfg: WorldCfg{Monitors: mon.Of("canary-label", "canary-confinement", "promotion-rule", "create-eligible", "create-once", "canary-latch", "no-panic"), Property: "C04"}, H: mon.NewHistory(), RSSeen: map[string]bool{}, RolesSynced: map[string]bool{}, Facts: map[string]int{}, lastSyncAt: map[string]time.Time{}, Det: true}
	w.OnViolation = func(vs []mon.V) { viol = append(viol, vs...) }
	w.C = sim.New(sim.Options{})
	for i := 0; i < cfg.Nodes; i++ {
		w.C.AddNode(fmt.Sprintf("n%d", i+1), map[string]string{"zone": "a", "tier": "a"}, nil)
	}
	cn := &edsv1.ExtendedDaemonSetSpecStrategyCanary{Replicas: gen.ParseIntOrPercent("1")}
	if cfg.Auto {
		cn.ValidationMode = edsv1.ExtendedDaemonSetSpecStrategyCanaryValidationModeAuto
		cn.Duration = &metav1.Duration{Duration: 5 * time.Minute}
		cn.NoRestartsDuration = &metav1.Duration{}
	} else {
		cn.ValidationMode = edsv1.ExtendedDaemonSetSpecStrategyCanaryValidationModeManual
	}
	st := edsv1.ExtendedDaemonSetSpecStrategy{Canary: cn}
	st.RollingUpdate.SlowStartIntervalDuration = &metav1.Duration{Duration: 5 * time.Second}
	st.RollingUpdate.MaxUnavailable = gen.ParseIntOrPercent("2")
	w.C.Add(&edsv1.ExtendedDaemonSet{ObjectMeta: metav1.ObjectMeta{Namespace: "ns1", Name: "foo"}, Spec: edsv1.ExtendedDaemonSetSpec{Template: gen.LetterTemplate('A'), Strategy: st}})
	k := sim.KeyOf("ns1", "foo")
	w.EDS = append(w.EDS, k)
	stop := func() bool { return len(viol) > 0 }
	rounds := func(n int, label string) {
		for i := 0; i < n && !stop(); i++ {
			w.fairRound(label)
		}
	}
	waitFor := func(cond func() bool, max int) bool {
		for i := 0; i < max && !stop() && !cond(); i++ {
			w.fairRound("c04")
		}
		return cond()
	}
	readyOf := func(rsName string) int {
		n := 0
		for _, p := range w.C.Pods() {
			if p.Labels[oracle.LabelRSName] == rsName && oracle.IsReady(p) {
				n++
			}
		}
		return n
	}
	canaryUp := func() bool {
		e := w.C.EDS(k.Namespace, k.Name)
		return e.Status.Canary != nil && len(e.Status.Canary.Nodes) > 0 && readyOf(e.Status.Canary.ReplicaSet) == len(e.Status.Canary.Nodes)
	}
	if !waitFor(func() bool {
		e := w.C.EDS(k.Namespace, k.Name)
		return e != nil && e.Status.ActiveReplicaSet != "" && readyOf(e.Status.ActiveReplicaSet) == cfg.Nodes
	}, 15) {
		f.Fatalf("harness: first deployment did not complete: %s", strings.Join(w.C.Trace, "\n"))
		return
	}
	w.editTemplate(k, 'B')
	if !waitFor(canaryUp, 15) {
		if !stop() {
			f.Fatalf("harness: canary did not start: %s", strings.Join(w.C.Trace, "\n"))
		}
		return
	}
	crs := w.C.EDS(k.Namespace, k.Name).Status.Canary.ReplicaSet
	labelled := func() int {
		n := 0
		for _, p := range w.C.Pods() {
			if p.Labels[oracle.LabelCanary] == "true" && p.DeletionTimestamp == nil {
				n++
			}
		}
		return n
	}
	waitFor(func() bool { return labelled() > 0 }, 4)
	labelledAtAbort := labelled()
	holdKey := map[string]string{"frozen": oracle.AnnRolloutFrozen, "rolling-paused": oracle.AnnRollingPaused}[cfg.Hold]
	lift := func() {
		if holdKey != "" {
			_ = w.C.SetEDSAnnotation(k.Namespace, k.Name, holdKey, "false")
		}
	}
	if holdKey != "" {
		_ = w.C.SetEDSAnnotation(k.Namespace, k.Name, holdKey, "true")
	}
	switch cfg.Abort {
	case "revert":
		w.editTemplate(k, 'A')
	case "fail":
		w.C.Tracef("user fails canary %s", crs)
		w.C.MutateERS(k.Namespace, crs, func(rs *edsv1.ExtendedDaemonSetReplicaSet) {
			now := metav1.NewTime(w.C.Now())
			rs.Status.Conditions = append(rs.Status.Conditions, edsv1.ExtendedDaemonSetReplicaSetCondition{Type: edsv1.ConditionTypeCanaryFailed, Status: corev1.ConditionTrue, LastTransitionTime: now, LastUpdateTime: now, Reason: "Manually failed"})
		})
	}
	rounds(cfg.Rounds, "c04 aborted")
	if cfg.Gap > 0 {
		w.C.Advance(cfg.Gap)
		rounds(2, "c04 later")
	}
	survivors := 0
	for _, p := range w.C.Pods() {
		if p.Labels[oracle.LabelRSName] == crs && p.DeletionTimestamp == nil {
			survivors++
		}
	}
	if cfg.Lift == "before" {
		lift()
	}
	// ---- the new template comes back
	if cfg.Abort != "none" {
		switch cfg.Repromote {
		case "valid":
			_ = w.C.SetEDSAnnotation(k.Namespace, k.Name, oracle.AnnCanaryValid, crs)
			w.editTemplate(k, 'B')
		case "drop-strategy":
			w.C.Tracef("user removes spec.strategy.canary")
			_ = w.C.EditEDS(k.Namespace, k.Name, func(x *edsv1.ExtendedDaemonSet) { x.Spec.Strategy.Canary = nil })
			w.editTemplate(k, 'B')
		case "cycle":
			w.editTemplate(k, 'B')
			if waitFor(canaryUp, 12) {
				_ = w.C.SetEDSAnnotation(k.Namespace, k.Name, oracle.AnnCanaryValid, w.C.EDS(k.Namespace, k.Name).Status.Canary.ReplicaSet)
			}
		}
	} else {
		_ = w.C.SetEDSAnnotation(k.Namespace, k.Name, oracle.AnnCanaryValid, crs)
	}
	rounds(3, "c04 re-promotion")
	if cfg.Lift == "after" {
		lift()
	}
	rounds(12, "c04 settle")
	// final obligation: the replica set of B is active and nothing is in progress => no pod carries the canary label
	e := w.C.EDS(k.Namespace, k.Name)
	promoted := e.Status.ActiveReplicaSet == crs && e.Status.Canary == nil
	if promoted && !stop() && (cfg.Lift != "never" || cfg.Hold == "") {
		if n := labelled(); n > 0 {
			viol = append(viol, mon.V{Property: "C04", Monitor: "canary-label", Sig: "C04/canary-label/kept-after-becoming-active", Detail: fmt.Sprintf("replica set %s is active, no canary is in progress and 12 rounds have passed, yet %d pods still carry the canary label", crs, n)})
		}
	}
	classes := []string{"abort-" + cfg.Abort, "repromote-" + cfg.Repromote, fmt.Sprintf("promoted=%v", promoted), fmt.Sprintf("canary-pod-survived-abort=%v", survivors > 0)}
	if cfg.Hold != "" {
		classes = append(classes, "hold-"+cfg.Hold)
	}
	nt := labelledAtAbort > 0 && promoted
	rec.Case(nt, evid.FP(cfg.String()), classes...)
	rec.Steps(1)
	if nt && survivors > 0 && rec.WantSample() {
		rec.Sample(map[string]interface{}{"config": cfg.String(), "canary_replica_set": crs, "canary_pods_surviving_the_abort": survivors})
	}
	settle(f, rec, viol, map[string]interface{}{"config": cfg.String(), "trace": w.C.Trace}, len(w.C.Trace), "config: "+cfg.String()+"\n--- trace ---\n"+strings.Join(w.C.Trace, "\n"))
}

var (
	c04Holds      = []string{"", "rolling-paused", "frozen"}
	c04Aborts     = []string{"revert", "fail", "none"}
	c04Repromotes = []string{"valid", "drop-strategy", "cycle"}
	c04Lifts      = []string{"before", "after", "never"}
	c04Gaps       = []time.Duration{0, 6 * time.Minute, 20 * time.Minute}
)

// TestC04LabelLifecycle: generated life cycles of the canary label.
func TestC04LabelLifecycle(t *testing.T) {
	rec := evid.New("TestC04LabelLifecycle", "C04", "life cycle of the canary label: first deployment, template change, canary pod up and labelled, optional rolling-update-paused / rollout-frozen (the canary pod survives what follows), abort by {template reverted, canary failed and rolled back, none}, 2-8 rounds and 0/6/20 minutes, then the same template promoted by {canary-valid naming its replica set, canary strategy removed, a fresh canary cycle validated}, the hold lifted before / after / never; monitors canary-label (labelled during the canary, label gone after a successful sync of the now active set within the documented five-minute window), confinement, promotion rule after every sync, and finally no labelled pod once the set is active and nothing is in progress; non-trivial = a labelled canary pod existed and the template ended up promoted; distinct by configuration")
	t.Cleanup(func() {
		if !t.Failed() {
			rec.Done()
		}
	})
	rapid.Check(t, func(rt *rapid.T) {
		cfg := c04Cfg{Nodes: rapid.IntRange(2, 4).Draw(rt, "nodes"), Auto: rapid.Bool().Draw(rt, "auto"), Hold: rapid.SampledFrom(c04Holds).Draw(rt, "hold"),
			Abort: rapid.SampledFrom(c04Aborts).Draw(rt, "abort"), Rounds: rapid.SampledFrom([]int{2, 8}).Draw(rt, "rounds"), Gap: rapid.SampledFrom(c04Gaps).Draw(rt, "gap"),
			Repromote: rapid.SampledFrom(c04Repromotes).Draw(rt, "repromote"), Lift: rapid.SampledFrom(c04Lifts).Draw(rt, "lift")}
		c04Run(rec, rt, cfg)
	})
}

// TestC04LabelLifecycleAll enumerates the configuration space on three nodes (fixed size).
func TestC04LabelLifecycleAll(t *testing.T) {
	rec := evid.New("TestC04LabelLifecycleAll", "C04", "complete product {auto, manual} x {no hold, rolling-update-paused, rollout-frozen} x {revert, fail, none} x {2, 8 rounds} x {0, 6m, 20m} x {valid, drop-strategy, cycle} x {lift before, after, never} of TestC04LabelLifecycle on three nodes; same oracle")
	shard, shards := envInt("VERIF_SHARD", 0), envInt("VERIF_SHARDS", 1)
	failed := false
	ff := &firstFail{t: t, failed: &failed}
	i := 0
	for _, auto := range []bool{false, true} {
		for _, hold := range c04Holds {
			for _, abort := range c04Aborts {
				for _, r := range []int{2, 8} {
					for _, gap := range c04Gaps {
						for _, rp := range c04Repromotes {
							for _, lift := range c04Lifts {
								i++
								if i%shards != shard {
									continue
								}
								c04Run(rec, ff, c04Cfg{Nodes: 3, Auto: auto, Hold: hold, Abort: abort, Rounds: r, Gap: gap, Repromote: rp, Lift: lift})
							}
						}
					}
				}
			}
		}
	}
	rec.Exhaustive(true)
	if !failed {
		rec.Done()
	}
}
