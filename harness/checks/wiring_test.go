package checks

import (
	"context"
	"fmt"
	"net/http"
	"strings"
	"sync"
	"time"

	"github.com/go-logr/logr"
	corev1 "k8s.io/api/core/v1"
	apierrors "k8s.io/apimachinery/pkg/api/errors"
	"k8s.io/apimachinery/pkg/api/meta"
	metav1 "k8s.io/apimachinery/pkg/apis/meta/v1"
	"k8s.io/apimachinery/pkg/runtime"
	"k8s.io/apimachinery/pkg/runtime/schema"
	"k8s.io/client-go/rest"
	toolscache "k8s.io/client-go/tools/cache"
	"k8s.io/client-go/tools/record"
	ctrl "sigs.k8s.io/controller-runtime"
	"sigs.k8s.io/controller-runtime/pkg/cache"
	"sigs.k8s.io/controller-runtime/pkg/cache/informertest"
	"sigs.k8s.io/controller-runtime/pkg/client"
	"sigs.k8s.io/controller-runtime/pkg/config"
	"sigs.k8s.io/controller-runtime/pkg/controller/controllertest"
	metricsserver "sigs.k8s.io/controller-runtime/pkg/metrics/server"

	edsv1 "github.com/DataDog/extendeddaemonset/api/v1alpha1"
	"github.com/DataDog/extendeddaemonset/controllers"
	"verifharness/sim"
)

// wiring answers "which reconcile requests does this watch event produce?" with the repository's own wiring instead
// of a copy of it: a real controller-runtime manager is built over controller-runtime's fake informers, the four
// controllers are registered by their own SetupWithManager (watches, predicates and event handlers included), and the
// client every reconciler is given is a stub whose Get - the first thing each Reconcile does - records the request
// and answers NotFound. An event is fired into the informers (handlers run synchronously and fill the controller's
// work queue), then one sentinel object per watched kind is fired; each controller has one worker and a FIFO queue,
// so once a controller has asked for its sentinel every earlier request of that controller has been recorded.
// Scheduling stays with the virtual-time workQueue; only the event -> request mapping comes from here. A sentinel that
// does not arrive within the time limit makes the run inconclusive (harness failure), never a violation.
type wiring struct {
	mu        sync.Mutex
	informers map[string]*lockedInformer
	seen      []wiredRequest
	sentinel  map[string]chan struct{} // controller -> closed when its current sentinel was requested
	seq       int
	err       error
}

type wiredRequest struct{ Controller, NS, Name string }

type lockedInformer struct {
	controllertest.FakeInformer
	mu         sync.Mutex
	registered int
}

func (i *lockedInformer) AddEventHandler(h toolscache.ResourceEventHandler) (toolscache.ResourceEventHandlerRegistration, error) {
	i.mu.Lock()
	defer i.mu.Unlock()
	i.registered++
	return i.FakeInformer.AddEventHandler(h)
}

func (i *lockedInformer) AddEventHandlerWithResyncPeriod(h toolscache.ResourceEventHandler, d time.Duration) (toolscache.ResourceEventHandlerRegistration, error) {
	i.mu.Lock()
	defer i.mu.Unlock()
	i.registered++
	return i.FakeInformer.AddEventHandlerWithResyncPeriod(h, d)
}

func (i *lockedInformer) handlers() int {
	i.mu.Lock()
	defer i.mu.Unlock()
	return i.registered
}

func (i *lockedInformer) fire(f func(inf *controllertest.FakeInformer)) {
	i.mu.Lock()
	defer i.mu.Unlock()
	f(&i.FakeInformer)
}

// recordingClient is the client handed to one reconciler: every Get is a reconcile request of that controller.
type recordingClient struct {
	client.Client // nil: anything but Get is not expected to be called
	w             *wiring
	controller    string
}

func (c *recordingClient) Get(_ context.Context, key client.ObjectKey, obj client.Object, _ ...client.GetOption) error {
	c.w.record(c.controller, key.Namespace, key.Name)
	return apierrors.NewNotFound(schema.GroupResource{Resource: "recorded"}, key.Name)
}

func (c *recordingClient) List(context.Context, client.ObjectList, ...client.ListOption) error {
	return nil
}
func (c *recordingClient) Scheme() *runtime.Scheme          { return sim.Scheme }
func (c *recordingClient) Status() client.SubResourceWriter { return nil }

const sentinelPrefix = "zz-verif-sentinel-"

func (w *wiring) record(controller, ns, name string) {
	w.mu.Lock()
	defer w.mu.Unlock()
	if strings.HasPrefix(name, sentinelPrefix) {
		if name == fmt.Sprintf("%s%d", sentinelPrefix, w.seq) {
			if ch := w.sentinel[controller]; ch != nil {
				close(ch)
				w.sentinel[controller] = nil
			}
		}
		return
	}
	w.seen = append(w.seen, wiredRequest{controller, ns, name})
}

var (
	wiringOnce sync.Once
	theWiring  *wiring
)

// wiringControllers: name -> kind whose sentinel reaches the controller through its For() watch.
var wiringControllers = map[string]string{"eds": "ExtendedDaemonSet", "podtemplate": "ExtendedDaemonSet", "ers": "ExtendedDaemonSetReplicaSet", "setting": "ExtendedDaemonsetSetting"}

func getWiring() (*wiring, error) {
	wiringOnce.Do(func() {
		w := &wiring{informers: map[string]*lockedInformer{}, sentinel: map[string]chan struct{}{}}
		theWiring = w
		gvks := map[string]schema.GroupVersionKind{
			"ExtendedDaemonSet":           edsv1.GroupVersion.WithKind("ExtendedDaemonSet"),
			"ExtendedDaemonSetReplicaSet": edsv1.GroupVersion.WithKind("ExtendedDaemonSetReplicaSet"),
			"ExtendedDaemonsetSetting":    edsv1.GroupVersion.WithKind("ExtendedDaemonsetSetting"),
			"Pod":                         corev1.SchemeGroupVersion.WithKind("Pod"),
			"PodTemplate":                 corev1.SchemeGroupVersion.WithKind("PodTemplate"),
			"Node":                        corev1.SchemeGroupVersion.WithKind("Node"),
		}
		byGVK := map[schema.GroupVersionKind]toolscache.SharedIndexInformer{}
		mapper := meta.NewDefaultRESTMapper([]schema.GroupVersion{edsv1.GroupVersion, corev1.SchemeGroupVersion})
		for kind, gvk := range gvks {
			inf := &lockedInformer{}
			w.informers[kind] = inf
			byGVK[gvk] = inf
			scope := meta.RESTScopeNamespace
			if kind == "Node" {
				scope = meta.RESTScopeRoot
			}
			mapper.Add(gvk, scope)
		}
		fakeCache := &informertest.FakeInformers{Scheme: sim.Scheme, InformersByGVK: byGVK}
		skip := true
		mgr, err := ctrl.NewManager(&rest.Config{Host: "http://127.0.0.1:1"}, ctrl.Options{
			Scheme:                 sim.Scheme,
			Logger:                 logr.Discard(),
			Metrics:                metricsserver.Options{BindAddress: "0"},
			HealthProbeBindAddress: "0",
			Controller:             config.Controller{SkipNameValidation: &skip},
			NewCache:               func(*rest.Config, cache.Options) (cache.Cache, error) { return fakeCache, nil },
			NewClient: func(*rest.Config, client.Options) (client.Client, error) {
				return &recordingClient{w: w, controller: "manager"}, nil
			},
			MapperProvider: func(*rest.Config, *http.Client) (meta.RESTMapper, error) { return mapper, nil },
		})
		if err != nil {
			w.err = fmt.Errorf("manager: %w", err)
			return
		}
		rec := record.NewFakeRecorder(100000)
		if err = (&controllers.ExtendedDaemonSetReconciler{Client: &recordingClient{w: w, controller: "eds"}, Log: logr.Discard(), Scheme: sim.Scheme, Recorder: rec}).SetupWithManager(mgr); err == nil {
			err = (&controllers.ExtendedDaemonSetReplicaSetReconciler{Client: &recordingClient{w: w, controller: "ers"}, Log: logr.Discard(), Scheme: sim.Scheme, Recorder: rec}).SetupWithManager(mgr)
		}
		if err == nil {
			err = (&controllers.ExtendedDaemonsetSettingReconciler{Client: &recordingClient{w: w, controller: "setting"}, Log: logr.Discard(), Scheme: sim.Scheme, Recorder: rec}).SetupWithManager(mgr)
		}
		if err == nil {
			err = (&controllers.PodTemplateReconciler{Client: &recordingClient{w: w, controller: "podtemplate"}, Log: logr.Discard(), Scheme: sim.Scheme, Recorder: rec}).SetupWithManager(mgr)
		}
		if err != nil {
			w.err = fmt.Errorf("SetupWithManager: %w", err)
			return
		}
		go func() {
			// drain the recorder so that it never blocks
			for range rec.Events {
			}
		}()
		go func() { _ = mgr.Start(context.Background()) }()
		// the watches are registered when the controllers start; a watch the setup does not declare never registers, so
		// after a grace period the run goes on with what is there (the missing requests are then the finding)
		deadline := time.Now().Add(15 * time.Second)
		for {
			ready := w.informers["ExtendedDaemonSet"].handlers() >= 3 && w.informers["ExtendedDaemonSetReplicaSet"].handlers() >= 2 && w.informers["Pod"].handlers() >= 2 &&
				w.informers["ExtendedDaemonsetSetting"].handlers() >= 1 && w.informers["PodTemplate"].handlers() >= 1
			if ready || time.Now().After(deadline) {
				break
			}
			time.Sleep(5 * time.Millisecond)
		}
	})
	return theWiring, theWiring.err
}

func sentinelObject(kind, name string) client.Object {
	om := metav1.ObjectMeta{Namespace: "zz-verif", Name: name}
	switch kind {
	case "ExtendedDaemonSet":
		return &edsv1.ExtendedDaemonSet{ObjectMeta: om}
	case "ExtendedDaemonSetReplicaSet":
		return &edsv1.ExtendedDaemonSetReplicaSet{ObjectMeta: om}
	default:
		return &edsv1.ExtendedDaemonsetSetting{ObjectMeta: om}
	}
}

// requestsFor fires one watch event (created: old nil; deleted: new nil) and returns the reconcile requests the
// registered controllers received for it.
func (w *wiring) requestsFor(kind string, oldObj, newObj client.Object) ([]wiredRequest, error) {
	inf := w.informers[kind]
	if inf == nil {
		return nil, nil
	}
	w.mu.Lock()
	w.seen = nil
	w.seq++
	name := fmt.Sprintf("%s%d", sentinelPrefix, w.seq)
	waits := map[string]chan struct{}{}
	for c := range wiringControllers {
		ch := make(chan struct{})
		w.sentinel[c] = ch
		waits[c] = ch
	}
	w.mu.Unlock()
	switch {
	case oldObj == nil:
		inf.fire(func(f *controllertest.FakeInformer) { f.Add(newObj) })
	case newObj == nil:
		inf.fire(func(f *controllertest.FakeInformer) { f.Delete(oldObj) })
	default:
		inf.fire(func(f *controllertest.FakeInformer) { f.Update(oldObj, newObj) })
	}
	for _, k := range []string{"ExtendedDaemonSet", "ExtendedDaemonSetReplicaSet", "ExtendedDaemonsetSetting"} {
		obj := sentinelObject(k, name)
		w.informers[k].fire(func(f *controllertest.FakeInformer) { f.Add(obj) })
	}
	timeout := time.After(120 * time.Second)
	for c, ch := range waits {
		select {
		case <-ch:
		case <-timeout:
			return nil, fmt.Errorf("controller %s did not serve its sentinel request within 120s", c)
		}
	}
	w.mu.Lock()
	defer w.mu.Unlock()
	return append([]wiredRequest(nil), w.seen...), nil
}
