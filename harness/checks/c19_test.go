//go:build verif_plugin

package checks

import (
	"bytes"
	"encoding/json"
	"fmt"
	"reflect"
	"sort"
	"strings"
	"testing"
	"time"

	corev1 "k8s.io/api/core/v1"
	apiequality "k8s.io/apimachinery/pkg/api/equality"
	metav1 "k8s.io/apimachinery/pkg/apis/meta/v1"
	"k8s.io/apimachinery/pkg/types"
	"pgregory.net/rapid"

	edsv1 "github.com/DataDog/extendeddaemonset/api/v1alpha1"
	plugincanary "github.com/DataDog/extendeddaemonset/pkg/plugin/canary"
	pluginfreeze "github.com/DataDog/extendeddaemonset/pkg/plugin/freeze"
	pluginpause "github.com/DataDog/extendeddaemonset/pkg/plugin/pause"
	"verifharness/evid"
	"verifharness/gen"
	"verifharness/mon"
	"verifharness/oracle"
	"verifharness/sim"
)

var c19Commands = []string{"canary-pause", "canary-unpause", "canary-validate", "canary-fail", "ru-pause", "ru-unpause", "freeze", "unfreeze"}

// documented effect of each command: the annotation keys it may touch on the EDS
var c19Keys = map[string][]string{
	"canary-pause":    {oracle.AnnCanaryPaused, oracle.AnnCanaryUnpaused},
	"canary-unpause":  {oracle.AnnCanaryPaused, oracle.AnnCanaryUnpaused},
	"canary-validate": {oracle.AnnCanaryValid},
	"canary-fail":     {},
	"ru-pause":        {oracle.AnnRollingPaused},
	"ru-unpause":      {oracle.AnnRollingPaused},
	"freeze":          {oracle.AnnRolloutFrozen},
	"unfreeze":        {oracle.AnnRolloutFrozen},
}

// c19Interleave, when set, is run once between the command's reads and its first write: a controller
// (or anything else) touches the objects while the command is in flight.
var c19Interleave func()

func c19Run(c *sim.Cluster, cmd, ns, name string) (string, error) {
	var out bytes.Buffer
	cl := c.ClientFor("plugin")
	if hook := c19Interleave; hook != nil {
		fired := false
		prev := c.Faults
		c.Faults = func(call *sim.Call) sim.FaultKind {
			if call.Actor == "plugin" && call.Write && !fired {
				fired = true
				hook()
			}
			return sim.FaultNone
		}
		defer func() { c.Faults = prev }()
	}
	var err error
	switch cmd {
	case "canary-pause":
		err = plugincanary.RunPauseForVerif(cl, ns, name, true, &out)
	case "canary-unpause":
		err = plugincanary.RunPauseForVerif(cl, ns, name, false, &out)
	case "canary-validate":
		err = plugincanary.RunValidateForVerif(cl, ns, name, &out)
	case "canary-fail":
		err = plugincanary.RunFailForVerif(cl, ns, name, &out)
	case "ru-pause":
		err = pluginpause.RunForVerif(cl, ns, name, true, &out)
	case "ru-unpause":
		err = pluginpause.RunForVerif(cl, ns, name, false, &out)
	case "freeze":
		err = pluginfreeze.RunForVerif(cl, ns, name, true, &out)
	case "unfreeze":
		err = pluginfreeze.RunForVerif(cl, ns, name, false, &out)
	}
	return out.String(), err
}

// strip removes what every write changes.
func stripMeta(o metav1.Object) {
	o.SetResourceVersion("")
	o.SetManagedFields(nil)
	o.SetGeneration(0)
}

func jsonOf(v interface{}) string { b, _ := json.Marshal(v); return string(b) }

// c19Diff compares two snapshots; it returns a description of every change outside `allowed`.
func c19Diff(pre, post *sim.Snapshot, cmd, ns, name, canaryRS string) []string {
	var out []string
	render := func(s *sim.Snapshot) map[string]string {
		m := map[string]string{}
		for _, e := range s.EDS {
			x := e.DeepCopy()
			stripMeta(x)
			if x.Namespace == ns && x.Name == name {
				for _, k := range c19Keys[cmd] {
					delete(x.Annotations, k)
				}
				if len(x.Annotations) == 0 {
					x.Annotations = nil
				}
			}
			m["eds/"+x.Namespace+"/"+x.Name] = jsonOf(x)
		}
		for _, r := range s.RS {
			x := r.DeepCopy()
			stripMeta(x)
			if cmd == "canary-fail" && x.Namespace == ns && x.Name == canaryRS {
				var keep []edsv1.ExtendedDaemonSetReplicaSetCondition
				for _, c := range x.Status.Conditions {
					if c.Type != edsv1.ConditionTypeCanaryFailed {
						keep = append(keep, c)
					}
				}
				x.Status.Conditions = keep
			}
			m["ers/"+x.Namespace+"/"+x.Name] = jsonOf(x)
		}
		for _, p := range s.Pods {
			x := p.DeepCopy()
			stripMeta(x)
			m["pod/"+x.Namespace+"/"+x.Name] = jsonOf(x)
		}
		for _, p := range s.Nodes {
			x := p.DeepCopy()
			stripMeta(x)
			m["node/"+x.Name] = jsonOf(x)
		}
		for _, p := range s.PodTemplates {
			x := p.DeepCopy()
			stripMeta(x)
			m["podtemplate/"+x.Namespace+"/"+x.Name] = jsonOf(x)
		}
		return m
	}
	a, b := render(pre), render(post)
	keys := map[string]bool{}
	for k := range a {
		keys[k] = true
	}
	for k := range b {
		keys[k] = true
	}
	var ks []string
	for k := range keys {
		ks = append(ks, k)
	}
	sort.Strings(ks)
	for _, k := range ks {
		if a[k] != b[k] {
			switch {
			case a[k] == "":
				out = append(out, k+" created")
			case b[k] == "":
				out = append(out, k+" deleted")
			default:
				out = append(out, k+" changed outside the documented fields")
			}
		}
	}
	return out
}

func TestC19Commands(t *testing.T) {
	rec := evid.New("TestC19Commands", "C19", "generated prefix history (first deployment, template edits, pod restarts/cannot-start states that auto-pause or auto-fail a canary, time) reaching one of {no canary, canary running, auto-paused, user-paused, failed, mid rolling update}, then up to three kubectl-eds command bodies (canary pause/unpause/validate/fail, rolling-update pause/unpause, rollout freeze/unfreeze) each followed by fair rounds; oracle: object diff before/after a command touches only its documented annotation (or the canary replica set's Canary-Failed condition), a command whose precondition is false or that reports an error writes nothing, and within six rounds pause => Canary Paused, unpause => Canary, validate => exactly the recorded canary set active (a later template is not promoted by the old annotation: promotion-rule monitor), fail => rollback; non-trivial = at least one command ran with its precondition true and one with it false; distinct by action trace")
	t.Cleanup(func() {
		if !t.Failed() {
			rec.Done()
		}
	})
	rapid.Check(t, func(rt *rapid.T) {
		cfg := WorldCfg{Property: "C19", MinNodes: 2, MaxNodes: 5, Letters: "ABC", Strategy: gen.StrategyOpts{Canary: 1}, Affinity: 2, PlainNodes: true, Warmup: 6, StartEdit: 1,
			Monitors: mon.Of("promotion-rule", "status-function", "no-panic", "canary-confinement"),
			Weights:  map[string]int{"round": 8, "rec-eds": 4, "rec-ers": 6, "advance": 3, "kubelet": 3, "edit-template": 3, "pod-restart": 4, "pod-waiting": 2, "pod-start": 2, "canary-valid": 1, "annotation": 2}}
		w := newWorld(rt, rec, cfg)
		n := rapid.IntRange(0, 25).Draw(rt, "prefixSteps")
		for i := 0; i < n; i++ {
			w.step()
		}
		k := w.EDS[0]
		okTrue, okFalse := 0, 0
		ncmd := rapid.IntRange(1, 3).Draw(rt, "nCommands")
		var classes []string
		for ci := 0; ci < ncmd; ci++ {
			cmd := rapid.SampledFrom(c19Commands).Draw(rt, fmt.Sprintf("cmd%d", ci))
			e := w.C.EDS(k.Namespace, k.Name)
			if e == nil {
				return
			}
			canaryActive := e.Status.Canary != nil
			canaryRS := ""
			if canaryActive {
				canaryRS = e.Status.Canary.ReplicaSet
			}
			activeBefore := e.Status.ActiveReplicaSet
			var pre bool
			switch cmd {
			case "canary-pause", "canary-unpause", "canary-fail":
				pre = canaryActive && e.Spec.Strategy.Canary != nil
			case "canary-validate":
				pre = canaryActive
			default:
				pre = !canaryActive
			}
			classes = append(classes, "state-"+string(e.Status.State))
			// sometimes a controller reconcile lands between the command's Get and its write
			inter := rapid.SampledFrom([]string{"none", "none", "ers", "eds"}).Draw(rt, fmt.Sprintf("interleave%d", ci))
			var interPre, interPost *sim.Snapshot
			c19Interleave = nil
			if inter != "none" {
				c19Interleave = func() {
					interPre = w.C.Snapshot()
					w.C.Advance(11 * time.Second)
					if inter == "eds" {
						w.reconcile(sim.ActorEDS, k.Namespace, k.Name)
					} else {
						for _, rs := range w.rsOf(k) {
							w.reconcile(sim.ActorERS, rs.Namespace, rs.Name)
						}
					}
					interPost = w.C.Snapshot()
				}
				classes = append(classes, "controller-write-during-command")
			}
			before := w.C.Snapshot()
			first := len(w.C.Calls)
			out, err := c19Run(w.C, cmd, k.Namespace, k.Name)
			c19Interleave = nil
			after := w.C.Snapshot()
			raced := false
			if interPost != nil {
				// judge the command's writes against the state right after the interleaved reconcile; and if that
				// reconcile ended or replaced the canary the command had read, the command hit a moving target
				before = interPost
				if ie := interPost.EDSByKey(k.Namespace, k.Name); ie == nil || (ie.Status.Canary != nil) != canaryActive || (ie.Status.Canary != nil && ie.Status.Canary.ReplicaSet != canaryRS) || ie.Status.ActiveReplicaSet != activeBefore {
					raced = true
					classes = append(classes, "controller-changed-canary-during-command")
				}
			}
			// a merge patch only carries the keys the command changed relative to what it had read: if the
			// interleaved reconcile itself rewrote the annotations (it clears the canary annotations when a canary
			// ends), the documented values cannot be demanded of the result - the command hit a moving target
			annRace := false
			if interPre != nil && interPost != nil {
				a, b := interPre.EDSByKey(k.Namespace, k.Name), interPost.EDSByKey(k.Namespace, k.Name)
				if a == nil || b == nil || !reflect.DeepEqual(a.Annotations, b.Annotations) {
					annRace = true
					classes = append(classes, "controller-changed-annotations-during-command")
				}
			}
			w.Cmds++
			w.C.Tracef("command %s (precondition %v, state %q) -> err=%v %s", cmd, pre, e.Status.State, err, strings.TrimSpace(out))
			writes := 0
			applied := 0
			for _, call := range w.C.Calls[first:] {
				if call.Write && call.Actor == "plugin" {
					writes++
					if call.Applied {
						applied++
					}
				}
			}
			changed := !reflect.DeepEqual(c19Diff(before, after, "none", "", "", ""), []string(nil))
			if pre {
				okTrue++
			} else {
				okFalse++
			}
			fail := func(sig, detail string) {
				w.fail([]mon.V{{Property: "C19", Monitor: "commands", Sig: sig, Detail: detail}})
			}
			if !pre && err == nil {
				fail("C19/commands/"+cmd+"/acts-without-precondition", fmt.Sprintf("%s succeeded although its precondition does not hold (status.canary set: %v)", cmd, canaryActive))
			}
			if err != nil && (applied > 0 || changed) {
				fail("C19/commands/"+cmd+"/writes-although-refusing", fmt.Sprintf("%s returned %v but %d of its writes were applied", cmd, err, applied))
			}
			if d := c19Diff(before, after, cmd, k.Namespace, k.Name, canaryRS); len(d) > 0 {
				fail("C19/commands/"+cmd+"/touches-more-than-documented", fmt.Sprintf("%s changed: %s", cmd, strings.Join(d, "; ")))
			}
			if err != nil {
				continue
			}
			// documented annotation values
			post := w.C.EDS(k.Namespace, k.Name)
			want := map[string]string{}
			switch cmd {
			case "canary-pause":
				want[oracle.AnnCanaryPaused], want[oracle.AnnCanaryUnpaused] = "true", "false"
			case "canary-unpause":
				want[oracle.AnnCanaryPaused], want[oracle.AnnCanaryUnpaused] = "false", "true"
			case "canary-validate":
				want[oracle.AnnCanaryValid] = canaryRS
			case "ru-pause":
				want[oracle.AnnRollingPaused] = "true"
			case "ru-unpause":
				want[oracle.AnnRollingPaused] = "false"
			case "freeze":
				want[oracle.AnnRolloutFrozen] = "true"
			case "unfreeze":
				want[oracle.AnnRolloutFrozen] = "false"
			}
			for ak, av := range want {
				if annRace {
					break
				}
				if post.Annotations[ak] != av {
					fail("C19/commands/"+cmd+"/annotation-value", fmt.Sprintf("%s succeeded but annotation %s=%q, want %q", cmd, ak, post.Annotations[ak], av))
				}
			}
			if cmd == "canary-fail" {
				rs := w.C.ERS(k.Namespace, canaryRS)
				marked := false
				if rs != nil {
					for _, cd := range rs.Status.Conditions {
						if cd.Type == edsv1.ConditionTypeCanaryFailed && cd.Status == corev1.ConditionTrue {
							marked = true
						}
					}
				}
				if !marked {
					fail("C19/commands/canary-fail/condition-not-set", "canary fail succeeded but no Canary-Failed=True condition on "+canaryRS)
				}
			}
			// the controller's interpretation, within bounded rounds and with nothing else happening
			activeTpl := corev1.PodTemplateSpec{}
			if a := w.C.ERS(k.Namespace, activeBefore); a != nil {
				activeTpl = a.Spec.Template
			}
			for r := 0; r < 6; r++ {
				w.fairRound(fmt.Sprintf("after %s %d", cmd, r+1))
			}
			// the expectations below presuppose that the command acted on the current canary: if the user
			// had already edited the template again (status.canary not yet refreshed), the command hit a
			// superseded replica set and the statement promises nothing
			if raced {
				continue
			}
			if pre0 := before.RSByKey(k.Namespace, canaryRS); pre0 == nil || !oracle.RSMatchesTemplate(pre0, &before.EDSByKey(k.Namespace, k.Name).Spec.Template) {
				classes = append(classes, "command-on-superseded-canary")
				continue
			}
			cur := w.C.EDS(k.Namespace, k.Name)
			crs := w.C.ERS(k.Namespace, canaryRS)
			failedNow := crs != nil && oracle.RSCondTrue(&crs.Status, edsv1.ConditionTypeCanaryFailed)
			stillCanary := cur.Status.Canary != nil && cur.Status.Canary.ReplicaSet == canaryRS
			switch cmd {
			case "canary-pause":
				if stillCanary && !failedNow && cur.Status.State != edsv1.ExtendedDaemonSetStatusStateCanaryPaused {
					fail("C19/interpretation/pause-not-reflected", fmt.Sprintf("six rounds after canary pause the state is %q (canary %s still in progress)", cur.Status.State, canaryRS))
				}
			case "canary-unpause":
				if stillCanary && !failedNow && cur.Status.State != edsv1.ExtendedDaemonSetStatusStateCanary {
					fail("C19/interpretation/unpause-not-reflected", fmt.Sprintf("six rounds after canary unpause the state is %q reason %q (canary %s still in progress)", cur.Status.State, cur.Status.Reason, canaryRS))
				}
			case "canary-validate":
				if cur.Status.ActiveReplicaSet != canaryRS {
					fail("C19/interpretation/validated-set-not-active", fmt.Sprintf("six rounds after canary validate status.activeReplicaSet=%q, the validated canary was %q", cur.Status.ActiveReplicaSet, canaryRS))
				}
			case "canary-fail":
				if before.EDSByKey(k.Namespace, k.Name).Annotations[oracle.AnnCanaryValid] == canaryRS {
					classes = append(classes, "fail-on-validated-canary")
					break // an explicit validation of this very replica set promotes it, failed or not (C05)
				}
				if cur.Status.ActiveReplicaSet != activeBefore {
					fail("C19/interpretation/fail-changed-active", fmt.Sprintf("after canary fail status.activeReplicaSet went from %q to %q", activeBefore, cur.Status.ActiveReplicaSet))
				}
				if cur.Status.Canary != nil && cur.Status.Canary.ReplicaSet == canaryRS {
					fail("C19/interpretation/fail-no-rollback", fmt.Sprintf("six rounds after canary fail status.canary is still %+v", *cur.Status.Canary))
				}
				if !apiequality.Semantic.DeepEqual(cur.Spec.Template, activeTpl) {
					fail("C19/interpretation/fail-template-not-restored", "six rounds after canary fail spec.template is not the active replica set's template")
				}
			}
		}
		nt := okTrue > 0 && okFalse > 0
		sort.Strings(classes)
		rec.Case(nt, w.fp(), uniq(classes)...)
		if nt && rec.WantSample() {
			rec.Sample(w.sampleTrace(45))
		}
	})
}

var _ = types.NamespacedName{}
var _ = time.Second

// TestC19FailReusedSet: `canary fail` on a replica set that was failed, promoted by an explicit
// validation, superseded and is now the canary again (it carries a Canary-Failed=False condition).
// Every step is a real reconcile or command body; the template edits are drawn so that the
// scenario also runs with other alphabets.
func TestC19FailReusedSet(t *testing.T) {
	rec := evid.New("TestC19FailReusedSet", "C19", "scenario family: A active; B canary, failed and explicitly validated (becomes active, Canary-Failed goes False); C canary validated; B re-applied while it still exists; `canary fail`; oracle: rollback within six rounds; the number of rounds between the steps is generated; non-trivial = the re-applied set still existed and carried a Canary-Failed condition; distinct by round counts")
	t.Cleanup(func() {
		if !t.Failed() {
			rec.Done()
		}
	})
	rapid.Check(t, func(rt *rapid.T) {
		cfg := WorldCfg{Property: "C19", MinNodes: 3, MaxNodes: 4, Letters: "A", Affinity: 2, PlainNodes: true,
			Strategy: gen.StrategyOpts{Canary: 2, NoPercentRepl: true}, Monitors: mon.Of("no-panic", "promotion-rule"), Weights: map[string]int{"round": 1}}
		w := newWorld(rt, rec, cfg)
		k := w.EDS[0]
		rounds := func(name string, lo, hi int) {
			n := rapid.IntRange(lo, hi).Draw(rt, name)
			for i := 0; i < n; i++ {
				w.fairRound(name)
			}
		}
		canary := func() string {
			if e := w.C.EDS(k.Namespace, k.Name); e != nil && e.Status.Canary != nil {
				return e.Status.Canary.ReplicaSet
			}
			return ""
		}
		rounds("deployA", 4, 6)
		w.editTemplate(k, 'B')
		rounds("canaryB", 3, 5)
		rsB := canary()
		if rsB == "" {
			rec.Case(false, w.fp(), "no-canary-B")
			return
		}
		if _, err := c19Run(w.C, "canary-fail", k.Namespace, k.Name); err != nil {
			rt.Fatalf("harness: first fail: %v", err)
		}
		_ = w.C.SetEDSAnnotation(k.Namespace, k.Name, oracle.AnnCanaryValid, rsB)
		rounds("promoteB", 3, 5)
		if e := w.C.EDS(k.Namespace, k.Name); e.Status.ActiveReplicaSet != rsB {
			rec.Case(false, w.fp(), "B-not-promoted")
			return
		}
		w.editTemplate(k, 'C')
		rounds("canaryC", 3, 4)
		rsC := canary()
		if rsC == "" {
			rec.Case(false, w.fp(), "no-canary-C")
			return
		}
		if _, err := c19Run(w.C, "canary-validate", k.Namespace, k.Name); err != nil {
			rt.Fatalf("harness: validate C: %v", err)
		}
		rounds("promoteC", 1, 2)
		w.editTemplate(k, 'B')
		rounds("canaryBagain", 2, 4)
		b := w.C.ERS(k.Namespace, rsB)
		e := w.C.EDS(k.Namespace, k.Name)
		if b == nil || canary() != rsB || e.Status.ActiveReplicaSet != rsC {
			rec.Case(false, w.fp(), "B-not-canary-again")
			return
		}
		hadCond := oracle.RSCond(&b.Status, edsv1.ConditionTypeCanaryFailed) != nil
		rec.Case(hadCond, w.fp(), "reused-set-is-canary-again")
		if hadCond {
			rec.Sample(w.sampleTrace(60))
		}
		_ = w.C.SetEDSAnnotation(k.Namespace, k.Name, oracle.AnnCanaryValid, "-")
		if _, err := c19Run(w.C, "canary-fail", k.Namespace, k.Name); err != nil {
			return
		}
		for i := 0; i < 6; i++ {
			w.fairRound("after second fail")
		}
		cur := w.C.EDS(k.Namespace, k.Name)
		if cur.Status.Canary != nil && cur.Status.Canary.ReplicaSet == rsB {
			w.fail([]mon.V{{Property: "C19", Monitor: "commands", Sig: "C19/interpretation/fail-no-rollback/reused-replica-set", Detail: fmt.Sprintf("six rounds after `canary fail` on %s (a replica set that already carried a Canary-Failed=False condition) status.canary is still %+v and state %q: conditions %s", rsB, *cur.Status.Canary, cur.Status.State, jsonOf(w.C.ERS(k.Namespace, rsB).Status.Conditions))}})
		}
	})
}

// TestC19FailMidSync: `kubectl-eds canary fail` (the real command body) lands inside a sync of the canary replica
// set, after the controller has read the object and right before it writes the status. The command reported success:
// the controller must obey it (rollback) - its own status write may not erase what the command wrote.
func TestC19FailMidSync(t *testing.T) {
	rec := evid.New("TestC19FailMidSync", "C19", "A active, B canary running for a generated number of rounds; the real `canary fail` command runs between the read and the status write of a sync of the canary replica set (also: of the active one, as a control); oracle: the command succeeds and within eight rounds status.canary is cleared, the active set is unchanged and spec.template is the active template again; non-trivial = the command ran inside a sync of the canary set; distinct by round counts and target")
	t.Cleanup(func() {
		if !t.Failed() {
			rec.Done()
		}
	})
	rapid.Check(t, func(rt *rapid.T) {
		cfg := WorldCfg{Property: "C19", MinNodes: 3, MaxNodes: 4, Letters: "A", Affinity: 2, PlainNodes: true,
			Strategy: gen.StrategyOpts{Canary: 2, NoPercentRepl: true}, Monitors: mon.Of("no-panic", "promotion-rule"), Weights: map[string]int{"round": 1}}
		w := newWorld(rt, rec, cfg)
		k := w.EDS[0]
		n := rapid.IntRange(4, 6).Draw(rt, "deployA")
		for i := 0; i < n; i++ {
			w.fairRound("deployA")
		}
		activeBefore := w.C.EDS(k.Namespace, k.Name).Status.ActiveReplicaSet
		w.editTemplate(k, 'B')
		n = rapid.IntRange(3, 5).Draw(rt, "canaryB")
		for i := 0; i < n; i++ {
			w.fairRound("canaryB")
		}
		e := w.C.EDS(k.Namespace, k.Name)
		if e.Status.Canary == nil || e.Status.ActiveReplicaSet != activeBefore || activeBefore == "" {
			rec.Case(false, w.fp(), "no-canary")
			return
		}
		crs := e.Status.Canary.ReplicaSet
		// an auto-mode canary may be promoted by time while we wait: keep it paused? no - manual pause would change
		// the story; instead the command runs in the very next round
		target := rapid.SampledFrom([]string{"canary", "canary", "active"}).Draw(rt, "duringSyncOf")
		during := crs
		if target == "active" {
			during = activeBefore
		}
		ran, cmdErr := false, error(nil)
		w.C.Faults = func(call *sim.Call) sim.FaultKind {
			if !ran && call.Actor == sim.ActorERS && (call.Verb == "status-update" || call.Verb == "status-patch") && call.Name == during {
				ran = true
				w.C.Tracef("(inside the sync of %s, before its status write)", during)
				_, cmdErr = c19Run(w.C, "canary-fail", k.Namespace, k.Name)
				w.C.Tracef("command canary-fail -> err=%v", cmdErr)
			}
			return sim.FaultNone
		}
		w.fairRound("command lands inside a sync")
		w.C.Faults = nil
		if !ran || cmdErr != nil {
			rec.Case(false, w.fp(), fmt.Sprintf("command-did-not-run-or-refused(ran=%v err=%v)", ran, cmdErr))
			return
		}
		for i := 0; i < 8; i++ {
			w.fairRound("after canary fail")
		}
		rec.Case(target == "canary", w.fp(), "during-sync-of-"+target)
		if target == "canary" && rec.WantSample() {
			rec.Sample(w.sampleTrace(40))
		}
		cur := w.C.EDS(k.Namespace, k.Name)
		activeTpl := w.C.ERS(k.Namespace, activeBefore)
		var vs []mon.V
		switch {
		case cur.Status.ActiveReplicaSet != activeBefore:
			vs = append(vs, mon.V{Property: "C19", Monitor: "interpretation", Sig: "C19/interpretation/fail-changed-active/mid-sync", Detail: fmt.Sprintf("after canary fail (run inside a sync of %s) status.activeReplicaSet went from %q to %q", during, activeBefore, cur.Status.ActiveReplicaSet)})
		case cur.Status.Canary != nil && cur.Status.Canary.ReplicaSet == crs:
			vs = append(vs, mon.V{Property: "C19", Monitor: "interpretation", Sig: "C19/interpretation/fail-no-rollback/mid-sync", Detail: fmt.Sprintf("eight rounds after canary fail (run inside a sync of %s, reported success) status.canary is still %+v", during, *cur.Status.Canary)})
		case activeTpl != nil && !apiequality.Semantic.DeepEqual(cur.Spec.Template, activeTpl.Spec.Template):
			vs = append(vs, mon.V{Property: "C19", Monitor: "interpretation", Sig: "C19/interpretation/fail-template-not-restored/mid-sync", Detail: "eight rounds after canary fail spec.template is not the active replica set's template"})
		}
		if len(vs) > 0 {
			w.fail(vs)
		}
	})
}
