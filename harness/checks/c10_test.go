package checks

import (
	"context"
	"encoding/json"
	"fmt"
	"strings"
	"testing"

	"github.com/go-logr/logr"
	autoscalingv1 "k8s.io/api/autoscaling/v1"
	corev1 "k8s.io/api/core/v1"
	apiequality "k8s.io/apimachinery/pkg/api/equality"
	"k8s.io/apimachinery/pkg/api/resource"
	metav1 "k8s.io/apimachinery/pkg/apis/meta/v1"
	"k8s.io/apimachinery/pkg/util/intstr"
	"pgregory.net/rapid"

	edsv1 "github.com/DataDog/extendeddaemonset/api/v1alpha1"
	"github.com/DataDog/extendeddaemonset/controllers/extendeddaemonsetreplicaset/strategy"
	podutils "github.com/DataDog/extendeddaemonset/pkg/controller/utils/pod"
	"verifharness/evid"
	"verifharness/gen"
	"verifharness/mon"
	"verifharness/oracle"
	"verifharness/sim"
)

const c10AnnKey = "resources.extendeddaemonset.datadoghq.com/%s.%s.%s"

type c10Case struct {
	Template   corev1.PodTemplateSpec
	NodeLabels map[string]string
	NodeAnn    map[string]string // override annotations (well-formed, malformed, for another EDS)
	Setting    *edsv1.ExtendedDaemonsetSetting
	Affinity   bool
	Desc       string
}

func c10Resources(rt *rapid.T, name string) corev1.ResourceRequirements {
	pool := []corev1.ResourceRequirements{
		{Requests: corev1.ResourceList{corev1.ResourceCPU: resource.MustParse("250m")}},
		{Requests: corev1.ResourceList{corev1.ResourceCPU: resource.MustParse("0.5"), corev1.ResourceMemory: resource.MustParse("64Mi")}, Limits: corev1.ResourceList{corev1.ResourceMemory: resource.MustParse("128Mi")}},
		{Limits: corev1.ResourceList{corev1.ResourceCPU: resource.MustParse("2")}},
		{},
	}
	return rapid.SampledFrom(pool).Draw(rt, name)
}

func c10Draw(rt *rapid.T) c10Case {
	k := c10Case{}
	k.Template = gen.RandomTemplate(rt, "tpl", []string{"n1", "n2"})
	k.NodeLabels = gen.NodeLabels(rt, "n1")
	k.Affinity = rapid.Bool().Draw(rt, "affinityMode")
	k.NodeAnn = map[string]string{}
	var desc []string
	for i, c := range k.Template.Spec.Containers {
		switch rapid.SampledFrom([]string{"none", "none", "override", "malformed", "other-eds"}).Draw(rt, fmt.Sprintf("ann-%d", i)) {
		case "override":
			b, _ := json.Marshal(c10Resources(rt, fmt.Sprintf("ann-%d-res", i)))
			k.NodeAnn[fmt.Sprintf(c10AnnKey, "ns1", "foo", c.Name)] = string(b)
			desc = append(desc, "override:"+c.Name)
		case "malformed":
			k.NodeAnn[fmt.Sprintf(c10AnnKey, "ns1", "foo", c.Name)] = rapid.SampledFrom([]string{"{", "not json", `{"requests":{"cpu":"lots"}}`, `[]`, `{"limits":"none"}`, `"500m"`}).Draw(rt, fmt.Sprintf("ann-%d-bad", i))
			desc = append(desc, "malformed:"+c.Name)
		case "other-eds":
			b, _ := json.Marshal(c10Resources(rt, fmt.Sprintf("ann-%d-res", i)))
			k.NodeAnn[fmt.Sprintf(c10AnnKey, "ns1", "bar", c.Name)] = string(b)
			desc = append(desc, "other-eds:"+c.Name)
		}
	}
	// override annotations under this ExtendedDaemonSet's prefix that name no container of the template: left over from
	// a container that was removed or renamed, or meant for a sibling ExtendedDaemonSet called foo.<something>
	switch rapid.SampledFrom([]string{"none", "none", "none", "stale-container", "sibling-eds", "both"}).Draw(rt, "ann-extra") {
	case "stale-container":
		k.NodeAnn[fmt.Sprintf(c10AnnKey, "ns1", "foo", "removed-container")] = `{"requests":{"cpu":"100m"}}`
		desc = append(desc, "override:removed-container")
	case "sibling-eds":
		k.NodeAnn[fmt.Sprintf(c10AnnKey, "ns1", "foo.canary", "c0")] = `{"limits":{"memory":"1Gi"}}`
		desc = append(desc, "override-of-sibling:foo.canary")
	case "both":
		k.NodeAnn[fmt.Sprintf(c10AnnKey, "ns1", "foo", "removed-container")] = `{"requests":{"cpu":"100m"}}`
		k.NodeAnn[fmt.Sprintf(c10AnnKey, "ns1", "foo.canary", "c0")] = `{"limits":{"memory":"1Gi"}}`
		desc = append(desc, "override:removed-container", "override-of-sibling:foo.canary")
	}
	if rapid.IntRange(0, 2).Draw(rt, "hasSetting") != 0 {
		s := &edsv1.ExtendedDaemonsetSetting{ObjectMeta: metav1.ObjectMeta{Namespace: "ns1", Name: "setting-a"},
			Spec:   edsv1.ExtendedDaemonsetSettingSpec{Reference: &autoscalingv1.CrossVersionObjectReference{Kind: "ExtendedDaemonset", Name: "foo"}},
			Status: edsv1.ExtendedDaemonsetSettingStatus{Status: edsv1.ExtendedDaemonsetSettingStatusValid}}
		for i, c := range k.Template.Spec.Containers {
			if rapid.Bool().Draw(rt, fmt.Sprintf("setting-has-%d", i)) {
				s.Spec.Containers = append(s.Spec.Containers, edsv1.ExtendedDaemonsetSettingContainerSpec{Name: c.Name, Resources: c10Resources(rt, fmt.Sprintf("setting-%d-res", i))})
				desc = append(desc, "setting:"+c.Name)
			}
		}
		if rapid.IntRange(0, 3).Draw(rt, "setting-extra") == 0 {
			s.Spec.Containers = append(s.Spec.Containers, edsv1.ExtendedDaemonsetSettingContainerSpec{Name: "not-in-template", Resources: c10Resources(rt, "setting-extra-res")})
		}
		k.Setting = s
	}
	k.Desc = strings.Join(desc, ",")
	return k
}

// tolEq compares two tolerations by value (tolerationSeconds is a pointer).
func tolEq(a, b corev1.Toleration) bool {
	if a.Key != b.Key || a.Operator != b.Operator || a.Value != b.Value || a.Effect != b.Effect {
		return false
	}
	if (a.TolerationSeconds == nil) != (b.TolerationSeconds == nil) {
		return false
	}
	return a.TolerationSeconds == nil || *a.TolerationSeconds == *b.TolerationSeconds
}

// c10Usable: the override annotation value exists and decodes into resource requirements.
func c10Usable(val string) bool {
	if val == "" {
		return false
	}
	var r corev1.ResourceRequirements
	return json.Unmarshal([]byte(val), &r) == nil
}

func c10RS(tpl corev1.PodTemplateSpec) *edsv1.ExtendedDaemonSetReplicaSet {
	h := oracle.TemplateHash(&tpl)
	return &edsv1.ExtendedDaemonSetReplicaSet{
		ObjectMeta: metav1.ObjectMeta{Namespace: "ns1", Name: "foo-abcde", UID: "rs-uid", Labels: map[string]string{oracle.LabelEDSName: "foo"}, Annotations: map[string]string{oracle.AnnTemplateHash: h}},
		Spec:       edsv1.ExtendedDaemonSetReplicaSetSpec{Template: tpl, TemplateGeneration: h},
	}
}

// c10Outdated asks the exported rolling-update strategy, with a budget that allows
// everything, whether the pod on the node would be replaced.
func c10Outdated(c *sim.Cluster, rs *edsv1.ExtendedDaemonSetReplicaSet, node *corev1.Node, setting *edsv1.ExtendedDaemonsetSetting, pod *corev1.Pod) (bool, error) {
	hundred := intstr.FromString("100%")
	one := intstr.FromInt(1)
	mp := int32(10)
	eds := &edsv1.ExtendedDaemonSet{ObjectMeta: metav1.ObjectMeta{Namespace: "ns1", Name: "foo"}}
	eds.Spec.Strategy.RollingUpdate = edsv1.ExtendedDaemonSetSpecStrategyRollingUpdate{MaxUnavailable: &hundred, MaxPodSchedulerFailure: &hundred, MaxParallelPodCreation: &mp,
		SlowStartIntervalDuration: &metav1.Duration{Duration: 1e9}, SlowStartAdditiveIncrease: &one}
	item := strategy.NewNodeItem(node, setting)
	params := &strategy.Parameters{EDSName: "foo", Strategy: &eds.Spec.Strategy, Replicaset: rs, ReplicaSetStatus: "active", NewStatus: rs.Status.DeepCopy(),
		NodeByName: map[string]*strategy.NodeItem{node.Name: item}, PodByNodeName: map[*strategy.NodeItem]*corev1.Pod{item: pod}, Logger: logr.Discard()}
	res, err := strategy.ManageDeployment(c.ClientFor("ers"), eds, params, metav1.NewTime(c.Now()))
	if err != nil {
		return false, err
	}
	return len(res.PodsToDelete) == 1, nil
}

func resEqual(a, b corev1.ResourceRequirements) bool { return apiequality.Semantic.DeepEqual(a, b) }

// runC10 is the whole C10 oracle for one case.
func runC10(k c10Case) (vs []mon.V, err error) {
	add := func(sig, detail string) {
		vs = append(vs, mon.V{Property: "C10", Monitor: "created-pod", Sig: sig, Detail: detail})
	}
	c := sim.New(sim.Options{AffinityMode: k.Affinity})
	node := &corev1.Node{ObjectMeta: metav1.ObjectMeta{Name: "n1", Labels: k.NodeLabels, Annotations: k.NodeAnn}}
	rs := c10RS(k.Template)
	pod, cerr := podutils.CreatePodFromDaemonSetReplicaSet(sim.Scheme, rs, node, k.Setting, k.Affinity)
	if pod == nil {
		add("C10/created-pod/nil", fmt.Sprintf("no pod returned (err %v)", cerr))
		return vs, nil
	}
	malformed := strings.Contains(k.Desc, "malformed:")
	if cerr != nil && !malformed {
		add("C10/created-pod/unexpected-error", fmt.Sprintf("error %v without a malformed override annotation", cerr))
	}
	// ---- pinned to exactly this node
	if k.Affinity {
		if pod.Spec.NodeName != "" {
			add("C10/created-pod/pin/nodeName-set-in-affinity-mode", "spec.nodeName set although node affinity mode is on")
		}
		req := (*corev1.NodeSelector)(nil)
		if pod.Spec.Affinity != nil && pod.Spec.Affinity.NodeAffinity != nil {
			req = pod.Spec.Affinity.NodeAffinity.RequiredDuringSchedulingIgnoredDuringExecution
		}
		if req == nil || len(req.NodeSelectorTerms) == 0 {
			add("C10/created-pod/pin/no-required-affinity", "no required node affinity on the created pod")
		} else {
			for i, term := range req.NodeSelectorTerms {
				ok, others := false, 0
				for _, f := range term.MatchFields {
					if f.Key == "metadata.name" {
						if f.Operator == corev1.NodeSelectorOpIn && len(f.Values) == 1 && f.Values[0] == "n1" {
							ok = true
						} else {
							others++
						}
					}
				}
				if !ok || others > 0 {
					add("C10/created-pod/pin/term-without-node-name", fmt.Sprintf("affinity term %d does not pin the pod to n1 (and only n1): %+v", i, term.MatchFields))
				}
			}
			// the template's own label requirements must survive
			if tr := k.Template.Spec.Affinity; tr != nil && tr.NodeAffinity != nil && tr.NodeAffinity.RequiredDuringSchedulingIgnoredDuringExecution != nil {
				orig := tr.NodeAffinity.RequiredDuringSchedulingIgnoredDuringExecution.NodeSelectorTerms
				if len(orig) != len(req.NodeSelectorTerms) {
					add("C10/created-pod/pin/terms-lost", fmt.Sprintf("template has %d affinity terms, pod %d", len(orig), len(req.NodeSelectorTerms)))
				} else {
					for i := range orig {
						if !apiequality.Semantic.DeepEqual(orig[i].MatchExpressions, req.NodeSelectorTerms[i].MatchExpressions) {
							add("C10/created-pod/pin/match-expressions-changed", fmt.Sprintf("affinity term %d lost or changed its matchExpressions", i))
						}
					}
				}
			}
		}
	} else if pod.Spec.NodeName != "n1" {
		add("C10/created-pod/pin/nodeName", fmt.Sprintf("spec.nodeName=%q, want n1", pod.Spec.NodeName))
	}
	if oracle.NodeOf(pod) != "n1" {
		add("C10/created-pod/pin/node-of", fmt.Sprintf("the pod is bound/pinned to %q", oracle.NodeOf(pod)))
	}
	// ---- owner, labels, hash, tolerations
	owned := false
	for _, ref := range pod.OwnerReferences {
		if ref.Kind == "ExtendedDaemonSetReplicaSet" && ref.Name == rs.Name && ref.UID == rs.UID && ref.Controller != nil && *ref.Controller {
			owned = true
		}
	}
	if !owned {
		add("C10/created-pod/owner", fmt.Sprintf("owner references %+v do not name the replica set as controller", pod.OwnerReferences))
	}
	if pod.Labels[oracle.LabelEDSName] != "foo" || pod.Labels[oracle.LabelRSName] != rs.Name {
		add("C10/created-pod/labels", fmt.Sprintf("labels %v lack the ExtendedDaemonSet / replica-set name", pod.Labels))
	}
	for lk, lv := range k.Template.Labels {
		if lk == oracle.LabelEDSName || lk == oracle.LabelRSName {
			continue // reserved keys: the controller's own values win (checked above)
		}
		if pod.Labels[lk] != lv {
			add("C10/created-pod/labels-template", fmt.Sprintf("template label %s=%s missing", lk, lv))
		}
	}
	if pod.Namespace != "ns1" || pod.Name != "" && !strings.HasPrefix(pod.Name, rs.Name) || pod.Name == "" && pod.GenerateName != rs.Name+"-" {
		add("C10/created-pod/name", fmt.Sprintf("namespace/name %s/%s%s", pod.Namespace, pod.Name, pod.GenerateName))
	}
	if pod.Annotations[oracle.AnnTemplateHash] != rs.Spec.TemplateGeneration {
		add("C10/created-pod/hash", fmt.Sprintf("hash annotation %q != replica set's %q", pod.Annotations[oracle.AnnTemplateHash], rs.Spec.TemplateGeneration))
	}
	for _, dt := range oracle.DefaultTolerations {
		found := false
		for _, t := range pod.Spec.Tolerations {
			if tolEq(t, dt) {
				found = true
			}
		}
		if !found {
			add("C10/created-pod/default-toleration-missing", fmt.Sprintf("default DaemonSet toleration %+v missing", dt))
		}
	}
	for _, tt := range k.Template.Spec.Tolerations {
		found := false
		for _, t := range pod.Spec.Tolerations {
			if tolEq(t, tt) {
				found = true
			}
		}
		if !found {
			add("C10/created-pod/template-toleration-missing", fmt.Sprintf("template toleration %+v missing", tt))
		}
	}
	// ---- resources: annotation override, else valid setting, else template
	if len(pod.Spec.Containers) != len(k.Template.Spec.Containers) {
		add("C10/created-pod/containers", "container count differs from the template")
		return vs, nil
	}
	for i, tc := range k.Template.Spec.Containers {
		want, src := tc.Resources, "template"
		if k.Setting != nil {
			for _, sc := range k.Setting.Spec.Containers {
				if sc.Name == tc.Name {
					want, src = sc.Resources, "setting"
				}
			}
		}
		if raw, ok := k.NodeAnn[fmt.Sprintf(c10AnnKey, "ns1", "foo", tc.Name)]; ok {
			var rr corev1.ResourceRequirements
			if json.Unmarshal([]byte(raw), &rr) == nil {
				want, src = rr, "node annotation"
			}
		}
		if !resEqual(pod.Spec.Containers[i].Resources, want) {
			add("C10/created-pod/resources/"+strings.ReplaceAll(src, " ", "-"), fmt.Sprintf("container %s: resources %+v, want those of the %s %+v", tc.Name, pod.Spec.Containers[i].Resources, src, want))
		}
	}
	if k.Setting != nil && (pod.Labels[oracle.LabelSettingName] != k.Setting.Name || pod.Labels[oracle.LabelSettingNS] != k.Setting.Namespace) {
		add("C10/created-pod/setting-label", "setting name/namespace labels missing although a setting applies")
	}
	if len(vs) > 0 {
		return vs, nil
	}
	// ---- round trip through the API and the controller's own comparison
	cl := c.ClientFor("ers")
	if err := cl.Create(context.Background(), pod); err != nil {
		return vs, fmt.Errorf("harness: create: %w", err)
	}
	stored := c.Pod(pod.Namespace, pod.Name)
	got := &corev1.Pod{}
	if err := cl.Get(context.Background(), sim.KeyOf(pod.Namespace, pod.Name), got); err != nil {
		return vs, fmt.Errorf("harness: get: %w", err)
	}
	_ = stored
	out, oerr := c10Outdated(c, rs, node, k.Setting, got)
	if oerr != nil {
		return vs, fmt.Errorf("harness: ManageDeployment: %w", oerr)
	}
	if out {
		why := "plain"
		switch {
		case strings.Contains(k.Desc, "override:") && k.Setting != nil:
			why = "override-annotation-and-setting"
		case strings.Contains(k.Desc, "override:"):
			why = "override-annotation"
		case malformed:
			why = "malformed-annotation"
		case k.Setting != nil:
			why = "setting"
		}
		add("C10/round-trip/fresh-pod-outdated/"+why, fmt.Sprintf("a pod just created for these inputs is scheduled for replacement by the next sync with the same inputs (%s)", k.Desc))
		return vs, nil
	}
	// (i) template perturbation
	t2 := *k.Template.DeepCopy()
	t2.Spec.Containers[0].Image += "-next"
	if out, _ := c10Outdated(c, c10RS(t2), node, k.Setting, got); !out {
		add("C10/round-trip/template-change-not-detected", "the image changed but the pod is still considered up to date")
	}
	// (ii) override annotation added / changed / removed for this EDS
	n2 := node.DeepCopy()
	key := fmt.Sprintf(c10AnnKey, "ns1", "foo", k.Template.Spec.Containers[0].Name)
	if n2.Annotations == nil {
		n2.Annotations = map[string]string{}
	}
	what := "added"
	if _, ok := n2.Annotations[key]; ok {
		delete(n2.Annotations, key)
		what = "removed"
	} else {
		n2.Annotations[key] = `{"requests":{"cpu":"333m"}}`
	}
	if out, _ := c10Outdated(c, rs, n2, k.Setting, got); !out {
		add("C10/round-trip/annotation-"+what+"-not-detected", "the node's override annotation was "+what+" but the pod is still considered up to date")
	}
	// an annotation of another EDS must not matter
	n3 := node.DeepCopy()
	if n3.Annotations == nil {
		n3.Annotations = map[string]string{}
	}
	n3.Annotations[fmt.Sprintf(c10AnnKey, "ns1", "other", "c0")] = `{"requests":{"cpu":"1"}}`
	if out, _ := c10Outdated(c, rs, n3, k.Setting, got); out {
		add("C10/round-trip/foreign-annotation-replaces-pod", "an override annotation of another ExtendedDaemonSet made the pod outdated")
	}
	// (iii) the applicable setting demands a different value for a container without annotation override
	if k.Setting != nil {
		for _, sc := range k.Setting.Spec.Containers {
			inTpl := false
			for _, tc := range k.Template.Spec.Containers {
				if tc.Name == sc.Name {
					inTpl = true
				}
			}
			// an annotation that cannot be decoded into resource requirements is ignored when the pod is built
			// (the pod then follows the setting), so it does not shield the container from the setting either
			if c10Usable(k.NodeAnn[fmt.Sprintf(c10AnnKey, "ns1", "foo", sc.Name)]) || !inTpl {
				continue
			}
			s2 := k.Setting.DeepCopy()
			for j := range s2.Spec.Containers {
				if s2.Spec.Containers[j].Name == sc.Name {
					if s2.Spec.Containers[j].Resources.Requests == nil {
						s2.Spec.Containers[j].Resources.Requests = corev1.ResourceList{}
					}
					s2.Spec.Containers[j].Resources.Requests[corev1.ResourceCPU] = resource.MustParse("777m")
				}
			}
			if out, _ := c10Outdated(c, rs, node, s2, got); !out {
				add("C10/round-trip/setting-change-not-detected", fmt.Sprintf("the setting now demands cpu=777m for %s but the pod is still considered up to date", sc.Name))
			}
			break
		}
	} else {
		// a setting that starts to apply and demands something the pod does not have
		s := &edsv1.ExtendedDaemonsetSetting{ObjectMeta: metav1.ObjectMeta{Namespace: "ns1", Name: "late"}, Spec: edsv1.ExtendedDaemonsetSettingSpec{
			Containers: []edsv1.ExtendedDaemonsetSettingContainerSpec{{Name: k.Template.Spec.Containers[0].Name, Resources: corev1.ResourceRequirements{Requests: corev1.ResourceList{corev1.ResourceCPU: resource.MustParse("777m")}}}}}}
		if !c10Usable(k.NodeAnn[key]) {
			if out, _ := c10Outdated(c, rs, node, s, got); !out {
				add("C10/round-trip/new-setting-not-detected", "a setting now applies and demands cpu=777m but the pod is still considered up to date")
			}
		}
	}
	return vs, nil
}

func TestC10CreatedPod(t *testing.T) {
	rec := evid.New("TestC10CreatedPod", "C10", "pod template (nodeSelector, 0-2 required affinity terms with or without matchFields on metadata.name, tolerations, 1-3 containers with resources) x node (labels, override annotations well-formed / malformed / of another ExtendedDaemonSet / under this one's prefix for a container the template does not have or for a sibling named foo.<x>) x optional valid setting (subset of containers, container absent from the template) x both node-assignment modes; oracle on CreatePodFromDaemonSetReplicaSet (pin, owner, labels, hash, default tolerations, resources = annotation else setting else template), then round trip through the API (JSON) and the exported ManageDeployment with an unlimited budget: fresh pod kept, and replaced after a template change, an annotation add/remove, or a changed setting demand; non-trivial = affinity in the template, >= 2 containers, an override annotation or an applicable setting; distinct by JSON of the inputs")
	t.Cleanup(func() {
		if !t.Failed() {
			rec.Done()
		}
	})
	rapid.Check(t, func(rt *rapid.T) {
		k := c10Draw(rt)
		nt := k.Template.Spec.Affinity != nil || len(k.Template.Spec.Containers) >= 2 || len(k.NodeAnn) > 0 || k.Setting != nil
		b, _ := json.Marshal([]interface{}{k.Template, k.NodeAnn, k.Setting, k.Affinity})
		var classes []string
		if k.Affinity {
			classes = append(classes, "affinity-mode")
		}
		if strings.Contains(k.Desc, "override:") && k.Setting != nil {
			classes = append(classes, "override-annotation-and-setting")
		}
		if strings.Contains(k.Desc, "malformed:") {
			classes = append(classes, "malformed-annotation")
		}
		rec.Case(nt, evid.FP(string(b)), classes...)
		if nt {
			rec.Sample(map[string]interface{}{"template": k.Template.Spec, "nodeAnnotations": k.NodeAnn, "setting": k.Setting != nil, "affinityMode": k.Affinity, "what": k.Desc})
		}
		vs, err := runC10(k)
		if err != nil {
			rt.Fatalf("%v", err)
		}
		rec.Steps(1)
		settle(rt, rec, vs, map[string]interface{}{"inputs": json.RawMessage(b), "what": k.Desc}, len(b), "inputs: "+string(b))
	})
}

// FuzzC10Annotation: coverage-guided fuzzing of the node override annotation value (and of a second
// annotation key suffix) through the whole C10 oracle: creation, resources resolution, round trip.
func FuzzC10Annotation(f *testing.F) {
	f.Add(`{"requests":{"cpu":"250m"}}`, "c0", true, false)
	f.Add(`{"limits":{"memory":"1Gi"},"requests":{"cpu":"0.5"}}`, "c1", false, true)
	f.Add(`{`, "c0", true, true)
	f.Add(`null`, "", false, false)
	f.Fuzz(func(t *testing.T, val, container string, withSetting, affinity bool) {
		for _, r := range container {
			if !(r >= 'a' && r <= 'z' || r >= '0' && r <= '9' || r == '-') {
				t.Skip() // annotation keys are restricted by the API server
			}
		}
		if len(container) > 20 {
			t.Skip()
		}
		k := c10Case{Template: letterTpl('A'), NodeLabels: map[string]string{"zone": "a"}, Affinity: affinity, NodeAnn: map[string]string{}}
		k.Template.Spec.Containers = []corev1.Container{{Name: "c0", Image: "img:1"}, {Name: "c1", Image: "img:2", Resources: corev1.ResourceRequirements{Requests: corev1.ResourceList{corev1.ResourceCPU: resource.MustParse("100m")}}}}
		k.NodeAnn[fmt.Sprintf(c10AnnKey, "ns1", "foo", container)] = val
		var rr corev1.ResourceRequirements
		switch {
		case json.Unmarshal([]byte(val), &rr) != nil:
			k.Desc = "malformed:" + container
		default:
			k.Desc = "override:" + container
		}
		if withSetting {
			k.Setting = &edsv1.ExtendedDaemonsetSetting{ObjectMeta: metav1.ObjectMeta{Namespace: "ns1", Name: "s"}, Spec: edsv1.ExtendedDaemonsetSettingSpec{Containers: []edsv1.ExtendedDaemonsetSettingContainerSpec{{Name: "c0", Resources: corev1.ResourceRequirements{Limits: corev1.ResourceList{corev1.ResourceMemory: resource.MustParse("64Mi")}}}}},
				Status: edsv1.ExtendedDaemonsetSettingStatus{Status: edsv1.ExtendedDaemonsetSettingStatusValid}}
			k.Desc += ",setting:c0"
		}
		vs, err := runC10(k)
		if err != nil {
			t.Skip()
		}
		for _, v := range vs {
			if !knownSigs[v.Sig] {
				t.Fatalf("%s (annotation %q on container %q)", v, val, container)
			}
		}
	})
}
