package checks

import (
	"encoding/json"
	"fmt"
	"os"
	"reflect"
	"runtime/debug"
	"strings"
	"testing"
	"time"

	apiequality "k8s.io/apimachinery/pkg/api/equality"
	metav1 "k8s.io/apimachinery/pkg/apis/meta/v1"
	"pgregory.net/rapid"

	edsv1 "github.com/DataDog/extendeddaemonset/api/v1alpha1"
	"verifharness/evid"
	"verifharness/gen"
	"verifharness/mon"
	"verifharness/sim"
)

var c16IntOrPct = []string{"<nil>", "0", "-1", "1", "2", "1000000", "0%", "1%", "50%", "100%", "200%", "-10%", "abc", "50", "%", "99999999999999999999%", "5 0%", ""}
var c16Durations = []string{"<nil>", "0s", "-1s", "1ns", "1s", "30s", "1m0s", "1h0m0s"}

func c16Dur(rt *rapid.T, name string) *metav1.Duration {
	s := rapid.SampledFrom(c16Durations).Draw(rt, name)
	if s == "<nil>" {
		return nil
	}
	d, _ := time.ParseDuration(s)
	return &metav1.Duration{Duration: d}
}

func c16Strategy(rt *rapid.T) (edsv1.ExtendedDaemonSetSpecStrategy, int) {
	boundary := 0
	s := edsv1.ExtendedDaemonSetSpecStrategy{}
	ios := func(name string) {
		raw := rapid.SampledFrom(c16IntOrPct).Draw(rt, name)
		if raw != "1" && raw != "2" && raw != "50%" {
			boundary++
		}
		if raw == "<nil>" {
			return
		}
		v := gen.ParseIntOrPercent(raw)
		switch name {
		case "maxUnavailable":
			s.RollingUpdate.MaxUnavailable = v
		case "maxPodSchedulerFailure":
			s.RollingUpdate.MaxPodSchedulerFailure = v
		case "slowStartAdditiveIncrease":
			s.RollingUpdate.SlowStartAdditiveIncrease = v
		}
	}
	ios("maxUnavailable")
	ios("maxPodSchedulerFailure")
	ios("slowStartAdditiveIncrease")
	switch mp := rapid.SampledFrom([]int64{-999, 0, -1, 1, 3, 250, 2147483647}).Draw(rt, "maxParallelPodCreation"); mp {
	case -999:
		boundary++
	default:
		v := int32(mp)
		s.RollingUpdate.MaxParallelPodCreation = &v
		if mp <= 0 {
			boundary++
		}
	}
	s.RollingUpdate.SlowStartIntervalDuration = c16Dur(rt, "slowStartIntervalDuration")
	if d := s.RollingUpdate.SlowStartIntervalDuration; d == nil || d.Duration <= 0 {
		boundary++
	}
	s.ReconcileFrequency = c16Dur(rt, "reconcileFrequency")
	if d := s.ReconcileFrequency; d == nil || d.Duration <= 0 {
		boundary++
	}
	if rapid.IntRange(0, 3).Draw(rt, "hasCanary") != 0 {
		c := &edsv1.ExtendedDaemonSetSpecStrategyCanary{}
		if raw := rapid.SampledFrom(c16IntOrPct).Draw(rt, "canaryReplicas"); raw != "<nil>" {
			c.Replicas = gen.ParseIntOrPercent(raw)
			if raw != "1" && raw != "2" && raw != "50%" {
				boundary++
			}
		}
		c.Duration = c16Dur(rt, "canaryDuration")
		c.NoRestartsDuration = c16Dur(rt, "noRestartsDuration")
		c.ValidationMode = rapid.SampledFrom([]edsv1.ExtendedDaemonSetSpecStrategyCanaryValidationMode{"", "auto", "manual"}).Draw(rt, "validationMode")
		switch rapid.IntRange(0, 4).Draw(rt, "nodeSelector") {
		case 1:
			c.NodeSelector = &metav1.LabelSelector{}
		case 2:
			c.NodeSelector = &metav1.LabelSelector{MatchLabels: map[string]string{"zone": "a"}}
		case 3:
			c.NodeSelector = &metav1.LabelSelector{MatchExpressions: []metav1.LabelSelectorRequirement{{Key: "zone", Operator: metav1.LabelSelectorOpIn}}} // unusable: In without values
			boundary++
		case 4:
			c.NodeSelector = &metav1.LabelSelector{MatchLabels: map[string]string{"pool": "canary"}} // matches no node (yet)
			boundary++
		}
		if rapid.Bool().Draw(rt, "antiAffinity") {
			c.NodeAntiAffinityKeys = []string{"zone"}
		}
		b := func(name string) *bool {
			switch rapid.IntRange(0, 2).Draw(rt, name) {
			case 1:
				v := true
				return &v
			case 2:
				v := false
				return &v
			}
			boundary++
			return nil
		}
		i32 := func(name string) *int32 {
			switch v := rapid.SampledFrom([]int64{-999, -1, 0, 1, 3, 5, 2147483647}).Draw(rt, name); v {
			case -999:
				boundary++
				return nil
			default:
				x := int32(v)
				if v <= 0 {
					boundary++
				}
				return &x
			}
		}
		if rapid.IntRange(0, 3).Draw(rt, "hasAutoPause") != 0 {
			c.AutoPause = &edsv1.ExtendedDaemonSetSpecStrategyCanaryAutoPause{Enabled: b("autoPauseEnabled"), MaxRestarts: i32("autoPauseMaxRestarts"), MaxSlowStartDuration: c16Dur(rt, "maxSlowStartDuration")}
		} else {
			boundary++
		}
		if rapid.IntRange(0, 3).Draw(rt, "hasAutoFail") != 0 {
			c.AutoFail = &edsv1.ExtendedDaemonSetSpecStrategyCanaryAutoFail{Enabled: b("autoFailEnabled"), MaxRestarts: i32("autoFailMaxRestarts"), MaxRestartsDuration: c16Dur(rt, "maxRestartsDuration"), CanaryTimeout: c16Dur(rt, "canaryTimeout")}
		} else {
			boundary++
		}
		s.Canary = c
	}
	return s, boundary
}

// c16Check runs the whole C16 oracle on one spec. It returns violations (never panics itself).
// c16Env: environment of the reconcile rounds of c16Check (set by the lattice test, zero for the fuzz target).
var c16Env struct {
	FailEveryPodWrite int  // every k-th pod write of the replica-set controller is refused (0 = none)
	ShortGaps         bool // rounds 2s apart (inside reconcileFrequency) instead of 11s
	FewNodes          int  // 0 = three nodes; 1 = a cluster without nodes; 2 = a single node
}

func c16Check(strategy edsv1.ExtendedDaemonSetSpecStrategy, mode edsv1.ExtendedDaemonSetSpecStrategyCanaryValidationMode, templateName string, reconcile bool) (vs []mon.V) {
	add := func(sig, detail string) {
		b, _ := json.Marshal(strategy)
		vs = append(vs, mon.V{Property: "C16", Monitor: "defaulting", Sig: sig, Detail: detail + "\nstrategy: " + string(b) + " defaultValidationMode=" + string(mode)})
	}
	guard := func(what string, f func()) (ok bool) {
		defer func() {
			if p := recover(); p != nil {
				add("C16/no-panic/"+what+"/"+panicSiteOf(string(debug.Stack())), fmt.Sprintf("%s panicked: %v", what, p))
				ok = false
			}
		}()
		f()
		return true
	}
	in := &edsv1.ExtendedDaemonSet{ObjectMeta: metav1.ObjectMeta{Namespace: "ns1", Name: "foo"}, Spec: edsv1.ExtendedDaemonSetSpec{Template: letterTpl('A'), Strategy: strategy}}
	in.Spec.Template.Name = templateName
	orig := in.DeepCopy()
	var d1, d2 *edsv1.ExtendedDaemonSet
	if !guard("Default", func() { d1 = edsv1.DefaultExtendedDaemonSet(in, mode) }) {
		return vs
	}
	if !apiequality.Semantic.DeepEqual(in, orig) {
		add("C16/default/mutates-its-input", "DefaultExtendedDaemonSet changed the object it was given")
	}
	guard("Default", func() { d2 = edsv1.DefaultExtendedDaemonSet(d1, mode) })
	if d2 != nil && !apiequality.Semantic.DeepEqual(d1, d2) {
		add("C16/default/not-idempotent", fmt.Sprintf("Default(Default(x)) != Default(x): %s", diffJSON(d1.Spec.Strategy, d2.Spec.Strategy)))
	}
	var isDef bool
	guard("IsDefaulted", func() { isDef = edsv1.IsDefaultedExtendedDaemonSet(d1) })
	if !isDef {
		add("C16/default/not-recognised-as-defaulted", "IsDefaultedExtendedDaemonSet(Default(x)) is false: reconciliation would loop on defaulting")
	}
	// every field the reconcilers dereference is filled
	ds := d1.Spec.Strategy
	missing := []string{}
	if ds.RollingUpdate.MaxUnavailable == nil {
		missing = append(missing, "rollingUpdate.maxUnavailable")
	}
	if ds.RollingUpdate.MaxPodSchedulerFailure == nil {
		missing = append(missing, "rollingUpdate.maxPodSchedulerFailure")
	}
	if ds.RollingUpdate.MaxParallelPodCreation == nil {
		missing = append(missing, "rollingUpdate.maxParallelPodCreation")
	}
	if ds.RollingUpdate.SlowStartIntervalDuration == nil {
		missing = append(missing, "rollingUpdate.slowStartIntervalDuration")
	}
	if ds.RollingUpdate.SlowStartAdditiveIncrease == nil {
		missing = append(missing, "rollingUpdate.slowStartAdditiveIncrease")
	}
	if ds.ReconcileFrequency == nil {
		missing = append(missing, "reconcileFrequency")
	}
	if c := ds.Canary; c != nil {
		if c.Replicas == nil {
			missing = append(missing, "canary.replicas")
		}
		if c.ValidationMode == "" {
			missing = append(missing, "canary.validationMode")
		}
		if c.AutoPause == nil || c.AutoPause.Enabled == nil || c.AutoPause.MaxRestarts == nil {
			missing = append(missing, "canary.autoPause.*")
		}
		if c.AutoFail == nil || c.AutoFail.Enabled == nil || c.AutoFail.MaxRestarts == nil {
			missing = append(missing, "canary.autoFail.*")
		}
		if c.ValidationMode == edsv1.ExtendedDaemonSetSpecStrategyCanaryValidationModeAuto && c.Duration == nil {
			missing = append(missing, "canary.duration (auto mode)")
		}
	}
	if len(missing) > 0 {
		add("C16/default/field-left-unset", "after defaulting these fields are still nil: "+strings.Join(missing, ", "))
	}
	if (strategy.Canary == nil) != (ds.Canary == nil) {
		add("C16/default/canary-block-added-or-removed", "defaulting added or removed the canary block")
	}
	// no user-set value is changed (apart from clearing template.metadata.name)
	if d1.Spec.Template.Name != "" {
		add("C16/default/template-name-not-cleared", "template.metadata.name survives defaulting")
	}
	for _, ch := range userSetChanged(reflect.ValueOf(strategy), reflect.ValueOf(ds), "strategy") {
		add("C16/default/user-value-changed/"+strings.Split(ch, " ")[0], "defaulting changed a value the user set: "+ch)
	}
	// validation: returns, and rejects the documented cases
	var verr error
	okV := guard("Validate", func() { verr = edsv1.ValidateExtendedDaemonSetSpec(&d1.Spec) })
	if okV {
		if c := ds.Canary; c != nil && c.AutoFail != nil && c.AutoPause != nil && c.AutoFail.Enabled != nil && c.AutoPause.Enabled != nil && c.AutoFail.MaxRestarts != nil && c.AutoPause.MaxRestarts != nil {
			if *c.AutoFail.Enabled && *c.AutoPause.Enabled && *c.AutoFail.MaxRestarts < *c.AutoPause.MaxRestarts && verr == nil {
				add("C16/validate/accepts-autoFail-below-autoPause", "autoFail.maxRestarts < autoPause.maxRestarts (both enabled) accepted")
			}
			if *c.AutoFail.Enabled && c.AutoFail.CanaryTimeout != nil && c.Duration != nil && c.AutoFail.CanaryTimeout.Duration <= c.Duration.Duration && verr == nil {
				add("C16/validate/accepts-canaryTimeout-not-above-duration", "canaryTimeout <= duration accepted")
			}
			if c.ValidationMode == edsv1.ExtendedDaemonSetSpecStrategyCanaryValidationModeManual && (c.Duration != nil || c.NoRestartsDuration != nil) && verr == nil {
				add("C16/validate/accepts-duration-in-manual-mode", "duration/noRestartsDuration with validationMode=manual accepted")
			}
		}
	}
	if !reconcile || len(vs) > 0 {
		return vs
	}
	// reconciliation of the (undefaulted) object: results or errors, never a crash; the canary paths run too
	c := sim.New(sim.Options{DefaultValidationMode: mode})
	for i := 0; i < map[int]int{0: 3, 1: 0, 2: 1}[c16Env.FewNodes]; i++ {
		c.AddNode(fmt.Sprintf("n%d", i), map[string]string{"zone": "a"}, nil)
	}
	c.Add(in.DeepCopy())
	// optionally every k-th pod write of the replica-set controller is refused, and some rounds follow each other
	// within reconcileFrequency: an accepted spec must not crash the reconcilers on their error paths either
	if k := c16Env.FailEveryPodWrite; k > 0 {
		n := 0
		c.Faults = func(call *sim.Call) sim.FaultKind {
			if call.Actor != sim.ActorERS || call.Kind != "Pod" || !call.Write {
				return sim.FaultNone
			}
			n++
			if n%k == 0 {
				return sim.FaultReject
			}
			return sim.FaultNone
		}
	}
	run := func(actor, ns, name string) {
		r := c.Reconcile(actor, ns, name)
		if r.Panic != nil {
			add("C16/no-panic/reconcile-"+actor+"/"+panicSiteOf(r.Stack), fmt.Sprintf("%s reconcile panicked: %v\n%s", actor, r.Panic, shortStack(r.Stack)))
		}
	}
	round := func() {
		run(sim.ActorEDS, "ns1", "foo")
		for _, rs := range c.AllERS() {
			run(sim.ActorERS, rs.Namespace, rs.Name)
		}
		c.KubeletProgress()
		gap := 11 * time.Second
		if c16Env.ShortGaps {
			gap = 2 * time.Second
		}
		c.Advance(gap)
	}
	for i := 0; i < 4 && len(vs) == 0; i++ {
		round()
	}
	_ = c.EditEDS("ns1", "foo", func(x *edsv1.ExtendedDaemonSet) { x.Spec.Template = letterTpl('B') })
	for i := 0; i < 4 && len(vs) == 0; i++ {
		round()
	}
	// a pod that restarts and one that cannot start, so the canary evaluation has something to look at
	for _, p := range c.Pods() {
		c.Restart(p.Namespace, p.Name, 0, "Error")
	}
	c.Advance(3 * time.Minute)
	for i := 0; i < 3 && len(vs) == 0; i++ {
		round()
	}
	// a second restart a while after the first one, the canary still running (its restart bookkeeping has a history now)
	c.Advance(2 * time.Minute)
	for _, p := range c.Pods() {
		c.Restart(p.Namespace, p.Name, 0, "Error")
	}
	for i := 0; i < 2 && len(vs) == 0; i++ {
		round()
	}
	// the user removes the canary block while the canary runs (the spec stays an accepted one); whichever controller
	// runs first afterwards must cope: the replica set the status still names as canary, then the ExtendedDaemonSet
	if cur := c.EDS("ns1", "foo"); cur != nil && cur.Spec.Strategy.Canary != nil && cur.Status.Canary != nil && len(vs) == 0 {
		_ = c.EditEDS("ns1", "foo", func(x *edsv1.ExtendedDaemonSet) { x.Spec.Strategy.Canary = nil })
		c.Advance(11 * time.Second)
		for _, rs := range c.AllERS() {
			run(sim.ActorERS, rs.Namespace, rs.Name)
		}
		for i := 0; i < 2 && len(vs) == 0; i++ {
			round()
		}
	}
	if os.Getenv("VERIF_C16_DEBUG") != "" {
		fmt.Println(strings.Join(c.Trace, "\n"))
		for _, rs := range c.AllERS() {
			fmt.Printf("RS %s conditions: %+v\n", rs.Name, rs.Status.Conditions)
		}
	}
	return vs
}

// TestC16AllButOne: a spec that sets every defaultable field itself except one (or two). Such a spec may be recognised
// as already defaulted and then never passes through defaulting: every field the reconcilers dereference must be
// guarded or filled all the same. Complete enumeration of the single and double omissions, both default modes, with
// the reconcile rounds of the lattice test.
func TestC16AllButOne(t *testing.T) {
	rec := evid.New("TestC16AllButOne", "C16", "a fully specified strategy (every rollingUpdate field, reconcileFrequency, canary with replicas, duration, noRestartsDuration, an (empty) nodeSelector, validationMode auto, autoPause and autoFail blocks with every field) minus one or two of its 17 optional fields - complete enumeration of the single and double omissions x controller default mode; oracle of TestC16Lattice (defaulting idempotent, recognised, fields filled, validation) and the reconcile rounds incl. two restarts of every pod some minutes apart while the canary runs: no panic; non-trivial = every case; distinct by the omitted fields")
	full := func() edsv1.ExtendedDaemonSetSpecStrategy {
		tr := true
		i32 := func(v int32) *int32 { return &v }
		d := func(x time.Duration) *metav1.Duration { return &metav1.Duration{Duration: x} }
		s := edsv1.ExtendedDaemonSetSpecStrategy{ReconcileFrequency: d(10 * time.Second)}
		s.RollingUpdate = edsv1.ExtendedDaemonSetSpecStrategyRollingUpdate{MaxUnavailable: gen.ParseIntOrPercent("1"), MaxPodSchedulerFailure: gen.ParseIntOrPercent("1"), MaxParallelPodCreation: i32(10),
			SlowStartIntervalDuration: d(time.Minute), SlowStartAdditiveIncrease: gen.ParseIntOrPercent("5")}
		s.Canary = &edsv1.ExtendedDaemonSetSpecStrategyCanary{Replicas: gen.ParseIntOrPercent("1"), Duration: d(10 * time.Minute), NoRestartsDuration: d(5 * time.Minute),
			ValidationMode: edsv1.ExtendedDaemonSetSpecStrategyCanaryValidationModeAuto, NodeSelector: &metav1.LabelSelector{},
			AutoPause: &edsv1.ExtendedDaemonSetSpecStrategyCanaryAutoPause{Enabled: &tr, MaxRestarts: i32(2), MaxSlowStartDuration: d(10 * time.Minute)},
			AutoFail:  &edsv1.ExtendedDaemonSetSpecStrategyCanaryAutoFail{Enabled: &tr, MaxRestarts: i32(5), MaxRestartsDuration: d(time.Hour), CanaryTimeout: d(30 * time.Minute)}}
		return s
	}
	omit := []struct {
		name string
		f    func(s *edsv1.ExtendedDaemonSetSpecStrategy)
	}{
		{"reconcileFrequency", func(s *edsv1.ExtendedDaemonSetSpecStrategy) { s.ReconcileFrequency = nil }},
		{"maxUnavailable", func(s *edsv1.ExtendedDaemonSetSpecStrategy) { s.RollingUpdate.MaxUnavailable = nil }},
		{"maxPodSchedulerFailure", func(s *edsv1.ExtendedDaemonSetSpecStrategy) { s.RollingUpdate.MaxPodSchedulerFailure = nil }},
		{"maxParallelPodCreation", func(s *edsv1.ExtendedDaemonSetSpecStrategy) { s.RollingUpdate.MaxParallelPodCreation = nil }},
		{"slowStartIntervalDuration", func(s *edsv1.ExtendedDaemonSetSpecStrategy) { s.RollingUpdate.SlowStartIntervalDuration = nil }},
		{"slowStartAdditiveIncrease", func(s *edsv1.ExtendedDaemonSetSpecStrategy) { s.RollingUpdate.SlowStartAdditiveIncrease = nil }},
		{"canary.replicas", func(s *edsv1.ExtendedDaemonSetSpecStrategy) { s.Canary.Replicas = nil }},
		{"canary.duration", func(s *edsv1.ExtendedDaemonSetSpecStrategy) { s.Canary.Duration = nil }},
		{"canary.noRestartsDuration", func(s *edsv1.ExtendedDaemonSetSpecStrategy) { s.Canary.NoRestartsDuration = nil }},
		{"canary.validationMode", func(s *edsv1.ExtendedDaemonSetSpecStrategy) { s.Canary.ValidationMode = "" }},
		{"canary.autoPause.enabled", func(s *edsv1.ExtendedDaemonSetSpecStrategy) { s.Canary.AutoPause.Enabled = nil }},
		{"canary.autoPause.maxRestarts", func(s *edsv1.ExtendedDaemonSetSpecStrategy) { s.Canary.AutoPause.MaxRestarts = nil }},
		{"canary.autoPause.maxSlowStartDuration", func(s *edsv1.ExtendedDaemonSetSpecStrategy) { s.Canary.AutoPause.MaxSlowStartDuration = nil }},
		{"canary.autoFail.enabled", func(s *edsv1.ExtendedDaemonSetSpecStrategy) { s.Canary.AutoFail.Enabled = nil }},
		{"canary.autoFail.maxRestarts", func(s *edsv1.ExtendedDaemonSetSpecStrategy) { s.Canary.AutoFail.MaxRestarts = nil }},
		{"canary.autoFail.maxRestartsDuration", func(s *edsv1.ExtendedDaemonSetSpecStrategy) { s.Canary.AutoFail.MaxRestartsDuration = nil }},
		{"canary.autoFail.canaryTimeout", func(s *edsv1.ExtendedDaemonSetSpecStrategy) { s.Canary.AutoFail.CanaryTimeout = nil }},
	}
	failed := false
	ff := &firstFail{t: t, failed: &failed}
	shard, shards := envInt("VERIF_SHARD", 0), envInt("VERIF_SHARDS", 1)
	n := 0
	for i := -1; i < len(omit); i++ {
		for j := i; j < len(omit); j++ {
			if j == i && i >= 0 {
				continue
			}
			if i == -1 && j == -1 {
				continue
			}
			for _, mode := range []edsv1.ExtendedDaemonSetSpecStrategyCanaryValidationMode{edsv1.ExtendedDaemonSetSpecStrategyCanaryValidationModeAuto, edsv1.ExtendedDaemonSetSpecStrategyCanaryValidationModeManual} {
				n++
				if n%shards != shard {
					continue
				}
				s := full()
				desc := "omitted: "
				if i >= 0 {
					omit[i].f(&s)
					desc += omit[i].name + ", "
				}
				omit[j].f(&s)
				desc += omit[j].name + fmt.Sprintf("; default mode %s", mode)
				vs := c16Check(s, mode, "", true)
				rec.Case(true, evid.FP(desc))
				rec.Steps(1)
				if rec.WantSample() {
					rec.Sample(desc)
				}
				settle(ff, rec, vs, map[string]interface{}{"omitted": desc}, 1, desc)
			}
		}
	}
	rec.Exhaustive(true)
	if !failed {
		rec.Done()
	}
}

func shortStack(s string) string {
	var keep []string
	lines := strings.Split(s, "\n")
	for i, l := range lines {
		if strings.Contains(l, "DataDog/extendeddaemonset") && !strings.Contains(l, "verifclock") {
			keep = append(keep, strings.TrimSpace(l))
			if i+1 < len(lines) {
				keep = append(keep, "  "+strings.TrimSpace(lines[i+1]))
			}
		}
		if len(keep) >= 10 {
			break
		}
	}
	return strings.Join(keep, "\n")
}

// panicSiteOf names the first repository function on a stack.
func panicSiteOf(stack string) string {
	for _, l := range strings.Split(stack, "\n") {
		l = strings.TrimSpace(l)
		if strings.HasPrefix(l, "github.com/DataDog/extendeddaemonset/") && !strings.Contains(l, "verifclock") {
			l = strings.TrimPrefix(l, "github.com/DataDog/extendeddaemonset/")
			if i := strings.LastIndex(l, "("); i > 0 && strings.HasSuffix(l, ")") {
				l = l[:i]
			}
			return l
		}
	}
	return "unknown"
}

func diffJSON(a, b interface{}) string {
	x, _ := json.Marshal(a)
	y, _ := json.Marshal(b)
	return string(x) + " vs " + string(y)
}

// userSetChanged walks two values of the same struct type; wherever the user's
// value (a) has a non-nil pointer / non-zero leaf, the defaulted value (b) must equal it.
func userSetChanged(a, b reflect.Value, path string) []string {
	var out []string
	switch a.Kind() {
	case reflect.Ptr:
		if a.IsNil() {
			return nil
		}
		if b.IsNil() {
			return []string{path + " set by the user but nil after defaulting"}
		}
		// leaf pointers (IntOrString, Duration, *bool, *int32, LabelSelector) compare as a whole
		if a.Elem().Kind() != reflect.Struct || strings.Contains(a.Type().String(), "IntOrString") || strings.Contains(a.Type().String(), "Duration") || strings.Contains(a.Type().String(), "LabelSelector") {
			if !apiequality.Semantic.DeepEqual(a.Interface(), b.Interface()) {
				return []string{fmt.Sprintf("%s %v -> %v", path, a.Elem().Interface(), b.Elem().Interface())}
			}
			return nil
		}
		return userSetChanged(a.Elem(), b.Elem(), path)
	case reflect.Struct:
		for i := 0; i < a.NumField(); i++ {
			out = append(out, userSetChanged(a.Field(i), b.Field(i), path+"."+a.Type().Field(i).Name)...)
		}
		return out
	case reflect.String:
		if a.String() != "" && a.String() != b.String() {
			return []string{fmt.Sprintf("%s %q -> %q", path, a.String(), b.String())}
		}
	case reflect.Slice:
		if a.Len() > 0 && !reflect.DeepEqual(a.Interface(), b.Interface()) {
			return []string{fmt.Sprintf("%s %v -> %v", path, a.Interface(), b.Interface())}
		}
	}
	return out
}

func TestC16Lattice(t *testing.T) {
	rec := evid.New("TestC16Lattice", "C16", "strategy drawn from the boundary lattice of every field (absent, 0, negative, 1, huge, percent, malformed percent, plain string; durations <=0 and >0; booleans; validation mode unset/auto/manual; canary block and sub-blocks absent/present; unusable canary nodeSelector, or one that matches no node, with or without anti-affinity keys) x cluster of 3, 1 or 0 nodes x controller default mode x template name; oracle: Default idempotent, recognised as defaulted, every dereferenced field filled, no user value changed, Validate returns and rejects the documented cases, and 11 reconcile rounds (incl. a template change so the canary paths run, pod restarts; optionally every k-th pod write refused and rounds inside reconcileFrequency) never panic; non-trivial = at least one field at a boundary value; distinct by JSON of the strategy")
	t.Cleanup(func() {
		if !t.Failed() {
			rec.Done()
		}
	})
	rapid.Check(t, func(rt *rapid.T) {
		strategy, boundary := c16Strategy(rt)
		mode := rapid.SampledFrom([]edsv1.ExtendedDaemonSetSpecStrategyCanaryValidationMode{"auto", "manual"}).Draw(rt, "defaultValidationMode")
		tname := rapid.SampledFrom([]string{"", "", "agent"}).Draw(rt, "templateName")
		b, _ := json.Marshal(strategy)
		var classes []string
		if strategy.Canary != nil {
			classes = append(classes, "canary-block")
		}
		rec.Case(boundary > 0, evid.FP(string(b), mode, tname), classes...)
		if boundary > 0 {
			rec.Sample(map[string]interface{}{"strategy": json.RawMessage(b), "defaultValidationMode": mode})
		}
		c16Env.FailEveryPodWrite = rapid.SampledFrom([]int{0, 0, 1, 2, 3}).Draw(rt, "failEveryPodWrite")
		c16Env.ShortGaps = rapid.IntRange(0, 3).Draw(rt, "shortGaps") == 0
		c16Env.FewNodes = rapid.SampledFrom([]int{0, 0, 0, 1, 2}).Draw(rt, "fewNodes")
		vs := c16Check(strategy, mode, tname, true)
		faultDesc := fmt.Sprintf("failEveryPodWrite=%d shortGaps=%v nodes=%d", c16Env.FailEveryPodWrite, c16Env.ShortGaps, map[int]int{0: 3, 1: 0, 2: 1}[c16Env.FewNodes])
		c16Env.FailEveryPodWrite, c16Env.ShortGaps, c16Env.FewNodes = 0, false, 0
		settle(rt, rec, vs, map[string]interface{}{"strategy": json.RawMessage(b), "defaultValidationMode": mode, "templateName": tname, "environment": faultDesc}, len(b), "")
	})
}

// FuzzC16Spec: coverage-guided fuzzing of the serialized strategy. Bytes that do not decode
// into the typed spec (or name a validation mode outside the CRD enum) are not accepted specs.
func FuzzC16Spec(f *testing.F) {
	f.Add([]byte(`{"rollingUpdate":{"maxUnavailable":"abc","slowStartIntervalDuration":"0s"}}`), false)
	f.Add([]byte(`{"rollingUpdate":{"maxUnavailable":1},"canary":{"replicas":"50%","validationMode":"manual","autoFail":{"canaryTimeout":"1m"}}}`), true)
	f.Add([]byte(`{"canary":{"duration":"1m","autoPause":{"enabled":true,"maxRestarts":5},"autoFail":{"enabled":true,"maxRestarts":1}}}`), false)
	f.Add([]byte(`{"reconcileFrequency":"0s","rollingUpdate":{"maxParallelPodCreation":0,"slowStartAdditiveIncrease":"200%"}}`), false)
	f.Fuzz(func(t *testing.T, data []byte, manual bool) {
		var s edsv1.ExtendedDaemonSetSpecStrategy
		if err := json.Unmarshal(data, &s); err != nil {
			t.Skip()
		}
		if s.Canary != nil && s.Canary.ValidationMode != "" && s.Canary.ValidationMode != "auto" && s.Canary.ValidationMode != "manual" {
			t.Skip()
		}
		mode := edsv1.ExtendedDaemonSetSpecStrategyCanaryValidationModeAuto
		if manual {
			mode = edsv1.ExtendedDaemonSetSpecStrategyCanaryValidationModeManual
		}
		for _, v := range c16Check(s, mode, "", true) {
			if !knownSigs[v.Sig] {
				t.Fatalf("%s", v)
			}
		}
	})
}
