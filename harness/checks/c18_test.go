package checks

import (
	"context"
	"fmt"
	"sort"
	"strings"
	"testing"
	"time"

	autoscalingv1 "k8s.io/api/autoscaling/v1"
	corev1 "k8s.io/api/core/v1"
	"k8s.io/apimachinery/pkg/api/resource"
	metav1 "k8s.io/apimachinery/pkg/apis/meta/v1"
	"k8s.io/apimachinery/pkg/labels"
	"pgregory.net/rapid"

	edsv1 "github.com/DataDog/extendeddaemonset/api/v1alpha1"
	"verifharness/evid"
	"verifharness/gen"
	"verifharness/mon"
	"verifharness/oracle"
	"verifharness/sim"
)

type c18Setting struct {
	NS, Name  string
	CreatedAt int    // seconds offset; equal values = creation-time tie
	Selector  string // "zone=a", "tier=a", "zone in (a,b)", "zone exists", "all", "bad"
	Ref       string // "", "foo", "bar", "nil"
	Res       string // which resources it demands: "" or "requests" (cpu request), "limits" (memory limit), "both"; values differ per setting
}

type c18Case struct {
	Settings []c18Setting
	Nodes    []map[string]string
	Order    []int
	ListRev  []bool // per reconcile: the settings list is answered in reverse order (cache order is unspecified)
	Remove   []int  // settings deleted after everything was reconciled; the others are then reconciled again
	Pending  []int  // settings the setting controller has not reconciled yet when the pods are created (empty status)
	// third phase (only without Remove / Pending): a further, newer setting arrives after the verdicts stand. It is
	// reconciled, then every setting is reconciled once more (a resync: "each reconciled against the same cluster
	// state"), and a reconcile is run again only if it returned an error (retry) or changed its own object (watch
	// event) - as the work queue would. One read call of the setting controller in this phase may fail.
	Late      *c18Setting
	FaultRead int // 0 = none; n = the n-th get/list of the setting controller in the third phase fails
	FaultKind sim.FaultKind
	// Terminating: settings that are being deleted when the pods are created but are held by a finalizer (foreground
	// deletion, a GitOps finalizer): they still exist, keep their verdict and apply like any other setting
	Terminating []int
}

func (k c18Case) String() string {
	var s []string
	for _, x := range k.Settings {
		s = append(s, fmt.Sprintf("%s/%s{t=%d sel=%q ref=%q res=%s}", x.NS, x.Name, x.CreatedAt, x.Selector, x.Ref, x.Res))
	}
	late := ""
	if k.Late != nil {
		late = fmt.Sprintf(" lateArrival=%s/%s{sel=%q ref=%q} failingRead=#%d(%s)", k.Late.NS, k.Late.Name, k.Late.Selector, k.Late.Ref, k.FaultRead, k.FaultKind)
	}
	return fmt.Sprintf("settings=[%s] nodes=%v order=%v listReversed=%v removedAfterwards=%v notYetReconciled=%v terminatingUnderAFinalizer=%v%s", strings.Join(s, " "), k.Nodes, k.Order, k.ListRev, k.Remove, k.Pending, k.Terminating, late)
}

// c18Bad: selectors that cannot be converted (In without values, an unknown operator, an illegal value).
func c18Bad(sel string) bool { return strings.HasPrefix(sel, "bad") }

func c18Selector(s string) metav1.LabelSelector {
	switch s {
	case "zone=a":
		return metav1.LabelSelector{MatchLabels: map[string]string{"zone": "a"}}
	case "zone=b":
		return metav1.LabelSelector{MatchLabels: map[string]string{"zone": "b"}}
	case "tier=a":
		return metav1.LabelSelector{MatchLabels: map[string]string{"tier": "a"}}
	case "zone in (a,b)":
		return metav1.LabelSelector{MatchExpressions: []metav1.LabelSelectorRequirement{{Key: "zone", Operator: metav1.LabelSelectorOpIn, Values: []string{"a", "b"}}}}
	case "zone exists":
		return metav1.LabelSelector{MatchExpressions: []metav1.LabelSelectorRequirement{{Key: "zone", Operator: metav1.LabelSelectorOpExists}}}
	case "tier notin (a)":
		return metav1.LabelSelector{MatchExpressions: []metav1.LabelSelectorRequirement{{Key: "tier", Operator: metav1.LabelSelectorOpNotIn, Values: []string{"a"}}}}
	case "bad-op":
		return metav1.LabelSelector{MatchExpressions: []metav1.LabelSelectorRequirement{{Key: "zone", Operator: "Gt", Values: []string{"1"}}}} // not an operator of label selectors
	case "bad-value":
		return metav1.LabelSelector{MatchLabels: map[string]string{"zone": "not a label value!"}}
	case "bad":
		return metav1.LabelSelector{MatchExpressions: []metav1.LabelSelectorRequirement{{Key: "zone", Operator: metav1.LabelSelectorOpIn}}} // In without values: unusable
	}
	return metav1.LabelSelector{} // everything
}

var c18Selectors = []string{"zone=a", "zone=a", "zone=b", "tier=a", "zone in (a,b)", "zone exists", "tier notin (a)", "all", "bad", "bad-op", "bad-value"}

// c18Name: short names, and now and then one longer than a label value may be (63 characters): object names go up to
// 253. (The simulated API does not validate label values; a real server would refuse a pod labelled with such a name.)
func c18Name(rt *rapid.T, i int) string {
	if rapid.IntRange(0, 5).Draw(rt, fmt.Sprintf("s%d-longname", i)) == 0 {
		return fmt.Sprintf("set-%c-%s", 'a'+i, strings.Repeat("x", 64))
	}
	return fmt.Sprintf("set-%c", 'a'+i)
}

func c18Draw(rt *rapid.T) c18Case {
	k := c18Case{}
	n := rapid.IntRange(1, 4).Draw(rt, "nSettings")
	for i := 0; i < n; i++ {
		k.Settings = append(k.Settings, c18Setting{
			NS:        rapid.SampledFrom([]string{"ns1", "ns1", "ns1", "ns2"}).Draw(rt, fmt.Sprintf("s%d-ns", i)),
			Name:      c18Name(rt, i),
			CreatedAt: rapid.IntRange(0, 2).Draw(rt, fmt.Sprintf("s%d-created", i)),
			Selector:  rapid.SampledFrom(c18Selectors).Draw(rt, fmt.Sprintf("s%d-sel", i)),
			Ref:       rapid.SampledFrom([]string{"foo", "foo", "foo", "bar", "", "nil"}).Draw(rt, fmt.Sprintf("s%d-ref", i)),
			Res:       rapid.SampledFrom([]string{"requests", "requests", "limits", "both"}).Draw(rt, fmt.Sprintf("s%d-res", i)),
		})
	}
	nn := rapid.IntRange(0, 4).Draw(rt, "nNodes")
	for i := 0; i < nn; i++ {
		l := map[string]string{}
		if z := rapid.SampledFrom([]string{"a", "b", "c", ""}).Draw(rt, fmt.Sprintf("n%d-zone", i)); z != "" {
			l["zone"] = z
		}
		if z := rapid.SampledFrom([]string{"a", "b", ""}).Draw(rt, fmt.Sprintf("n%d-tier", i)); z != "" {
			l["tier"] = z
		}
		k.Nodes = append(k.Nodes, l)
	}
	idx := make([]int, n)
	for i := range idx {
		idx[i] = i
	}
	k.Order = rapid.Permutation(idx).Draw(rt, "order")
	k.ListRev = rapid.SliceOfN(rapid.Bool(), 2*n, 2*n).Draw(rt, "listReversed")
	if rapid.IntRange(0, 3).Draw(rt, "somePending") == 0 {
		for i := 0; i < n; i++ {
			if rapid.IntRange(0, 2).Draw(rt, fmt.Sprintf("s%d-pending", i)) == 0 {
				k.Pending = append(k.Pending, i)
			}
		}
	}
	if n > 1 && rapid.Bool().Draw(rt, "removal") {
		for i := 0; i < n; i++ {
			if rapid.IntRange(0, 2).Draw(rt, fmt.Sprintf("s%d-removed", i)) == 0 && len(k.Remove) < n-1 {
				k.Remove = append(k.Remove, i)
			}
		}
	}
	if len(k.Remove) == 0 && len(k.Pending) == 0 && rapid.IntRange(0, 3).Draw(rt, "someTerminating") == 0 {
		for i := 0; i < n; i++ {
			if rapid.IntRange(0, 1).Draw(rt, fmt.Sprintf("s%d-terminating", i)) == 0 {
				k.Terminating = append(k.Terminating, i)
			}
		}
	}
	if len(k.Remove) == 0 && len(k.Pending) == 0 && len(k.Terminating) == 0 && rapid.Bool().Draw(rt, "lateArrival") {
		k.Late = &c18Setting{NS: "ns1", Name: "set-late", Selector: rapid.SampledFrom(c18Selectors).Draw(rt, "late-sel"), Ref: rapid.SampledFrom([]string{"foo", "foo", "foo", "bar"}).Draw(rt, "late-ref"), Res: "requests"}
		if rapid.Bool().Draw(rt, "late-failing-read") {
			k.FaultRead = rapid.IntRange(1, 3*(n+1)).Draw(rt, "late-failing-read-index")
			k.FaultKind = rapid.SampledFrom([]sim.FaultKind{sim.FaultReject, sim.FaultRejectTyped}).Draw(rt, "late-failing-read-kind")
		}
	}
	return k
}

// runC18 reconciles every setting (in the given order, twice) and judges the statuses, then lets the
// replica set of an ExtendedDaemonSet "foo" in ns1 create pods and judges the setting attached to each.
func runC18(k c18Case) (vs []mon.V, err error) {
	add := func(sig, detail string) {
		vs = append(vs, mon.V{Property: "C18", Monitor: "settings", Sig: sig, Detail: detail + "\ncase: " + k.String()})
	}
	c := sim.New(sim.Options{})
	for i, l := range k.Nodes {
		c.AddNode(fmt.Sprintf("n%d", i), l, nil)
	}
	base := c.Now()
	for i, s := range k.Settings {
		rr := corev1.ResourceRequirements{}
		if s.Res == "" || s.Res == "requests" || s.Res == "both" {
			rr.Requests = corev1.ResourceList{corev1.ResourceCPU: resource.MustParse(fmt.Sprintf("%dm", 101+i))}
		}
		if s.Res == "limits" || s.Res == "both" {
			rr.Limits = corev1.ResourceList{corev1.ResourceMemory: resource.MustParse(fmt.Sprintf("%dMi", 101+i))}
		}
		obj := &edsv1.ExtendedDaemonsetSetting{ObjectMeta: metav1.ObjectMeta{Namespace: s.NS, Name: s.Name, CreationTimestamp: metav1.NewTime(base.Add(time.Duration(s.CreatedAt) * time.Second))},
			Spec: edsv1.ExtendedDaemonsetSettingSpec{NodeSelector: c18Selector(s.Selector), Containers: []edsv1.ExtendedDaemonsetSettingContainerSpec{{Name: "agent", Resources: rr}}}}
		if s.Ref != "nil" {
			obj.Spec.Reference = &autoscalingv1.CrossVersionObjectReference{Kind: "ExtendedDaemonset", Name: s.Ref}
		}
		c.Add(obj)
	}
	c.Advance(time.Minute)
	step := 0
	c.ListOrder = func(kind string, n int) []int {
		perm := make([]int, n)
		for i := range perm {
			perm[i] = i
			if kind == "ExtendedDaemonsetSettingList" && step < len(k.ListRev) && k.ListRev[step] {
				perm[i] = n - 1 - i
			}
		}
		return perm
	}
	pending := map[string]bool{}
	for _, i := range k.Pending {
		if i < len(k.Settings) {
			pending[k.Settings[i].NS+"/"+k.Settings[i].Name] = true
		}
	}
	var status map[string]edsv1.ExtendedDaemonsetSettingStatus
	var isValid func(s c18Setting) bool
	var matches func(s c18Setting, l map[string]string) bool
	// judge reconciles every setting of the current population twice in the given order and compares the statuses
	// with the reference verdict
	eventDriven := false
	judge := func() (stop bool) {
		for pass := 0; pass < 2 && !eventDriven; pass++ {
			for _, i := range k.Order {
				step = pass*len(k.Order) + 0
				for pos, j := range k.Order {
					if j == i {
						step = pass*len(k.Order) + pos
					}
				}
				if pending[k.Settings[i].NS+"/"+k.Settings[i].Name] {
					continue
				}
				r := c.Reconcile(sim.ActorSetting, k.Settings[i].NS, k.Settings[i].Name)
				if r.Panic != nil {
					add("C18/no-panic/"+panicSiteOf(r.Stack), fmt.Sprintf("setting reconcile panicked: %v", r.Panic))
					return true
				}
			}
		}
		// ---- reference verdict
		usable := func(s c18Setting) bool { return !c18Bad(s.Selector) }
		hasRef := func(s c18Setting) bool { return s.Ref != "nil" && s.Ref != "" }
		matches = func(s c18Setting, l map[string]string) bool {
			sel, e := metav1.LabelSelectorAsSelector(func() *metav1.LabelSelector { x := c18Selector(s.Selector); return &x }())
			return e == nil && sel.Matches(labels.Set(l))
		}
		overlap := func(a, b c18Setting) bool {
			if a.NS != b.NS || !usable(a) || !usable(b) {
				return false
			}
			for _, l := range k.Nodes {
				if matches(a, l) && matches(b, l) {
					return true
				}
			}
			return false
		}
		status = map[string]edsv1.ExtendedDaemonsetSettingStatus{}
		for _, s := range k.Settings {
			if o := c.Setting(s.NS, s.Name); o != nil {
				status[s.NS+"/"+s.Name] = o.Status
			}
		}
		isValid = func(s c18Setting) bool {
			return status[s.NS+"/"+s.Name].Status == edsv1.ExtendedDaemonsetSettingStatusValid
		}
		for i, s := range k.Settings {
			st := status[s.NS+"/"+s.Name]
			if pending[s.NS+"/"+s.Name] {
				continue // not reconciled yet: no verdict is due (its empty status must simply not count as valid)
			}
			if !hasRef(s) || !usable(s) {
				if st.Status != edsv1.ExtendedDaemonsetSettingStatusError || st.Error == "" {
					why := "no-reference"
					if hasRef(s) {
						why = "unusable-selector"
					}
					add("C18/settings/malformed-not-in-error/"+why, fmt.Sprintf("setting %s (%s) has status %q error %q", s.Name, why, st.Status, st.Error))
				}
				continue
			}
			if isValid(s) && st.Error != "" {
				add("C18/settings/valid-with-error-text", fmt.Sprintf("setting %s is valid but still reports the error %q", s.Name, st.Error))
			}
			overlapsAny := false
			for j, o := range k.Settings {
				if i == j {
					continue
				}
				if overlap(s, o) {
					overlapsAny = true
					if i < j && isValid(s) && isValid(o) {
						add("C18/settings/two-overlapping-valid", fmt.Sprintf("settings %s and %s match a common node and are both valid", s.Name, o.Name))
					}
				}
			}
			if !overlapsAny && !isValid(s) {
				poisoned := "plain"
				for _, o := range k.Settings {
					if o.NS == s.NS && !usable(o) {
						poisoned = "another-setting-has-unusable-selector"
					}
				}
				add("C18/settings/well-formed-non-overlapping-not-valid/"+poisoned, fmt.Sprintf("setting %s is well formed and overlaps no other setting but has status %q error %q", s.Name, st.Status, st.Error))
			}
			if overlapsAny && !isValid(s) && !strings.Contains(st.Error, "conflict") {
				add("C18/settings/invalid-without-conflict-error", fmt.Sprintf("setting %s overlaps another one and is not valid, but its error %q does not report a conflict", s.Name, st.Error))
			}
		}
		return false
	}
	// ---- only valid settings influence pods; at most one per node. The replica set of "foo" syncs until quiet and
	// every daemon pod that exists is judged (after a change of the verdicts, pods created under the old ones
	// must have been replaced)
	var prep *Prep
	rsName := ""
	syncPods := func(phase string) (stop bool) {
		saved := c.ListOrder
		c.ListOrder = nil
		defer func() { c.ListOrder = saved }()
		if len(k.Nodes) == 0 {
			return false
		}
		if prep == nil {
			st := edsv1.ExtendedDaemonSetSpecStrategy{}
			hundred := int32(250)
			st.RollingUpdate.MaxParallelPodCreation = &hundred
			five := intstrOf(10)
			st.RollingUpdate.SlowStartAdditiveIncrease = &five
			st.RollingUpdate.MaxUnavailable = gen.ParseIntOrPercent("100%")
			prep = prepare(c, "ns1", "foo", st, nil, "A")
			rsName = prep.RS['A']
		}
		for round := 0; round < 6; round++ {
			c.Advance(time.Minute)
			r := c.Reconcile(sim.ActorERS, "ns1", rsName)
			if r.Panic != nil {
				add("C18/no-panic/"+panicSiteOf(r.Stack), fmt.Sprintf("replica-set reconcile panicked: %v", r.Panic))
				return true
			}
			c.KubeletProgress()
			writes := 0
			for _, call := range r.Calls {
				if call.Kind == "Pod" && call.Write {
					writes++
				}
			}
			if writes == 0 && round > 0 {
				break
			}
			if round == 5 {
				add("C18/pods/not-settling"+phase, fmt.Sprintf("after six syncs of the replica set (kubelet progress in between) it still creates or deletes pods: %d pod writes in the last one", writes))
				return true
			}
		}
		for _, pod := range c.Pods() {
			if pod.Namespace != "ns1" || pod.Labels[oracle.LabelEDSName] != "foo" || pod.DeletionTimestamp != nil {
				continue
			}
			name, ns := pod.Labels[oracle.LabelSettingName], pod.Labels[oracle.LabelSettingNS]
			nodeLabels := map[string]string{}
			if n := c.Node(oracle.NodeOf(pod)); n != nil {
				nodeLabels = n.Labels
			}
			if name == "" {
				if rr := pod.Spec.Containers[0].Resources; rr.Requests != nil || rr.Limits != nil {
					add("C18/pods/resources-without-setting-label"+phase, fmt.Sprintf("pod on %s has setting resources %v but no setting label", oracle.NodeOf(pod), rr))
				}
				// a valid setting of this ExtendedDaemonSet that matches the node must have been applied
				for i := range k.Settings {
					if st := k.Settings[i]; st.NS == "ns1" && st.Ref == "foo" && isValid(st) && matches(st, nodeLabels) {
						add("C18/pods/valid-setting-not-applied"+phase, fmt.Sprintf("pod on %s (labels %v) carries no setting although the valid setting %s selects the node", oracle.NodeOf(pod), nodeLabels, st.Name))
					}
				}
				continue
			}
			var s *c18Setting
			for i := range k.Settings {
				if k.Settings[i].Name == name && k.Settings[i].NS == ns {
					s = &k.Settings[i]
				}
			}
			switch {
			case s == nil:
				add("C18/pods/unknown-setting"+phase, fmt.Sprintf("pod on %s carries setting %s/%s which does not exist", oracle.NodeOf(pod), ns, name))
			case !isValid(*s):
				add("C18/pods/invalid-setting-applied"+phase, fmt.Sprintf("pod on %s carries setting %s whose status is %q", oracle.NodeOf(pod), name, status[s.NS+"/"+s.Name].Status))
			case s.NS != "ns1" || s.Ref != "foo":
				add("C18/pods/foreign-setting-applied"+phase, fmt.Sprintf("pod on %s carries setting %s/%s which references %q", oracle.NodeOf(pod), s.NS, name, s.Ref))
			case !matches(*s, nodeLabels):
				add("C18/pods/setting-does-not-match-node"+phase, fmt.Sprintf("pod on %s (labels %v) carries setting %s (selector %s)", oracle.NodeOf(pod), nodeLabels, name, s.Selector))
			}
		}
		return len(vs) > 0
	}
	if judge() {
		return vs, nil
	}
	for _, i := range k.Terminating {
		if i < len(k.Settings) {
			st := k.Settings[i]
			c.MutateSetting(st.NS, st.Name, func(x *edsv1.ExtendedDaemonsetSetting) { x.Finalizers = append(x.Finalizers, "verif/keep") })
			if o := c.Setting(st.NS, st.Name); o != nil {
				_ = c.Env().Delete(context.Background(), o)
			}
		}
	}
	if len(vs) == 0 && syncPods("") {
		return vs, nil
	}
	if len(vs) == 0 && len(k.Remove) > 0 {
		// second phase: some settings are deleted (a competitor goes away); the verdict of the remaining
		// population must be reached from the statuses the first phase left behind
		var keep []c18Setting
		remap := map[int]int{}
		for i, st := range k.Settings {
			gone := false
			for _, r := range k.Remove {
				if r == i {
					gone = true
				}
			}
			if gone {
				c.DeleteSetting(st.NS, st.Name)
				continue
			}
			remap[i] = len(keep)
			keep = append(keep, st)
		}
		var order []int
		for _, i := range k.Order {
			if j, ok := remap[i]; ok {
				order = append(order, j)
			}
		}
		k.Settings, k.Order = keep, order
		c.Advance(time.Minute)
		if judge() {
			return vs, nil
		}
		for i := range vs {
			vs[i].Sig += "/after-removal"
		}
		if len(vs) == 0 && syncPods("/after-removal") {
			return vs, nil
		}
	}
	if len(vs) == 0 && k.Late != nil && len(k.Remove) == 0 && len(k.Pending) == 0 {
		mk := func(st c18Setting, idx int) *edsv1.ExtendedDaemonsetSetting {
			rr := corev1.ResourceRequirements{Requests: corev1.ResourceList{corev1.ResourceCPU: resource.MustParse(fmt.Sprintf("%dm", 101+idx))}}
			obj := &edsv1.ExtendedDaemonsetSetting{ObjectMeta: metav1.ObjectMeta{Namespace: st.NS, Name: st.Name, CreationTimestamp: metav1.NewTime(c.Now().Truncate(time.Second))},
				Spec: edsv1.ExtendedDaemonsetSettingSpec{NodeSelector: c18Selector(st.Selector), Containers: []edsv1.ExtendedDaemonsetSettingContainerSpec{{Name: "agent", Resources: rr}}}}
			if st.Ref != "nil" {
				obj.Spec.Reference = &autoscalingv1.CrossVersionObjectReference{Kind: "ExtendedDaemonset", Name: st.Ref}
			}
			return obj
		}
		c.Advance(time.Minute)
		c.Add(mk(*k.Late, len(k.Settings)))
		k.Settings = append(k.Settings, *k.Late)
		reads, hit := 0, ""
		c.Faults = func(call *sim.Call) sim.FaultKind {
			if call.Actor != sim.ActorSetting || (call.Verb != "get" && call.Verb != "list") {
				return sim.FaultNone
			}
			reads++
			if k.FaultRead > 0 && reads == k.FaultRead {
				hit = call.String()
				return k.FaultKind
			}
			return sim.FaultNone
		}
		// one request served the way the work queue serves it: again after an error, again after its own write
		serve := func(st c18Setting) bool {
			for i := 0; i < 8; i++ {
				c.Advance(time.Second)
				r := c.Reconcile(sim.ActorSetting, st.NS, st.Name)
				if r.Panic != nil {
					add("C18/no-panic/"+panicSiteOf(r.Stack), fmt.Sprintf("setting reconcile panicked: %v", r.Panic))
					return true
				}
				wrote := false
				for _, call := range r.Calls {
					if call.Write && call.Applied && call.Name == st.Name {
						wrote = true
					}
				}
				if r.Err == nil && !wrote {
					return false
				}
			}
			return false
		}
		stop := serve(*k.Late)
		order := append([]int(nil), k.Order...)
		for _, i := range order {
			if !stop {
				stop = serve(k.Settings[i])
			}
		}
		c.Faults = nil
		if !stop {
			eventDriven = true
			k.Order = append(k.Order, len(k.Settings)-1)
			judge()
			for i := range vs {
				vs[i].Sig += "/after-a-late-arrival"
				if hit != "" {
					vs[i].Detail += "\nfailing read: " + hit
				}
			}
			if len(vs) == 0 {
				syncPods("/after-a-late-arrival")
			}
		}
	}
	return vs, nil
}

func TestC18Settings(t *testing.T) {
	rec := evid.New("TestC18Settings", "C18", "population of 1-4 settings in one or two namespaces (creation times equal or different, selectors by labels or expressions incl. an unusable one, reference present/empty/absent/other EDS) x 0-4 labelled nodes x a reconcile order, every setting reconciled twice in that order, optionally some settings are left unreconciled (empty status: they must not influence pods) or are being deleted under a finalizer when the pods are created (they still exist and apply), then optionally some settings are deleted and the others reconciled twice again (the verdict must follow the new population), or a further, newer setting arrives after the verdicts stand, is reconciled, and every setting is reconciled once more - in this phase a reconcile is repeated only after an error or a write to its own object (as the work queue does) and one get/list of the setting controller may fail (generic error or ServerTimeout); oracle: malformed => error, overlapping pairs never both valid, well-formed non-overlapping => valid, invalid overlapping => conflict error; then a replica-set sync creates pods whose setting label must name a valid, matching setting of that EDS; non-trivial = two settings overlap on a node, a creation-time tie, or a malformed setting; distinct by case rendering")
	t.Cleanup(func() {
		if !t.Failed() {
			rec.Done()
		}
	})
	rapid.Check(t, func(rt *rapid.T) {
		k := c18Draw(rt)
		c18One(rt, rec, k)
	})
}

func c18One(f fataler, rec *evid.Rec, k c18Case) {
	nt := false
	var classes []string
	times := map[string]bool{}
	for _, s := range k.Settings {
		if c18Bad(s.Selector) || s.Ref == "nil" || s.Ref == "" {
			nt = true
			classes = append(classes, "malformed")
		}
		key := fmt.Sprintf("%s/%d", s.NS, s.CreatedAt)
		if times[key] {
			nt = true
			classes = append(classes, "creation-time-tie")
		}
		times[key] = true
	}
	for i := range k.Settings {
		for j := i + 1; j < len(k.Settings); j++ {
			a, b := k.Settings[i], k.Settings[j]
			if a.NS == b.NS && !c18Bad(a.Selector) && !c18Bad(b.Selector) {
				for _, l := range k.Nodes {
					sa, _ := metav1.LabelSelectorAsSelector(func() *metav1.LabelSelector { x := c18Selector(a.Selector); return &x }())
					sb, _ := metav1.LabelSelectorAsSelector(func() *metav1.LabelSelector { x := c18Selector(b.Selector); return &x }())
					if sa.Matches(labels.Set(l)) && sb.Matches(labels.Set(l)) {
						nt = true
						classes = append(classes, "overlap")
					}
				}
			}
		}
	}
	sort.Strings(classes)
	rec.Case(nt, evid.FP(k.String()), uniq(classes)...)
	if nt {
		rec.Sample(k.String())
	}
	vs, err := runC18(k)
	if err != nil {
		f.Fatalf("%v", err)
	}
	rec.Steps(2 * len(k.Settings))
	settle(f, rec, vs, map[string]interface{}{"case": k.String()}, len(k.Settings)+len(k.Nodes), "")
}

func uniq(s []string) []string {
	var out []string
	for i, x := range s {
		if i == 0 || x != s[i-1] {
			out = append(out, x)
		}
	}
	return out
}

// TestC18AllOrders: for generated populations, every one of the (up to 24) reconcile orders.
func TestC18AllOrders(t *testing.T) {
	rec := evid.New("TestC18AllOrders", "C18", "as TestC18Settings, but each generated population is reconciled in every permutation of its settings (exhaustive in the order dimension); non-trivial as there; distinct by case rendering incl. the order")
	t.Cleanup(func() {
		if !t.Failed() {
			rec.Done()
		}
	})
	rec.Exhaustive(true)
	rapid.Check(t, func(rt *rapid.T) {
		k := c18Draw(rt)
		idx := make([]int, len(k.Settings))
		for i := range idx {
			idx[i] = i
		}
		permute(idx, 0, func(p []int) {
			k2 := k
			k2.Order = append([]int(nil), p...)
			c18One(rt, rec, k2)
		})
	})
}

func permute(a []int, i int, f func([]int)) {
	if i == len(a) {
		f(a)
		return
	}
	for j := i; j < len(a); j++ {
		a[i], a[j] = a[j], a[i]
		permute(a, i+1, f)
		a[i], a[j] = a[j], a[i]
	}
}
