package checks

import (
	"encoding/json"
	"fmt"
	"testing"
	"time"

	autoscalingv1 "k8s.io/api/autoscaling/v1"
	corev1 "k8s.io/api/core/v1"
	"k8s.io/apimachinery/pkg/api/resource"
	metav1 "k8s.io/apimachinery/pkg/apis/meta/v1"

	edsv1 "github.com/DataDog/extendeddaemonset/api/v1alpha1"
	"verifharness/evid"
	"verifharness/gen"
	"verifharness/mon"
	"verifharness/oracle"
	"verifharness/sim"
)

// The replay tier: the shrunk failing cases of every defect that was found and fixed, as plain
// deterministic checks that bypass the property library. They re-use the oracles of the
// generated checks; a regression makes them fail in seconds with the original signature.

func regress(t *testing.T, rec *evid.Rec, name string, vs []mon.V, err error, trace interface{}) {
	if err != nil {
		t.Fatalf("%s: harness: %v", name, err)
	}
	rec.Case(true, evid.FP(name), "regression:"+name)
	rec.Sample(map[string]interface{}{"regression": name, "input": trace})
	settle(t, rec, vs, map[string]interface{}{"regression": name, "input": trace}, 1, "regression case "+name)
}

// F1: available pod deleted although unavailable old pods existed (C03).
func TestRegressC03(t *testing.T) {
	rec := evid.New("TestRegressC03", "C03", "saved minimal layouts of the fixed C03 defects, 40 store forks each")
	kinds := []string{"none", "old-unavailable", "old-available", "old-unavailable", "adopted-unavailable", "adopted-unavailable", "none", "adopted-available", "old-available"}
	c := sim.New(sim.Options{AffinityMode: true})
	for i := range kinds {
		c.AddNode(fmt.Sprintf("n%02d", i), map[string]string{"zone": "a", "tier": "a"}, nil)
	}
	st := edsv1.ExtendedDaemonSetSpecStrategy{}
	st.RollingUpdate.MaxUnavailable = gen.ParseIntOrPercent("3")
	st.RollingUpdate.MaxPodSchedulerFailure = gen.ParseIntOrPercent("0")
	p := prepare(c, "ns1", "foo", st, map[string]string{oracle.AnnOldDaemonset: "old-ds"}, "AB")
	p.addOldDaemonSet()
	c.Advance(20 * time.Minute)
	for i, k := range kinds {
		node := fmt.Sprintf("n%02d", i)
		switch k {
		case "old-available":
			p.addPod(node, 'A', PSAvailable, 15*time.Minute)
		case "old-unavailable":
			p.addPod(node, 'A', PSUnavailable, 15*time.Minute)
		case "adopted-available":
			p.addPod(node, 0, PSAvailable, 15*time.Minute)
		case "adopted-unavailable":
			p.addPod(node, 0, PSUnavailable, 15*time.Minute)
		}
	}
	var vs []mon.V
	for f := 0; f < 40 && len(vs) == 0; f++ {
		r := c.Fork().Reconcile(sim.ActorERS, "ns1", p.RS['B'])
		vs = append(vs, mon.Check(r, mon.Of("budget", "no-panic"), nil)...)
	}
	regress(t, rec, "F1-unavailable-first", vs, nil, kinds)
	rec.Done()
}

// F3 and the promotion lattice corners (C05).
func TestRegressC05(t *testing.T) {
	rec := evid.New("TestRegressC05", "C05", "saved lattice points of the fixed C05 defects")
	for _, k := range []c05Case{
		{Strategy: 1, AgeVsDur: 2, NoRestarts: 0, LastRestart: 0, Pause: 0, Valid: 0, Failed: true, ActiveExists: true},
		{Strategy: 1, AgeVsDur: 3, NoRestarts: 1, LastRestart: 0, Pause: 0, Valid: 0, Failed: true, ActiveExists: true, StatusCanary: 1},
		{Strategy: 2, AgeVsDur: 3, Valid: 2, ActiveExists: true, StatusCanary: 2},
		// F20: the pause annotation lands between the promoting reconcile's read and its status write
		{Strategy: 1, AgeVsDur: 2, ActiveExists: true, PauseLands: true},
	} {
		vs, _, err := runC05(k)
		regress(t, rec, "F3/F20-"+k.String(), vs, err, k)
	}
	rec.Done()
}

// F6a, F13 (C15).
func TestRegressC15(t *testing.T) {
	rec := evid.New("TestRegressC15", "C15", "saved cases of the fixed C15 defects (percent replicas; anti-affinity quota consumed by unfit nodes)")
	var racks []c15Node
	for i := 0; i < 8; i++ {
		racks = append(racks, c15Node{Name: fmt.Sprintf("n%02d", i), Zone: "a", Rack: "r1", Tier: "a", Tainted: i < 7})
	}
	var plain []c15Node
	for i := 0; i < 6; i++ {
		plain = append(plain, c15Node{Name: fmt.Sprintf("n%02d", i), Zone: "a", Rack: "r1", Tier: "a"})
	}
	for name, k := range map[string]c15Case{
		"F13-quota-consumed-by-unfit-nodes": {Nodes: racks, Replicas: "1", Selector: true, Keys: []string{"rack"}, BSelector: true},
		"F6a-percent-replicas":              {Nodes: plain, Replicas: "50%"},
	} {
		vs, _, err := runC15(k)
		regress(t, rec, name, vs, err, k)
	}
	rec.Done()
}

// F7a-c (C16).
func TestRegressC16(t *testing.T) {
	rec := evid.New("TestRegressC16", "C16", "saved strategies of the fixed C16 crashes")
	for name, js := range map[string]string{
		"F7c-malformed-percent":        `{"rollingUpdate":{"maxPodSchedulerFailure":"50%","slowStartAdditiveIncrease":"5 0%"},"reconcileFrequency":"-1s"}`,
		"F7b-zero-slow-start":          `{"rollingUpdate":{"slowStartIntervalDuration":"0s"}}`,
		"F7a-manual-mode-with-timeout": `{"rollingUpdate":{},"canary":{"autoFail":{"canaryTimeout":"0s"}}}`,
		"F7c-abc":                      `{"rollingUpdate":{"maxUnavailable":"abc"}}`,
	} {
		var s edsv1.ExtendedDaemonSetSpecStrategy
		if err := json.Unmarshal([]byte(js), &s); err != nil {
			t.Fatal(err)
		}
		for _, mode := range []edsv1.ExtendedDaemonSetSpecStrategyCanaryValidationMode{"auto", "manual"} {
			regress(t, rec, name+"/"+string(mode), c16Check(s, mode, "", true), nil, json.RawMessage(js))
		}
	}
	rec.Done()
}

// F9 (C18).
func TestRegressC18(t *testing.T) {
	rec := evid.New("TestRegressC18", "C18", "saved populations of the fixed C18 defects (one unusable selector; pods of a deleted setting; a failing list of the settings while a new setting arrives)")
	for name, k := range map[string]c18Case{
		"F9-bad-selector-no-nodes":         {Settings: []c18Setting{{NS: "ns1", Name: "set-a", Selector: "zone=a", Ref: "foo"}, {NS: "ns1", Name: "set-b", Selector: "bad", Ref: "foo"}}, Order: []int{0, 1}, ListRev: make([]bool, 4)},
		"F19-setting-deleted-pods-keep-it": {Settings: []c18Setting{{NS: "ns1", Name: "set-a", Selector: "zone=a", Ref: "foo", Res: "requests"}, {NS: "ns1", Name: "set-b", Selector: "zone=b", Ref: "foo", Res: "limits"}}, Nodes: []map[string]string{{"zone": "a"}, {"zone": "b"}}, Order: []int{0, 1}, ListRev: make([]bool, 4), Remove: []int{0}},
		"F22-settings-list-fails-for-a-new-setting": {Settings: []c18Setting{{NS: "ns1", Name: "set-a", Selector: "zone=a", Ref: "foo"}}, Order: []int{0}, ListRev: make([]bool, 2),
			Late: &c18Setting{NS: "ns1", Name: "set-late", Selector: "zone=a", Ref: "foo", Res: "requests"}, FaultRead: 2, FaultKind: sim.FaultReject},
		"F22-settings-list-fails-for-the-older-competitor": {Settings: []c18Setting{{NS: "ns1", Name: "set-a", Selector: "zone=a", Ref: "foo"}}, Nodes: []map[string]string{{"zone": "a"}}, Order: []int{0}, ListRev: make([]bool, 2),
			Late: &c18Setting{NS: "ns1", Name: "set-late", Selector: "zone=a", Ref: "foo", Res: "requests"}, FaultRead: 5, FaultKind: sim.FaultRejectTyped},
		"F9-bad-selector-poisons": {Settings: []c18Setting{{NS: "ns1", Name: "set-a", Selector: "zone=a", Ref: "foo"}, {NS: "ns1", Name: "set-b", Selector: "bad", Ref: "foo", CreatedAt: 1}}, Nodes: []map[string]string{{"zone": "a"}}, Order: []int{1, 0}, ListRev: make([]bool, 4)},
	} {
		vs, err := runC18(k)
		regress(t, rec, name, vs, err, k.String())
	}
	rec.Done()
}

// F4 (C10).
func TestRegressC10(t *testing.T) {
	rec := evid.New("TestRegressC10", "C10", "saved inputs of the fixed C10 defect (override annotation and setting for one container)")
	tpl := letterTpl('A')
	tpl.Spec.Containers = []corev1.Container{{Name: "c0", Image: "img:1"}, {Name: "c1", Image: "img:1"}, {Name: "c2", Image: "img:1"}}
	k := c10Case{Template: tpl, NodeLabels: map[string]string{"zone": "a"}, Desc: "override:c2,setting:c2",
		NodeAnn: map[string]string{fmt.Sprintf(c10AnnKey, "ns1", "foo", "c2"): `{"requests":{"cpu":"250m"}}`},
		Setting: &edsv1.ExtendedDaemonsetSetting{ObjectMeta: metav1.ObjectMeta{Namespace: "ns1", Name: "setting-a"},
			Spec: edsv1.ExtendedDaemonsetSettingSpec{Reference: &autoscalingv1.CrossVersionObjectReference{Kind: "ExtendedDaemonset", Name: "foo"},
				Containers: []edsv1.ExtendedDaemonsetSettingContainerSpec{{Name: "c2", Resources: corev1.ResourceRequirements{Limits: corev1.ResourceList{corev1.ResourceMemory: resource.MustParse("128Mi")}, Requests: corev1.ResourceList{corev1.ResourceCPU: resource.MustParse("500m")}}}}},
			Status: edsv1.ExtendedDaemonsetSettingStatus{Status: edsv1.ExtendedDaemonsetSettingStatusValid}}}
	for _, aff := range []bool{false, true} {
		k.Affinity = aff
		vs, err := runC10(k)
		regress(t, rec, fmt.Sprintf("F4-annotation-and-setting/affinity=%v", aff), vs, err, k.Desc)
	}
	rec.Done()
}

// F11 (C20).
func TestRegressC20(t *testing.T) {
	rec := evid.New("TestRegressC20", "C20", "saved label maps of the fixed C20 defect")
	for _, labels := range []map[string]string{
		{"app.kubernetes.io/name": "foo-bar"},
		{"extendeddaemonset.datadoghq.com/name": "foo", "a.b": "1", "a_b": "2", "a-b": "3"},
	} {
		var vs []mon.V
		if sig, detail := checkInfoLabels(labels); sig != "" {
			vs = append(vs, mon.V{Property: "C20", Monitor: "info-labels", Sig: sig, Detail: detail})
		}
		regress(t, rec, fmt.Sprintf("F11-%d-labels", len(labels)), vs, nil, labels)
	}
	rec.Done()
}

// F17 (C06): cannot-start pod without startTime, maxSlowStartDuration set.
func TestRegressC06(t *testing.T) {
	rec := evid.New("TestRegressC06", "C06", "saved case of the fixed C06 defect (cannot-start canary pod whose status has no startTime)")
	for _, wait := range []string{"ImagePullBackOff", "ContainerCreating"} {
		k := c06Case{PauseEnabled: true, FailEnabled: true, P: 2, F: 2, MaxSlowStart: 2 * time.Minute, CanaryAge: -1, PriorRestartSpan: -1, PriorRestartAgo: 10 * time.Minute}
		k.Pods[0] = c06Pod{Present: true, StartedAgo: 2 * time.Minute, Containers: []c06Container{{Restarts: 0}}}
		k.Pods[2] = c06Pod{Present: true, StartedAgo: -1, Containers: []c06Container{{Restarts: 0, Waiting: wait}}}
		vs, _, err := runC06(k)
		regress(t, rec, "F17-no-start-time/"+wait, vs, err, k.String())
	}
	rec.Done()
}

// F23 (C12/C13): an ExtendedDaemonSet whose own metadata carries the reserved name label with another value.
func TestRegressC12(t *testing.T) {
	rec := evid.New("TestRegressC12", "C12", "saved case of the fixed C12/C13 defect: the ExtendedDaemonSet itself carries extendeddaemonset.datadoghq.com/name with a foreign value")
	c := sim.New(sim.Options{})
	c.AddNode("n1", map[string]string{"zone": "a", "tier": "a"}, nil)
	c.Add(&edsv1.ExtendedDaemonSet{ObjectMeta: metav1.ObjectMeta{Namespace: "ns1", Name: "foo", Labels: map[string]string{oracle.LabelEDSName: "bar", "team": "a"}}, Spec: edsv1.ExtendedDaemonSetSpec{Template: letterTpl('A')}})
	var vs []mon.V
	for i := 0; i < 4; i++ {
		c.Advance(11 * time.Second)
		r := c.Reconcile(sim.ActorEDS, "ns1", "foo")
		vs = append(vs, mon.Check(r, mon.Of("rs-identity", "no-panic"), nil)...)
	}
	if n := len(c.AllERS()); n != 1 {
		vs = append(vs, mon.V{Property: "C12", Monitor: "rs-identity", Sig: "C13/rs-identity/second-replica-set-for-template", Detail: fmt.Sprintf("%d replica sets after four reconciles of one template", n)})
	}
	regress(t, rec, "F23-eds-carries-the-reserved-name-label", vs, nil, "labels={extendeddaemonset.datadoghq.com/name: bar, team: a}")
	rec.Done()
}
