package checks

import (
	"testing"
	"time"

	corev1 "k8s.io/api/core/v1"
	metav1 "k8s.io/apimachinery/pkg/apis/meta/v1"

	edsv1 "github.com/DataDog/extendeddaemonset/api/v1alpha1"
	"verifharness/sim"
)

func TestSmokeSim(t *testing.T) {
	c := sim.New(sim.Options{})
	for _, n := range []string{"n1", "n2", "n3"} {
		c.AddNode(n, map[string]string{"k": "v"}, nil)
	}
	eds := &edsv1.ExtendedDaemonSet{
		ObjectMeta: metav1.ObjectMeta{Namespace: "ns", Name: "foo"},
		Spec: edsv1.ExtendedDaemonSetSpec{
			Template: corev1.PodTemplateSpec{Spec: corev1.PodSpec{Containers: []corev1.Container{{Name: "c", Image: "img:1"}}}},
		},
	}
	c.Add(eds)
	for round := 0; round < 6; round++ {
		r := c.Reconcile(sim.ActorEDS, "ns", "foo")
		if r.Panic != nil {
			t.Fatalf("panic %v\n%s", r.Panic, r.Stack)
		}
		for _, rs := range c.AllERS() {
			r := c.Reconcile(sim.ActorERS, rs.Namespace, rs.Name)
			if r.Panic != nil {
				t.Fatalf("panic %v\n%s", r.Panic, r.Stack)
			}
		}
		c.KubeletProgress()
		c.Advance(11 * time.Second)
	}
	e := c.EDS("ns", "foo")
	t.Logf("status: %+v", e.Status)
	t.Logf("pods: %d", len(c.Pods()))
	for _, l := range c.Trace {
		t.Log(l)
	}
	if len(c.Pods()) != 3 || e.Status.Ready != 3 {
		t.Fatalf("expected 3 ready pods")
	}
}
