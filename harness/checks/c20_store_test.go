//go:build verif_metrics

package checks

import (
	"bytes"
	"encoding/json"
	"fmt"
	"net/http"
	"net/http/httptest"
	"os"
	"path/filepath"
	"runtime/debug"
	"sort"
	"strings"
	"sync"
	"testing"
	"time"

	metav1 "k8s.io/apimachinery/pkg/apis/meta/v1"
	"k8s.io/apimachinery/pkg/types"
	generator "k8s.io/kube-state-metrics/v2/pkg/metric_generator"
	metricsstore "k8s.io/kube-state-metrics/v2/pkg/metrics_store"
	"pgregory.net/rapid"

	edsv1 "github.com/DataDog/extendeddaemonset/api/v1alpha1"
	edsctrl "github.com/DataDog/extendeddaemonset/controllers/extendeddaemonset"
	ersctrl "github.com/DataDog/extendeddaemonset/controllers/extendeddaemonsetreplicaset"
	edsmetrics "github.com/DataDog/extendeddaemonset/pkg/controller/metrics"
	"verifharness/evid"
	"verifharness/mon"
	"verifharness/sim"
)

// c20API is a small fake API server: discovery for datadoghq.com/v1alpha1 and list + watch for ExtendedDaemonSets and
// ExtendedDaemonSetReplicaSets. Every request to a collection is recorded with its raw query.
type c20API struct {
	mu       sync.Mutex
	eds      []edsv1.ExtendedDaemonSet
	ers      []edsv1.ExtendedDaemonSetReplicaSet
	rv       int
	requests []string                 // "<resource> <raw query>"
	expire   map[string]chan struct{} // per resource: closing it ends the open watch with 410 Gone
	events   map[string]chan []byte
	watches  map[string]int
	lists    map[string]int
	done     chan struct{}
}

func (s *c20API) writeJSON(w http.ResponseWriter, v interface{}) {
	w.Header().Set("Content-Type", "application/json")
	_ = json.NewEncoder(w).Encode(v)
}

func (s *c20API) ServeHTTP(w http.ResponseWriter, r *http.Request) {
	gv := edsv1.GroupVersion
	gvd := metav1.GroupVersionForDiscovery{GroupVersion: gv.String(), Version: gv.Version}
	switch r.URL.Path {
	case "/api":
		s.writeJSON(w, &metav1.APIVersions{TypeMeta: metav1.TypeMeta{Kind: "APIVersions"}, Versions: []string{"v1"}})
	case "/api/v1":
		s.writeJSON(w, &metav1.APIResourceList{TypeMeta: metav1.TypeMeta{Kind: "APIResourceList", APIVersion: "v1"}, GroupVersion: "v1"})
	case "/apis":
		s.writeJSON(w, &metav1.APIGroupList{TypeMeta: metav1.TypeMeta{Kind: "APIGroupList", APIVersion: "v1"},
			Groups: []metav1.APIGroup{{Name: gv.Group, Versions: []metav1.GroupVersionForDiscovery{gvd}, PreferredVersion: gvd}}})
	case "/apis/" + gv.Group:
		s.writeJSON(w, &metav1.APIGroup{TypeMeta: metav1.TypeMeta{Kind: "APIGroup", APIVersion: "v1"}, Name: gv.Group, Versions: []metav1.GroupVersionForDiscovery{gvd}, PreferredVersion: gvd})
	case "/apis/" + gv.String():
		s.writeJSON(w, &metav1.APIResourceList{TypeMeta: metav1.TypeMeta{Kind: "APIResourceList", APIVersion: "v1"}, GroupVersion: gv.String(),
			APIResources: []metav1.APIResource{
				{Name: "extendeddaemonsets", SingularName: "extendeddaemonset", Namespaced: true, Kind: "ExtendedDaemonSet", Verbs: metav1.Verbs{"get", "list", "watch"}},
				{Name: "extendeddaemonsetreplicasets", SingularName: "extendeddaemonsetreplicaset", Namespaced: true, Kind: "ExtendedDaemonSetReplicaSet", Verbs: metav1.Verbs{"get", "list", "watch"}},
			}})
	case "/apis/" + gv.String() + "/extendeddaemonsets", "/apis/" + gv.String() + "/extendeddaemonsetreplicasets":
		res := r.URL.Path[strings.LastIndex(r.URL.Path, "/")+1:]
		s.mu.Lock()
		s.requests = append(s.requests, res+" "+r.URL.RawQuery)
		s.mu.Unlock()
		// like the API server: the first value of a query parameter counts
		if r.URL.Query().Get("watch") == "true" {
			s.serveWatch(w, r, res)
			return
		}
		s.mu.Lock()
		s.lists[res]++
		var body []byte
		if res == "extendeddaemonsets" {
			body, _ = json.Marshal(&edsv1.ExtendedDaemonSetList{TypeMeta: metav1.TypeMeta{Kind: "ExtendedDaemonSetList", APIVersion: gv.String()}, ListMeta: metav1.ListMeta{ResourceVersion: fmt.Sprint(s.rv)}, Items: s.eds})
		} else {
			body, _ = json.Marshal(&edsv1.ExtendedDaemonSetReplicaSetList{TypeMeta: metav1.TypeMeta{Kind: "ExtendedDaemonSetReplicaSetList", APIVersion: gv.String()}, ListMeta: metav1.ListMeta{ResourceVersion: fmt.Sprint(s.rv)}, Items: s.ers})
		}
		s.mu.Unlock()
		w.Header().Set("Content-Type", "application/json")
		_, _ = w.Write(body)
	default:
		http.NotFound(w, r)
	}
}

func (s *c20API) serveWatch(w http.ResponseWriter, r *http.Request, res string) {
	s.mu.Lock()
	s.watches[res]++
	expire, events := s.expire[res], s.events[res]
	s.mu.Unlock()
	w.Header().Set("Content-Type", "application/json")
	w.WriteHeader(http.StatusOK)
	if f, ok := w.(http.Flusher); ok {
		f.Flush()
	}
	for {
		select {
		case ev := <-events:
			_, _ = w.Write(append(ev, '\n'))
			if f, ok := w.(http.Flusher); ok {
				f.Flush()
			}
		case <-expire:
			_, _ = w.Write([]byte(`{"type":"ERROR","object":{"kind":"Status","apiVersion":"v1","metadata":{},"status":"Failure","message":"too old resource version","reason":"Expired","code":410}}` + "\n"))
			return
		case <-s.done:
			return
		case <-r.Context().Done():
			return
		}
	}
}

func c20Lines(text string) []string {
	var out []string
	for _, l := range strings.Split(text, "\n") {
		// the series of the two object kinds; the handler also serves the controller's own gauges (leader election)
		if l != "" && !strings.HasPrefix(l, "#") && !strings.HasPrefix(l, "eds_controller_") {
			out = append(out, l)
		}
	}
	sort.Strings(out)
	return out
}

// c20Expected: the series the family generators yield for the objects the server holds (each kind in its own store).
func c20Expected(eds []edsv1.ExtendedDaemonSet, ers []edsv1.ExtendedDaemonSetReplicaSet) []string {
	buf := &bytes.Buffer{}
	g1 := edsctrl.GenerateMetricFamiliesForVerif()
	s1 := metricsstore.NewMetricsStore(generator.ExtractMetricFamilyHeaders(g1), generator.ComposeMetricGenFuncs(g1))
	for i := range eds {
		_ = s1.Add(eds[i].DeepCopy())
	}
	_ = metricsstore.NewMetricsWriter(s1).WriteAll(buf)
	g2 := ersctrl.GenerateMetricFamiliesForVerif()
	s2 := metricsstore.NewMetricsStore(generator.ExtractMetricFamilyHeaders(g2), generator.ComposeMetricGenFuncs(g2))
	for i := range ers {
		_ = s2.Add(ers[i].DeepCopy())
	}
	_ = metricsstore.NewMetricsWriter(s2).WriteAll(buf)
	return c20Lines(buf.String())
}

// TestC20Store: C20 end to end through the repository's own registration and serving path
// (metrics.GetExtraMetricHandlers -> AddMetrics -> list/watch reflectors -> kube-state-metrics stores -> the /ksmetrics
// handler) against a fake API server. After every generated change - delivered by the watch, or found by the relist
// that follows an expired watch - the text the handler serves must be the series the generators yield for the objects
// the server holds. Every request the reflectors send is checked for its shape (a list is a list, a watch carries its
// parameters once); a scrape that panics or a series set that never catches up although the requests look right is
// reported as such; a time-out without any other sign makes the case inconclusive.
func TestC20Store(t *testing.T) {
	rec := evid.New("TestC20Store", "C20", "the production path GetExtraMetricHandlers -> AddMetrics -> reflectors -> stores -> /ksmetrics handler against a fake API server (discovery, list, watch, 410 Gone): 1-2 ExtendedDaemonSets and 0-2 replica sets with generated counters, states and labels; 2-5 steps from {EDS modified (watch event), replica set modified (watch event), replica set added (watch event), EDS watch expires while an EDS changes (relist), replica-set watch expires while a replica set changes}; oracle after every step: the served series equal the series the generators yield for the server's objects (waiting up to two minutes; a healthy store follows within milliseconds), every collection request has the shape of a list or of a watch with each parameter once, a scrape does not panic; at the end two overlapping scrapes (a slow one held half-way while an object changes and a second scrape is served) each return the text of one state, before or after the change; non-trivial = a relist after an expired watch; distinct by configuration")
	t.Cleanup(func() {
		if !t.Failed() {
			rec.Done()
		}
	})
	t.Setenv("WATCH_NAMESPACE", "")
	rapid.Check(t, func(rt *rapid.T) {
		nEDS := rapid.IntRange(1, 2).Draw(rt, "nEDS")
		nERS := rapid.IntRange(0, 2).Draw(rt, "nERS")
		ns := rapid.IntRange(2, 5).Draw(rt, "steps")
		var steps []string
		for i := 0; i < ns; i++ {
			steps = append(steps, rapid.SampledFrom([]string{"eds-modified", "ers-modified", "ers-added", "eds-watch-expires", "ers-watch-expires"}).Draw(rt, fmt.Sprintf("step%d", i)))
		}
		seed := rapid.IntRange(0, 1000).Draw(rt, "values")
		desc := fmt.Sprintf("eds=%d replicaSets=%d steps=%v values=%d", nEDS, nERS, steps, seed)
		mkEDS := func(i, v int) edsv1.ExtendedDaemonSet {
			e := edsv1.ExtendedDaemonSet{TypeMeta: metav1.TypeMeta{Kind: "ExtendedDaemonSet", APIVersion: edsv1.GroupVersion.String()},
				ObjectMeta: metav1.ObjectMeta{Name: fmt.Sprintf("eds%d", i), Namespace: "ns1", UID: types.UID(fmt.Sprintf("uid-eds%d", i)), ResourceVersion: fmt.Sprint(100 + v),
					Labels: map[string]string{"team": fmt.Sprintf("t%d", v%3), "app.kubernetes.io/name": "agent"}, CreationTimestamp: metav1.NewTime(time.Unix(1700000000, 0))}}
			e.Status = edsv1.ExtendedDaemonSetStatus{Desired: int32(3 + v%4), Current: int32(3 + v%3), Ready: int32(2 + v%2), Available: int32(2 + v%2), UpToDate: int32(v % 4), ActiveReplicaSet: "rs0",
				State: []edsv1.ExtendedDaemonSetStatusState{edsv1.ExtendedDaemonSetStatusStateRunning, edsv1.ExtendedDaemonSetStatusStateRollingUpdatePaused, edsv1.ExtendedDaemonSetStatusStateCanary}[v%3]}
			if v%3 == 2 {
				e.Status.Canary = &edsv1.ExtendedDaemonSetStatusCanary{ReplicaSet: "rs1", Nodes: []string{"n1"}}
			}
			return e
		}
		mkERS := func(i, v int) edsv1.ExtendedDaemonSetReplicaSet {
			r := edsv1.ExtendedDaemonSetReplicaSet{TypeMeta: metav1.TypeMeta{Kind: "ExtendedDaemonSetReplicaSet", APIVersion: edsv1.GroupVersion.String()},
				ObjectMeta: metav1.ObjectMeta{Name: fmt.Sprintf("rs%d", i), Namespace: "ns1", UID: types.UID(fmt.Sprintf("uid-rs%d", i)), ResourceVersion: fmt.Sprint(100 + v),
					Labels: map[string]string{"extendeddaemonset.datadoghq.com/name": "eds0"}, CreationTimestamp: metav1.NewTime(time.Unix(1700000000, 0))}}
			r.Status = edsv1.ExtendedDaemonSetReplicaSetStatus{Desired: int32(3 + v%4), Current: int32(2 + v%3), Ready: int32(1 + v%2), Available: int32(1 + v%2)}
			return r
		}
		api := &c20API{rv: 100, expire: map[string]chan struct{}{"extendeddaemonsets": make(chan struct{}), "extendeddaemonsetreplicasets": make(chan struct{})},
			events: map[string]chan []byte{"extendeddaemonsets": make(chan []byte), "extendeddaemonsetreplicasets": make(chan []byte)}, watches: map[string]int{}, lists: map[string]int{}, done: make(chan struct{})}
		for i := 0; i < nEDS; i++ {
			api.eds = append(api.eds, mkEDS(i, seed+i))
		}
		for i := 0; i < nERS; i++ {
			api.ers = append(api.ers, mkERS(i, seed+i))
		}
		ts := httptest.NewServer(api)
		defer func() {
			close(api.done)
			ts.CloseClientConnections()
			ts.Close()
		}()
		dir, _ := os.MkdirTemp("", "verif-c20-")
		defer os.RemoveAll(dir)
		kubeconfig := filepath.Join(dir, "kubeconfig")
		_ = os.WriteFile(kubeconfig, []byte(fmt.Sprintf("apiVersion: v1\nkind: Config\nclusters:\n- name: fake\n  cluster:\n    server: %s\ncontexts:\n- name: fake\n  context:\n    cluster: fake\n    user: fake\ncurrent-context: fake\nusers:\n- name: fake\n  user: {}\n", ts.URL)), 0o600)
		os.Setenv("KUBECONFIG", kubeconfig)
		var vs []mon.V
		add := func(sig, detail string) {
			if len(vs) == 0 {
				vs = append(vs, mon.V{Property: "C20", Monitor: "metrics-store", Sig: sig, Detail: detail + " (" + desc + ")"})
			}
		}
		handlers, err := edsmetrics.GetExtraMetricHandlers(sim.Scheme)
		if err != nil || handlers["/ksmetrics"] == nil {
			rt.Fatalf("harness: GetExtraMetricHandlers: %v", err)
		}
		scrape := func() (lines []string, panicked string) {
			defer func() {
				if p := recover(); p != nil {
					panicked = fmt.Sprintf("%v\n%s", p, shortStack(string(debug.Stack())))
				}
			}()
			w := httptest.NewRecorder()
			handlers["/ksmetrics"].ServeHTTP(w, httptest.NewRequest("GET", "/ksmetrics", nil))
			return c20Lines(w.Body.String()), ""
		}
		// request shapes: judged on everything the server has seen so far
		shapes := func() string {
			api.mu.Lock()
			defer api.mu.Unlock()
			for _, rq := range api.requests {
				parts := strings.SplitN(rq, " ", 2)
				q := map[string]int{}
				watch := false
				for _, kv := range strings.Split(parts[1], "&") {
					if kv == "" {
						continue
					}
					k := strings.SplitN(kv, "=", 2)[0]
					q[k]++
					if kv == "watch=true" {
						watch = true
					}
				}
				for k, n := range q {
					if n > 1 {
						return fmt.Sprintf("request for %s carries parameter %s %d times: %s", parts[0], k, n, parts[1])
					}
				}
				_ = watch
			}
			return ""
		}
		same := func(a, b []string) bool { return strings.Join(a, "\n") == strings.Join(b, "\n") }
		relisted := false
		expired := map[string]int{} // per resource: how many of the watches opened so far have been expired
		settleStep := func(when string) bool {
			api.mu.Lock()
			want := c20Expected(api.eds, api.ers)
			api.mu.Unlock()
			deadline := time.Now().Add(120 * time.Second) // a healthy store follows within milliseconds
			for {
				got, p := scrape()
				if p != "" {
					add("C20/store/scrape-panics", fmt.Sprintf("%s: serving /ksmetrics panicked: %s", when, p))
					return false
				}
				if bad := shapes(); bad != "" {
					add("C20/store/request-shape", fmt.Sprintf("%s: %s", when, bad))
					return false
				}
				if same(got, want) {
					return true
				}
				if time.Now().After(deadline) {
					api.mu.Lock()
					reqs := append([]string(nil), api.requests...)
					api.mu.Unlock()
					add("C20/store/series-do-not-follow-the-objects", fmt.Sprintf("%s: two minutes later the served series still differ from the objects the server holds\n got:\n%s\nwant:\n%s\nrequests seen: %v", when, strings.Join(got, "\n"), strings.Join(want, "\n"), reqs))
					return false
				}
				time.Sleep(10 * time.Millisecond)
			}
		}
		send := func(res string, ev []byte) bool {
			select {
			case api.events[res] <- ev:
				return true
			case <-time.After(30 * time.Second):
				rt.Fatalf("harness: no open watch on %s took the event within 30s (%s)", res, desc)
				return false
			}
		}
		ok := settleStep("after the first list")
		for i, st := range steps {
			if !ok {
				break
			}
			v := seed + 7*(i+1)
			api.mu.Lock()
			api.rv += 10
			switch st {
			case "eds-modified", "eds-watch-expires":
				api.eds[0] = mkEDS(0, v)
				api.eds[0].ResourceVersion = fmt.Sprint(api.rv)
			case "ers-modified", "ers-watch-expires":
				if len(api.ers) > 0 {
					api.ers[0] = mkERS(0, v)
					api.ers[0].ResourceVersion = fmt.Sprint(api.rv)
				}
			case "ers-added":
				n := mkERS(len(api.ers), v)
				n.ResourceVersion = fmt.Sprint(api.rv)
				api.ers = append(api.ers, n)
			}
			var ev []byte
			res := "extendeddaemonsets"
			switch st {
			case "eds-modified":
				raw, _ := json.Marshal(&api.eds[0])
				ev = []byte(`{"type":"MODIFIED","object":` + string(raw) + `}`)
			case "ers-modified":
				res = "extendeddaemonsetreplicasets"
				if len(api.ers) > 0 {
					raw, _ := json.Marshal(&api.ers[0])
					ev = []byte(`{"type":"MODIFIED","object":` + string(raw) + `}`)
				}
			case "ers-added":
				res = "extendeddaemonsetreplicasets"
				raw, _ := json.Marshal(&api.ers[len(api.ers)-1])
				ev = []byte(`{"type":"ADDED","object":` + string(raw) + `}`)
			case "ers-watch-expires":
				res = "extendeddaemonsetreplicasets"
			}
			var expire chan struct{}
			if strings.HasSuffix(st, "-watch-expires") {
				// only an open watch can expire: wait until the reflector has opened one since the last expiry (the series can
				// match right after the list, before the watch request has arrived)
				for waited := 0; api.watches[res] <= expired[res]; waited++ {
					api.mu.Unlock()
					if waited > 6000 {
						rt.Fatalf("harness: no watch on %s was opened within 60s (%s)", res, desc)
					}
					time.Sleep(10 * time.Millisecond)
					api.mu.Lock()
				}
				expired[res] = api.watches[res]
				expire = api.expire[res]
				api.expire[res] = make(chan struct{})
				relisted = true
			}
			api.mu.Unlock()
			if expire != nil {
				close(expire)
			} else if ev != nil {
				if !send(res, ev) {
					return
				}
			}
			ok = settleStep(fmt.Sprintf("after step %d (%s)", i+1, st))
		}
		// two overlapping scrapes with a change in between: a slow scraper has taken part of its response when an
		// ExtendedDaemonSet changes and a second scrape is served. Each response must be the text of one state the
		// server held - the one before or the one after the change - never a mixture
		if ok {
			api.mu.Lock()
			before := c20Expected(api.eds, api.ers)
			api.mu.Unlock()
			sw := &c20SlowWriter{header: http.Header{}, blocked: make(chan struct{}), release: make(chan struct{})}
			doneA := make(chan string, 1)
			go func() {
				defer func() {
					if p := recover(); p != nil {
						doneA <- fmt.Sprintf("panic: %v", p)
						return
					}
					doneA <- ""
				}()
				handlers["/ksmetrics"].ServeHTTP(sw, httptest.NewRequest("GET", "/ksmetrics", nil))
			}()
			select {
			case <-sw.blocked:
			case <-time.After(60 * time.Second):
				rt.Fatalf("harness: the slow scrape did not start within 60s (%s)", desc)
			}
			api.mu.Lock()
			api.rv += 10
			api.eds[0] = mkEDS(0, seed+977)
			api.eds[0].ResourceVersion = fmt.Sprint(api.rv)
			raw, _ := json.Marshal(&api.eds[0])
			after := c20Expected(api.eds, api.ers)
			api.mu.Unlock()
			sent := make(chan bool, 1)
			go func() { sent <- send("extendeddaemonsets", []byte(`{"type":"MODIFIED","object":`+string(raw)+`}`)) }()
			doneB := make(chan []string, 1)
			go func() {
				lines, _ := scrape()
				doneB <- lines
			}()
			time.Sleep(300 * time.Millisecond) // the change and the second scrape get their chance while the first one is held
			close(sw.release)
			var textA []string
			select {
			case p := <-doneA:
				if p != "" {
					add("C20/store/scrape-panics", "overlapping scrapes: "+p)
				}
				textA = c20Lines(sw.buf.String())
			case <-time.After(60 * time.Second):
				rt.Fatalf("harness: the slow scrape did not finish within 60s (%s)", desc)
			}
			var textB []string
			select {
			case textB = <-doneB:
			case <-time.After(60 * time.Second):
				rt.Fatalf("harness: the second scrape did not finish within 60s (%s)", desc)
			}
			<-sent
			for name, got := range map[string][]string{"the slow scrape": textA, "the scrape served meanwhile": textB} {
				if len(vs) == 0 && !same(got, before) && !same(got, after) {
					add("C20/store/overlapping-scrapes-mix-states", fmt.Sprintf("%s returned a text that matches neither the objects before nor after the change made during it\n got:\n%s\nbefore:\n%s\nafter:\n%s", name, strings.Join(got, "\n"), strings.Join(before, "\n"), strings.Join(after, "\n")))
				}
			}
			if len(vs) == 0 {
				ok = settleStep("after the overlapping scrapes")
			}
		}
		rec.Case(relisted, evid.FP(desc), fmt.Sprintf("relist=%v", relisted))
		rec.Steps(len(steps) + 1)
		if relisted && rec.WantSample() {
			rec.Sample(desc)
		}
		settle(rt, rec, vs, map[string]interface{}{"config": desc}, len(steps), "")
	})
}

// c20SlowWriter is a scraper that takes the first half of the first chunk it is handed and then stalls until released.
type c20SlowWriter struct {
	header  http.Header
	buf     bytes.Buffer
	once    sync.Once
	blocked chan struct{}
	release chan struct{}
}

func (w *c20SlowWriter) Header() http.Header { return w.header }
func (w *c20SlowWriter) WriteHeader(int)     {}
func (w *c20SlowWriter) Write(p []byte) (int, error) {
	half := len(p) / 2
	w.buf.Write(p[:half])
	w.once.Do(func() {
		close(w.blocked)
		<-w.release
	})
	w.buf.Write(p[half:])
	return len(p), nil
}
