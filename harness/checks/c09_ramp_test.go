//go:build verif_rolling

package checks

import (
	"fmt"
	"testing"
	"time"

	metav1 "k8s.io/apimachinery/pkg/apis/meta/v1"
	"pgregory.net/rapid"

	edsv1 "github.com/DataDog/extendeddaemonset/api/v1alpha1"
	"github.com/DataDog/extendeddaemonset/controllers/extendeddaemonsetreplicaset/strategy"
	"verifharness/evid"
	"verifharness/gen"
	"verifharness/mon"
	"verifharness/oracle"
)

// TestC09Ramp: the slow-start ramp at exact instants (through the build-tagged shim), against the
// reference formula min(maxParallelPodCreation, (1+floor(t/interval))*increase) in big integers.
func TestC09Ramp(t *testing.T) {
	rec := evid.New("TestC09Ramp", "C09", "t = k*interval + {-1ns, 0, +1ns, +interval/2} for k in 0..40, interval from 1s to 6h, additive increase as number or percent of 0-500 targeted nodes (rounded up), maxParallelPodCreation 1..1000; oracle: exact equality with the reference formula; non-trivial = t within 1ns of a slot boundary or a percentage increase; distinct by (t, interval, increase, nodes, maxParallel)")
	t.Cleanup(func() {
		if !t.Failed() {
			rec.Done()
		}
	})
	start := time.Date(2030, 1, 1, 0, 0, 0, 0, time.UTC)
	rapid.Check(t, func(rt *rapid.T) {
		interval := rapid.SampledFrom([]time.Duration{time.Second, 7 * time.Second, time.Minute, 90 * time.Minute, 6 * time.Hour}).Draw(rt, "interval")
		k := rapid.IntRange(0, 40).Draw(rt, "k")
		off := rapid.SampledFrom([]time.Duration{-1, 0, 1, interval / 2}).Draw(rt, "offset")
		el := time.Duration(k)*interval + off
		if el < 0 {
			el = 0
		}
		inc := rapid.SampledFrom([]string{"1", "2", "5", "17", "1%", "10%", "33%", "100%", "150%"}).Draw(rt, "increase")
		nodes := rapid.SampledFrom([]int{0, 1, 3, 10, 99, 100, 101, 500}).Draw(rt, "nodes")
		mp := rapid.SampledFrom([]int32{1, 2, 10, 250, 1000}).Draw(rt, "maxParallel")
		ru := &edsv1.ExtendedDaemonSetSpecStrategyRollingUpdate{SlowStartAdditiveIncrease: gen.ParseIntOrPercent(inc), SlowStartIntervalDuration: &metav1.Duration{Duration: interval}, MaxParallelPodCreation: &mp}
		got, err := strategy.CalculateMaxCreationForVerif(ru, nodes, start, start.Add(el))
		step, _ := oracle.Resolve(ru.SlowStartAdditiveIncrease, nodes)
		want := oracle.CreationBound(el, interval, step, mp)
		nt := off == -1 || off == 0 || off == 1 || inc[len(inc)-1] == '%'
		rec.Case(nt, evid.FP(el, interval, inc, nodes, mp))
		if nt {
			rec.Sample(map[string]interface{}{"t": el.String(), "interval": interval.String(), "increase": inc, "nodes": nodes, "maxParallel": mp, "bound": want})
		}
		if err != nil || int64(got) != want {
			settle(rt, rec, []mon.V{{Property: "C09", Monitor: "ramp", Sig: "C09/ramp/differs-from-formula", Detail: fmt.Sprintf("t=%s interval=%s increase=%s of %d nodes maxParallel=%d: controller allows %d creations (err %v), formula gives %d", el, interval, inc, nodes, mp, got, err, want)}}, nil, 1, "")
		}
	})
}
