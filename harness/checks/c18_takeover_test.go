package checks

import (
	"fmt"
	"strings"
	"testing"
	"time"

	autoscalingv1 "k8s.io/api/autoscaling/v1"
	corev1 "k8s.io/api/core/v1"
	apiequality "k8s.io/apimachinery/pkg/api/equality"
	"k8s.io/apimachinery/pkg/api/resource"
	metav1 "k8s.io/apimachinery/pkg/apis/meta/v1"

	edsv1 "github.com/DataDog/extendeddaemonset/api/v1alpha1"
	podutils "github.com/DataDog/extendeddaemonset/pkg/controller/utils/pod"
	"verifharness/evid"
	"verifharness/gen"
	"verifharness/mon"
	"verifharness/oracle"
	"verifharness/sim"
)

// TestC18TakeOver: "only valid settings influence pods and every node is affected by at most one setting" when one
// setting takes a node over from another. A two-container template; setting S1 overrides a subset of the containers,
// the node's pod is built from it; S1 is deleted and a newer setting S2 (same selector) overrides another subset, with
// the same or other values. Once the controllers are quiet, the node's pod is the pod the creation path builds from
// the template and S2 alone - nothing of S1 is left in it. Complete product of the subsets, values and assignment modes.
func TestC18TakeOver(t *testing.T) {
	c18TakeOver(t, "C18")
}

// TestC14TakeOver: the same histories judged as C14 reads them - once quiescent, current / upToDate count the daemon
// pods that run the live template: a pod that still carries what a previous setting gave it does not run what the
// controller would build now, and must not be counted as if it did.
func TestC14TakeOver(t *testing.T) {
	c18TakeOver(t, "C14")
}

func c18TakeOver(t *testing.T, prop string) {
	rec := evid.New("Test"+prop+"TakeOver", prop, "complete product {S1 overrides agent, side, both} x {S2 overrides agent, side, both} x {S2 repeats S1's values, uses other values} x {nodeName, affinity assignment} on one node with a two-container template: S1 reconciled and applied, S1 deleted, S2 created and reconciled, replica-set syncs until quiet; oracle: the node's pod equals (spec, setting labels) the pod CreatePodFromDaemonSetReplicaSet builds from the template and S2, status.current counts it; non-trivial = S2 covers fewer containers than S1; distinct by configuration")
	failed := false
	ff := &firstFail{t: t, failed: &failed}
	sets := [][]string{{"agent"}, {"side"}, {"agent", "side"}}
	for _, c1 := range sets {
		for _, c2 := range sets {
			for _, sameValues := range []bool{true, false} {
				for _, aff := range []bool{false, true} {
					desc := fmt.Sprintf("S1=%v S2=%v sameValues=%v affinityMode=%v", c1, c2, sameValues, aff)
					var vs []mon.V
					c := sim.New(sim.Options{AffinityMode: aff})
					c.AddNode("n1", map[string]string{"zone": "a", "tier": "a"}, nil)
					st := edsv1.ExtendedDaemonSetSpecStrategy{}
					st.RollingUpdate.MaxUnavailable = gen.ParseIntOrPercent("100%")
					st.RollingUpdate.SlowStartAdditiveIncrease = gen.ParseIntOrPercent("10")
					mk := func(name string, containers []string, base int, created time.Time) *edsv1.ExtendedDaemonsetSetting {
						s := &edsv1.ExtendedDaemonsetSetting{ObjectMeta: metav1.ObjectMeta{Namespace: "ns1", Name: name, CreationTimestamp: metav1.NewTime(created.Truncate(time.Second))},
							Spec: edsv1.ExtendedDaemonsetSettingSpec{Reference: &autoscalingv1.CrossVersionObjectReference{Kind: "ExtendedDaemonset", Name: "foo"},
								NodeSelector: metav1.LabelSelector{MatchLabels: map[string]string{"zone": "a"}}}}
						for _, cn := range containers {
							v := base
							if cn == "side" {
								v += 50
							}
							s.Spec.Containers = append(s.Spec.Containers, edsv1.ExtendedDaemonsetSettingContainerSpec{Name: cn, Resources: corev1.ResourceRequirements{
								Requests: corev1.ResourceList{corev1.ResourceCPU: resource.MustParse(fmt.Sprintf("%dm", v))}, Limits: corev1.ResourceList{corev1.ResourceMemory: resource.MustParse(fmt.Sprintf("%dMi", v))}}})
						}
						return s
					}
					c.Add(mk("s1", c1, 200, c.Now()))
					c.Advance(time.Minute)
					c.Reconcile(sim.ActorSetting, "ns1", "s1")
					c.Reconcile(sim.ActorSetting, "ns1", "s1")
					p := prepare(c, "ns1", "foo", st, nil, "C") // letter C: containers agent and side
					rsName := p.RS['C']
					quiet := func(label string) bool {
						for round := 0; round < 8; round++ {
							c.Advance(time.Minute)
							r := c.Reconcile(sim.ActorERS, "ns1", rsName)
							if r.Panic != nil {
								vs = append(vs, mon.V{Property: "C18", Monitor: "take-over", Sig: "C18/no-panic/" + panicSiteOf(r.Stack), Detail: fmt.Sprintf("%v (%s)", r.Panic, desc)})
								return false
							}
							c.KubeletProgress()
							writes := 0
							for _, call := range r.Calls {
								if call.Kind == "Pod" && call.Write {
									writes++
								}
							}
							if writes == 0 && round > 0 {
								return true
							}
						}
						vs = append(vs, mon.V{Property: "C18", Monitor: "take-over", Sig: "C18/pods/not-settling/" + label, Detail: fmt.Sprintf("after eight syncs the replica set still creates or deletes pods (%s)", desc)})
						return false
					}
					ok := quiet("first-setting")
					if ok {
						c.DeleteSetting("ns1", "s1")
						base := 200
						if !sameValues {
							base = 300
						}
						c.Add(mk("s2", c2, base, c.Now()))
						c.Advance(time.Minute)
						c.Reconcile(sim.ActorSetting, "ns1", "s2")
						c.Reconcile(sim.ActorSetting, "ns1", "s2")
						ok = quiet("after-take-over")
					}
					if ok {
						s2 := c.Setting("ns1", "s2")
						rs := c.ERS("ns1", rsName)
						var pods []*corev1.Pod
						for _, pd := range c.Pods() {
							if pd.Namespace == "ns1" && pd.Labels[oracle.LabelEDSName] == "foo" && pd.DeletionTimestamp == nil {
								pods = append(pods, pd)
							}
						}
						switch {
						case s2 == nil || s2.Status.Status != edsv1.ExtendedDaemonsetSettingStatusValid:
							vs = append(vs, mon.V{Property: "C18", Monitor: "take-over", Sig: "C18/settings/successor-not-valid", Detail: fmt.Sprintf("the only remaining setting is not valid: %+v (%s)", s2, desc)})
						case len(pods) != 1:
							vs = append(vs, mon.V{Property: "C18", Monitor: "take-over", Sig: "C18/pods/count-after-take-over", Detail: fmt.Sprintf("%d daemon pods on the node (%s)", len(pods), desc)})
						default:
							want, _ := podutils.CreatePodFromDaemonSetReplicaSet(sim.Scheme, rs, c.Node("n1"), s2, aff)
							got := pods[0]
							var diffs []string
							for i := range got.Spec.Containers {
								if i < len(want.Spec.Containers) && !apiequality.Semantic.DeepEqual(got.Spec.Containers[i].Resources, want.Spec.Containers[i].Resources) {
									diffs = append(diffs, fmt.Sprintf("container %s runs with %v, the template plus s2 give %v", got.Spec.Containers[i].Name, got.Spec.Containers[i].Resources, want.Spec.Containers[i].Resources))
								}
							}
							if got.Labels[oracle.LabelSettingName] != want.Labels[oracle.LabelSettingName] {
								diffs = append(diffs, fmt.Sprintf("setting label %q, want %q", got.Labels[oracle.LabelSettingName], want.Labels[oracle.LabelSettingName]))
							}
							if len(diffs) > 0 && prop == "C18" {
								vs = append(vs, mon.V{Property: "C18", Monitor: "take-over", Sig: "C18/pods/previous-setting-still-in-the-pod", Detail: strings.Join(diffs, "; ") + " (" + desc + ")"})
							}
							if e := c.EDS("ns1", "foo"); len(diffs) > 0 && prop == "C14" && e != nil && (e.Status.UpToDate > 0 || rs.Status.Current > 0) {
								vs = append(vs, mon.V{Property: "C14", Monitor: "quiescent-status", Sig: "C14/quiescent-status/stale-pod-counted-as-live", Detail: fmt.Sprintf("quiescent: status.upToDate=%d, replica set current=%d, but the only daemon pod does not run what the live template and the applicable setting give: %s (%s)", e.Status.UpToDate, rs.Status.Current, strings.Join(diffs, "; "), desc)})
							}
						}
					}
					nt := len(c2) < len(c1)
					rec.Case(nt, evid.FP(desc), fmt.Sprintf("same-values=%v", sameValues))
					rec.Steps(1)
					if nt && rec.WantSample() {
						rec.Sample(desc)
					}
					settle(ff, rec, vs, map[string]interface{}{"config": desc, "trace": c.Trace}, len(c.Trace), "config: "+desc)
				}
			}
		}
	}
	rec.Exhaustive(true)
	if !failed {
		rec.Done()
	}
}
