package checks

import (
	"encoding/json"
	"fmt"
	"sort"
	"testing"
	"time"

	"github.com/go-logr/logr"
	corev1 "k8s.io/api/core/v1"
	metav1 "k8s.io/apimachinery/pkg/apis/meta/v1"
	"pgregory.net/rapid"

	edsv1 "github.com/DataDog/extendeddaemonset/api/v1alpha1"
	"github.com/DataDog/extendeddaemonset/controllers/extendeddaemonsetreplicaset/scheduler"
	"github.com/DataDog/extendeddaemonset/controllers/extendeddaemonsetreplicaset/strategy"
	podutils "github.com/DataDog/extendeddaemonset/pkg/controller/utils/pod"
	"verifharness/evid"
	"verifharness/gen"
	"verifharness/mon"
	"verifharness/oracle"
	"verifharness/sim"
)

func c01Node(rt *rapid.T, name string) *corev1.Node {
	return &corev1.Node{ObjectMeta: metav1.ObjectMeta{Name: name, Labels: gen.NodeLabels(rt, name)}, Spec: corev1.NodeSpec{Taints: gen.NodeTaints(rt, name)}}
}

// fitness differential: the exported predicate against the reference eligibility.
func c01FitnessCheck(tpl corev1.PodTemplateSpec, node *corev1.Node) *mon.V {
	rs := c10RS(tpl)
	pod, _ := podutils.CreatePodFromDaemonSetReplicaSet(nil, rs, nil, nil, false)
	got := scheduler.CheckNodeFitness(logr.Discard(), pod, node)
	want := oracle.Eligible(&tpl, node)
	if got == want {
		return nil
	}
	why := "taints"
	if oracle.MatchesSelectors(&tpl.Spec, node) != want || !oracle.MatchesSelectors(&tpl.Spec, node) {
		if oracle.ToleratesTaints(&tpl.Spec, node) {
			why = "selector-or-affinity"
		}
	}
	b, _ := json.Marshal(map[string]interface{}{"nodeSelector": tpl.Spec.NodeSelector, "affinity": tpl.Spec.Affinity, "tolerations": tpl.Spec.Tolerations, "nodeLabels": node.Labels, "nodeName": node.Name, "taints": node.Spec.Taints})
	return &mon.V{Property: "C01", Monitor: "fitness-differential", Sig: fmt.Sprintf("C01/fitness-differential/%s/controller-says-%v", why, got), Detail: fmt.Sprintf("CheckNodeFitness=%v but the reference eligibility is %v for %s", got, want, b)}
}

func TestC01Fitness(t *testing.T) {
	rec := evid.New("TestC01Fitness", "C01", "random pod template (nodeSelector, required node affinity with 1-2 terms over In/NotIn/Exists/DoesNotExist/Gt/Lt and matchFields on metadata.name, tolerations Equal/Exists with or without key/effect) x random node (labels incl. an integer label, taints NoSchedule/NoExecute/PreferNoSchedule incl. the standard DaemonSet ones); differential: exported CheckNodeFitness on the pod the controller builds vs the reference Eligible; non-trivial = the template has a selector/affinity or the node a taint; distinct by JSON of inputs")
	t.Cleanup(func() {
		if !t.Failed() {
			rec.Done()
		}
	})
	rapid.Check(t, func(rt *rapid.T) {
		tpl := gen.RandomTemplate(rt, "tpl", []string{"n1", "n2"})
		node := c01Node(rt, rapid.SampledFrom([]string{"n1", "n2", "n3"}).Draw(rt, "nodeName"))
		nt := tpl.Spec.NodeSelector != nil || tpl.Spec.Affinity != nil || len(node.Spec.Taints) > 0
		b, _ := json.Marshal([]interface{}{tpl.Spec.NodeSelector, tpl.Spec.Affinity, tpl.Spec.Tolerations, node.Labels, node.Name, node.Spec.Taints})
		var classes []string
		if oracle.Eligible(&tpl, node) {
			classes = append(classes, "eligible")
		} else {
			classes = append(classes, "ineligible")
		}
		rec.Case(nt, evid.FP(string(b)), classes...)
		if nt {
			rec.Sample(json.RawMessage(b))
		}
		if v := c01FitnessCheck(tpl, node); v != nil {
			settle(rt, rec, []mon.V{*v}, json.RawMessage(b), len(b), "")
		}
	})
}

type c01Pod struct {
	Node      string // may name an absent node
	Phase     corev1.PodPhase
	Scheduled bool
	Term      bool
	AgeSec    int
	Kind      string // own, other-rs, old-ds
}

func TestC01Filter(t *testing.T) {
	rec := evid.New("TestC01Filter", "C01", "0-6 nodes (labels, taints), a template, an ignore list and 0-3 pods per node name incl. names of absent nodes (phase Pending/Running/Failed/Unknown, bound by nodeName or only pinned by affinity, terminating or not, creation times from a small set so ties occur, of this or another replica set or of the migrated DaemonSet) fed to the exported FilterAndMapPodsByNode of a fresh reconciler; oracle: map keys = eligible non-ignored nodes, value = reference keeper of the node's non-Unknown pods (Failed pods deleted or kept - both accepted), clean-up list contains every other duplicate and every non-terminating pod on an unfit/absent non-ignored node, no Unknown pod and no pod of an ignored node anywhere; non-trivial = a node with >= 2 pods, a pod on an unfit/absent node, or a Failed/Unknown pod; distinct by JSON of inputs")
	t.Cleanup(func() {
		if !t.Failed() {
			rec.Done()
		}
	})
	rapid.Check(t, func(rt *rapid.T) {
		c := sim.New(sim.Options{})
		nn := rapid.IntRange(0, 6).Draw(rt, "nNodes")
		names := []string{}
		nodeList := &strategy.NodeList{}
		nodes := map[string]*corev1.Node{}
		for i := 0; i < nn; i++ {
			n := c01Node(rt, fmt.Sprintf("n%d", i+1))
			names = append(names, n.Name)
			nodes[n.Name] = n
			nodeList.Items = append(nodeList.Items, strategy.NewNodeItem(n, nil))
		}
		tpl := gen.RandomTemplate(rt, "tpl", append([]string{"n1"}, names...))
		rs := c10RS(tpl)
		podNodes := append(append([]string{}, names...), "gone1", "gone2")
		var pods []c01Pod
		np := rapid.IntRange(0, 10).Draw(rt, "nPods")
		for i := 0; i < np; i++ {
			pods = append(pods, c01Pod{Node: rapid.SampledFrom(podNodes).Draw(rt, fmt.Sprintf("p%d-node", i)),
				Phase:     rapid.SampledFrom([]corev1.PodPhase{corev1.PodRunning, corev1.PodRunning, corev1.PodPending, corev1.PodFailed, corev1.PodUnknown}).Draw(rt, fmt.Sprintf("p%d-phase", i)),
				Scheduled: rapid.IntRange(0, 3).Draw(rt, fmt.Sprintf("p%d-sched", i)) != 0, Term: rapid.IntRange(0, 4).Draw(rt, fmt.Sprintf("p%d-term", i)) == 0,
				AgeSec: rapid.SampledFrom([]int{10, 10, 20, 30}).Draw(rt, fmt.Sprintf("p%d-age", i)), Kind: rapid.SampledFrom([]string{"own", "own", "other-rs", "old-ds"}).Draw(rt, fmt.Sprintf("p%d-kind", i))})
		}
		var ignore []string
		for _, n := range names {
			if rapid.IntRange(0, 4).Draw(rt, "ignore-"+n) == 0 {
				ignore = append(ignore, n)
			}
		}
		podList := &corev1.PodList{}
		now := time.Date(2030, 1, 1, 1, 0, 0, 0, time.UTC)
		for i, p := range pods {
			pod := corev1.Pod{ObjectMeta: metav1.ObjectMeta{Namespace: "ns1", Name: fmt.Sprintf("pod-%02d", i), CreationTimestamp: metav1.NewTime(now.Add(-time.Duration(p.AgeSec) * time.Second)),
				Labels: map[string]string{oracle.LabelEDSName: "foo", oracle.LabelRSName: rs.Name}, Annotations: map[string]string{oracle.AnnTemplateHash: rs.Spec.TemplateGeneration}}}
			switch p.Kind {
			case "other-rs":
				pod.Labels[oracle.LabelRSName], pod.Annotations[oracle.AnnTemplateHash] = "foo-older", "0000"
			case "old-ds":
				pod.Labels, pod.Annotations = map[string]string{"app": "old"}, nil
			}
			if p.Scheduled {
				pod.Spec.NodeName = p.Node
			} else {
				pod.Spec.Affinity = &corev1.Affinity{NodeAffinity: &corev1.NodeAffinity{RequiredDuringSchedulingIgnoredDuringExecution: &corev1.NodeSelector{NodeSelectorTerms: []corev1.NodeSelectorTerm{{MatchFields: []corev1.NodeSelectorRequirement{{Key: "metadata.name", Operator: corev1.NodeSelectorOpIn, Values: []string{p.Node}}}}}}}}
			}
			pod.Status.Phase = p.Phase
			if p.Term {
				ts := metav1.NewTime(now.Add(28 * time.Second)) // request + grace period
				pod.DeletionTimestamp = &ts
			}
			podList.Items = append(podList.Items, pod)
		}
		r := c.ERSReconciler()
		_, byNode, toDelete, _ := r.FilterAndMapPodsByNode(logr.Discard(), rs, nodeList, podList, ignore)

		// ---- reference
		ignored := map[string]bool{}
		for _, n := range ignore {
			ignored[n] = true
		}
		eligible := map[string]bool{}
		for _, n := range names {
			if !ignored[n] && oracle.Eligible(&tpl, nodes[n]) {
				eligible[n] = true
			}
		}
		perNode := map[string][]*corev1.Pod{}
		for i := range podList.Items {
			p := &podList.Items[i]
			perNode[oracle.NodeOf(p)] = append(perNode[oracle.NodeOf(p)], p)
		}
		inDelete := map[string]bool{}
		for _, p := range toDelete {
			inDelete[p.Name] = true
		}
		nt := false
		var classes []string
		var vs []mon.V
		add := func(sig, detail string) {
			vs = append(vs, mon.V{Property: "C01", Monitor: "filter", Sig: sig, Detail: detail})
		}
		gotKeys := map[string]*corev1.Pod{}
		for item, pod := range byNode {
			if item == nil || item.Node == nil {
				add("C01/filter/nil-node-in-map", "a nil node item is a key of the pod map")
				continue
			}
			gotKeys[item.Node.Name] = pod
		}
		for n := range eligible {
			if _, ok := gotKeys[n]; !ok {
				add("C01/filter/eligible-node-missing", fmt.Sprintf("eligible node %s (labels %v taints %v) is not a key of the pod map", n, nodes[n].Labels, nodes[n].Spec.Taints))
			}
		}
		for n := range gotKeys {
			if !eligible[n] {
				why := "unfit"
				if ignored[n] {
					why = "ignored"
				}
				add("C01/filter/"+why+"-node-in-map", fmt.Sprintf("node %s is %s but is a key of the pod map (labels %v taints %v)", n, why, nodes[n].Labels, nodes[n].Spec.Taints))
			}
		}
		nodeKeys := make([]string, 0, len(perNode))
		for n := range perNode {
			nodeKeys = append(nodeKeys, n)
		}
		sort.Strings(nodeKeys)
		for _, n := range nodeKeys {
			ps := perNode[n]
			var live, nonUnknown []*corev1.Pod
			for _, p := range ps {
				if p.Status.Phase == corev1.PodUnknown {
					nt = true
					if inDelete[p.Name] {
						add("C01/filter/unknown-pod-marked-for-deletion", fmt.Sprintf("pod %s is in phase Unknown and is in the clean-up list", p.Name))
					}
					if kept := gotKeys[n]; kept != nil && kept.Name == p.Name {
						add("C01/filter/unknown-pod-kept", fmt.Sprintf("pod %s is in phase Unknown and is the kept pod of %s", p.Name, n))
					}
					continue
				}
				nonUnknown = append(nonUnknown, p)
				if p.Status.Phase == corev1.PodFailed {
					nt = true
					continue
				}
				live = append(live, p)
			}
			if ignored[n] {
				for _, p := range ps {
					if inDelete[p.Name] {
						add("C01/filter/pod-of-ignored-node-marked", fmt.Sprintf("pod %s on ignored node %s is in the clean-up list", p.Name, n))
					}
				}
				continue
			}
			if !eligible[n] {
				if len(nonUnknown) > 0 {
					nt = true
					classes = append(classes, "pod-on-unfit-or-absent-node")
				}
				for _, p := range nonUnknown {
					if p.DeletionTimestamp == nil && !inDelete[p.Name] {
						add("C01/filter/pod-on-ineligible-node-not-marked", fmt.Sprintf("pod %s on unfit/absent node %s is not in the clean-up list", p.Name, n))
					}
				}
				continue
			}
			if len(nonUnknown) >= 2 {
				nt = true
				classes = append(classes, "node-with-2+-pods")
			}
			kept := gotKeys[n]
			// the kept pod is the reference keeper of the live pods, or of the live + Failed pods
			k1, k2 := oracle.Keeper(live), oracle.Keeper(nonUnknown)
			switch {
			case kept == nil && len(live) > 0:
				add("C01/filter/no-pod-kept", fmt.Sprintf("node %s holds live pods %v but no pod is kept", n, names1(live)))
			case kept != nil && kept.Status.Phase == corev1.PodFailed && oracle.Keeper(append([]*corev1.Pod{kept}, live...)).Name == kept.Name:
				// a Failed pod still inside its deletion back-off may count among the pods of the node; it is then
				// the keeper only if it precedes every live pod in the reference order
			case kept != nil && (k1 == nil || kept.Name != k1.Name) && (k2 == nil || kept.Name != k2.Name):
				why := "younger"
				if k1 != nil && (kept.Spec.NodeName != "") != (k1.Spec.NodeName != "") {
					why = "unscheduled-over-scheduled"
				}
				add("C01/filter/wrong-keeper/"+why, fmt.Sprintf("node %s: kept %s, reference keeper %s among %v", n, kept.Name, nameOf(k1), names1(nonUnknown)))
			}
			for _, p := range live {
				if kept != nil && p.Name == kept.Name {
					if inDelete[p.Name] {
						add("C01/filter/kept-pod-also-marked", fmt.Sprintf("pod %s is both kept and in the clean-up list", p.Name))
					}
					continue
				}
				if !inDelete[p.Name] {
					add("C01/filter/duplicate-not-marked", fmt.Sprintf("node %s: duplicate pod %s (kept %s) is not in the clean-up list", n, p.Name, nameOf(kept)))
				}
			}
		}
		b, _ := json.Marshal([]interface{}{tpl.Spec.NodeSelector, tpl.Spec.Affinity, tpl.Spec.Tolerations, pods, ignore})
		rec.Case(nt, evid.FP(string(b), fmt.Sprint(nodes)), uniq(sortedCopy(classes))...)
		if nt {
			rec.Sample(map[string]interface{}{"pods": pods, "ignore": ignore, "nodes": len(names)})
		}
		settle(rt, rec, vs, json.RawMessage(b), len(pods)+len(names), string(b))
	})
}

func sortedCopy(s []string) []string { c := append([]string(nil), s...); sort.Strings(c); return c }

func names1(ps []*corev1.Pod) []string {
	var out []string
	for _, p := range ps {
		out = append(out, fmt.Sprintf("%s(sched=%v,created=%s,phase=%s)", p.Name, p.Spec.NodeName != "", p.CreationTimestamp.Format("04:05"), p.Status.Phase))
	}
	return out
}

func nameOf(p *corev1.Pod) string {
	if p == nil {
		return "<none>"
	}
	return p.Name
}

// FuzzC01Fitness: coverage-guided variant of the eligibility differential. The bytes pick
// operators, keys and values of one affinity requirement, one toleration and one taint.
func FuzzC01Fitness(f *testing.F) {
	f.Add(uint8(0), "zone", "a", "zone", "a", uint8(0), "dedicated", "gpu", uint8(1), "dedicated", "gpu", uint8(0))
	f.Add(uint8(4), "rank", "5", "rank", "7", uint8(1), "", "", uint8(0), "maint", "", uint8(1))
	f.Fuzz(func(t *testing.T, op uint8, rk, rv, lk, lv string, top uint8, tk, tv string, teff uint8, taintK, taintV string, taintEff uint8) {
		ops := []corev1.NodeSelectorOperator{corev1.NodeSelectorOpIn, corev1.NodeSelectorOpNotIn, corev1.NodeSelectorOpExists, corev1.NodeSelectorOpDoesNotExist, corev1.NodeSelectorOpGt, corev1.NodeSelectorOpLt}
		effects := []corev1.TaintEffect{corev1.TaintEffectNoSchedule, corev1.TaintEffectNoExecute, corev1.TaintEffectPreferNoSchedule}
		o := ops[int(op)%len(ops)]
		req := corev1.NodeSelectorRequirement{Key: rk, Operator: o}
		switch o {
		case corev1.NodeSelectorOpIn, corev1.NodeSelectorOpNotIn, corev1.NodeSelectorOpGt, corev1.NodeSelectorOpLt:
			req.Values = []string{rv}
		}
		// only requirements the API server would store (valid label key/value, integer for Gt/Lt)
		if !validLabelKey(rk) || !validLabelValue(rv) || !validLabelKey(lk) || !validLabelValue(lv) || !validLabelKey(taintK) || !validLabelValue(taintV) || (tk != "" && !validLabelKey(tk)) || !validLabelValue(tv) {
			t.Skip()
		}
		if o == corev1.NodeSelectorOpGt || o == corev1.NodeSelectorOpLt {
			var n int64
			if _, err := fmt.Sscanf(rv, "%d", &n); err != nil || fmt.Sprint(n) != rv {
				t.Skip()
			}
		}
		tpl := letterTpl('A')
		tpl.Spec.Affinity = &corev1.Affinity{NodeAffinity: &corev1.NodeAffinity{RequiredDuringSchedulingIgnoredDuringExecution: &corev1.NodeSelector{NodeSelectorTerms: []corev1.NodeSelectorTerm{{MatchExpressions: []corev1.NodeSelectorRequirement{req}}}}}}
		tol := corev1.Toleration{Key: tk, Value: tv}
		if top%2 == 0 {
			tol.Operator = corev1.TolerationOpExists
			tol.Value = ""
		} else {
			tol.Operator = corev1.TolerationOpEqual
			if tk == "" {
				t.Skip() // an empty key requires operator Exists
			}
		}
		if teff%4 != 3 {
			tol.Effect = effects[int(teff)%3]
		}
		tpl.Spec.Tolerations = []corev1.Toleration{tol}
		node := &corev1.Node{ObjectMeta: metav1.ObjectMeta{Name: "n1", Labels: map[string]string{lk: lv}}, Spec: corev1.NodeSpec{Taints: []corev1.Taint{{Key: taintK, Value: taintV, Effect: effects[int(taintEff)%3]}}}}
		if v := c01FitnessCheck(tpl, node); v != nil && !knownSigs[v.Sig] {
			t.Fatalf("%s", v)
		}
	})
}

func validLabelKey(s string) bool {
	if s == "" || len(s) > 63 {
		return false
	}
	for i, r := range s {
		alnum := (r >= 'a' && r <= 'z') || (r >= 'A' && r <= 'Z') || (r >= '0' && r <= '9')
		if !(alnum || ((r == '-' || r == '_' || r == '.') && i > 0 && i < len(s)-1)) {
			return false
		}
	}
	return true
}

func validLabelValue(s string) bool { return s == "" || validLabelKey(s) }

var _ = edsv1.GroupVersion
