package checks

import (
	"fmt"
	"strings"
	"sync"
	"testing"
	"time"

	metav1 "k8s.io/apimachinery/pkg/apis/meta/v1"
	"pgregory.net/rapid"

	edsv1 "github.com/DataDog/extendeddaemonset/api/v1alpha1"
	"verifharness/evid"
	"verifharness/gen"
	"verifharness/mon"
	"verifharness/oracle"
	"verifharness/sim"
)

// TestC17Concurrent: the four reconcilers and a kubelet model run as goroutines against one
// store, with random API failures. The oracle is the race detector (the test binary is built with -race).
func TestC17Concurrent(t *testing.T) {
	rec := evid.New("TestC17Concurrent", "C17", "workload: 3-8 nodes, one ExtendedDaemonSet with canary strategy, a setting, template edits and annotation flips while goroutines run the ExtendedDaemonSet, replica-set, setting and PodTemplate reconcilers and a kubelet model concurrently against one store for a bounded number of iterations, a generated fraction of API writes failing; oracle: no race report, no panic; non-trivial = at least two replica sets existed and pod creations happened; distinct by workload parameters")
	t.Cleanup(func() {
		if !t.Failed() {
			rec.Done()
		}
	})
	rapid.Check(t, func(rt *rapid.T) {
		n := rapid.IntRange(3, 8).Draw(rt, "nodes")
		failEvery := rapid.SampledFrom([]int{0, 0, 7, 3}).Draw(rt, "failEvery")
		iters := rapid.IntRange(40, 160).Draw(rt, "iterations")
		editEvery := rapid.SampledFrom([]int{2, 3, 10}).Draw(rt, "editEvery")
		c := sim.New(sim.Options{AffinityMode: rapid.Bool().Draw(rt, "affinity")})
		c.NoRecord = true
		// template tolerations: for some lengths the slice decoded from the API has spare capacity
		nTol := rapid.SampledFrom([]int{0, 0, 1, 9, 10, 11, 20, 21, 30}).Draw(rt, "templateTolerations")
		for i := 0; i < n; i++ {
			c.AddNode(fmt.Sprintf("n%d", i), map[string]string{"zone": gen.LabelVals[i%3], "tier": "a"}, nil)
		}
		strategy := gen.ConvergentStrategy(rt, gen.StrategyOpts{Canary: 2, NoPercentRepl: true})
		c.Add(&edsv1.ExtendedDaemonSet{ObjectMeta: metav1.ObjectMeta{Namespace: "ns1", Name: "foo"}, Spec: edsv1.ExtendedDaemonSetSpec{Template: withTolerations(gen.LetterTemplate('A'), nTol), Strategy: strategy}})
		var cnt int
		var mu sync.Mutex
		if failEvery > 0 {
			c.Faults = func(call *sim.Call) sim.FaultKind {
				if !call.Write {
					return sim.FaultNone
				}
				mu.Lock()
				defer mu.Unlock()
				cnt++
				if cnt%failEvery == 0 {
					if cnt%(2*failEvery) == 0 {
						return sim.FaultRejectTyped
					}
					return sim.FaultReject
				}
				return sim.FaultNone
			}
		}
		var wg sync.WaitGroup
		var panics []string
		worker := func(name string, f func(i int)) {
			wg.Add(1)
			go func() {
				defer wg.Done()
				defer func() {
					if p := recover(); p != nil {
						mu.Lock()
						panics = append(panics, fmt.Sprintf("%s: %v", name, p))
						mu.Unlock()
					}
				}()
				for i := 0; i < iters; i++ {
					f(i)
				}
			}()
		}
		worker("eds", func(i int) { c.Reconcile(sim.ActorEDS, "ns1", "foo") })
		worker("ers", func(i int) {
			for _, rs := range c.AllERS() {
				c.Reconcile(sim.ActorERS, rs.Namespace, rs.Name)
			}
		})
		worker("ers2", func(i int) {
			for _, rs := range c.AllERS() {
				c.Reconcile(sim.ActorERS, rs.Namespace, rs.Name)
			}
		})
		worker("podtemplate", func(i int) { c.Reconcile(sim.ActorPodTemplate, "ns1", "foo") })
		worker("setting", func(i int) {
			for _, s := range c.AllSettings() {
				c.Reconcile(sim.ActorSetting, s.Namespace, s.Name)
			}
		})
		worker("kubelet", func(i int) { c.KubeletProgress(); c.Advance(3 * time.Second) })
		worker("user", func(i int) {
			if i%editEvery == 1 {
				// frequent template changes: replica sets are created, superseded and collected while others sync
				_ = c.EditEDS("ns1", "foo", func(x *edsv1.ExtendedDaemonSet) {
					x.Spec.Template = withTolerations(gen.LetterTemplate("ABCDG"[(i/editEvery)%5]), nTol)
				})
			}
			switch i % 10 {
			case 6:
				_ = c.SetEDSAnnotation("ns1", "foo", oracle.AnnRollingPaused, []string{"true", "false"}[(i/10)%2])
			case 8:
				if x := c.EDS("ns1", "foo"); x != nil && x.Status.Canary != nil {
					_ = c.SetEDSAnnotation("ns1", "foo", oracle.AnnCanaryValid, x.Status.Canary.ReplicaSet)
				}
			}
		})
		wg.Wait()
		creates := 0
		for _, call := range c.Calls {
			if call.Kind == "Pod" && call.Verb == "create" {
				creates++
			}
		}
		nt := len(c.AllERS()) >= 2 && creates > 0
		rec.Case(nt, evid.FP(n, failEvery, iters, c.Opts.AffinityMode, renderStrategy(&strategy)), fmt.Sprintf("failEvery-%d", failEvery))
		rec.Steps(iters)
		if nt && rec.WantSample() {
			rec.Sample(map[string]interface{}{"nodes": n, "iterations": iters, "failEvery": failEvery, "podCreates": creates, "apiCalls": len(c.Calls)})
		}
		if len(panics) > 0 {
			settle(rt, rec, []mon.V{{Property: "C17", Monitor: "no-panic", Sig: "C17/concurrent/panic", Detail: strings.Join(panics, "\n")}}, nil, 1, "")
		}
	})
}
