package checks

import (
	"fmt"
	"strings"
	"testing"
	"time"

	corev1 "k8s.io/api/core/v1"
	metav1 "k8s.io/apimachinery/pkg/apis/meta/v1"
	"pgregory.net/rapid"

	edsv1 "github.com/DataDog/extendeddaemonset/api/v1alpha1"
	"verifharness/evid"
	"verifharness/gen"
	"verifharness/mon"
	"verifharness/oracle"
	"verifharness/sim"
)

var c09Kinds = []string{"empty", "empty", "empty", "up-to-date", "tainted", "selector-mismatch", "canary-held"}

// TestC09Creation: the creation side of the slow start on a generated population. The active replica
// set became active at T0; `age` later one sync runs over nodes that are empty / already served /
// excluded by a taint or the template's node selector / reserved for a running canary. The number of
// pods created must stay within min(maxParallelPodCreation, (1+floor(age/interval))*increase), a
// percent increase being resolved against the nodes the replica set targets (excluded and reserved
// nodes do not count).
func TestC09Creation(t *testing.T) {
	rec := evid.New("TestC09Creation", "C09", "1-12 nodes each in {empty, already served, untolerated taint, node-selector mismatch, reserved for a running canary}; slowStartAdditiveIncrease int or percent (incl. 0 and 0%: nothing may be created), interval 1m/5m, maxParallelPodCreation 0/1/3/250, one pod creation of the sync optionally refused or stored-but-answered-with-an-error (generic or typed), sync at T0 + {0, interval-1s, interval, 2.5 interval, 10 interval}; oracle = rate monitor (creates <= bound, percent resolved against targeted nodes); non-trivial = percent increase, at least one excluded/reserved node and at least two empty targeted nodes; distinct by layout+strategy+age")
	t.Cleanup(func() {
		if !t.Failed() {
			rec.Done()
		}
	})
	on := mon.Of("rate", "create-eligible", "canary-confinement", "no-panic")
	rapid.Check(t, func(rt *rapid.T) { c09Creation(rec, rt, on, false) })
}

// c09Creation is one generated creation sync (shared by TestC09Creation and TestC01CreateFaults).
func c09Creation(rec *evid.Rec, rt *rapid.T, on mon.Set, forC01 bool) {
	{
		n := rapid.IntRange(1, 12).Draw(rt, "nodes")
		kinds := make([]string, n)
		for i := range kinds {
			kinds[i] = rapid.SampledFrom(c09Kinds).Draw(rt, fmt.Sprintf("node%d", i))
		}
		interval := rapid.SampledFrom([]time.Duration{time.Minute, 5 * time.Minute}).Draw(rt, "interval")
		ageK := rapid.SampledFrom([]string{"0", "interval-1s", "interval", "2.5*interval", "10*interval"}).Draw(rt, "age")
		age := map[string]time.Duration{"0": 0, "interval-1s": interval - time.Second, "interval": interval, "2.5*interval": interval*5/2 + 300*time.Millisecond, "10*interval": 10 * interval}[ageK]
		st := edsv1.ExtendedDaemonSetSpecStrategy{}
		st.RollingUpdate.SlowStartAdditiveIncrease = gen.IntOrPercent(rt, "slowStartAdditiveIncrease", []string{"1", "2", "5", "10%", "25%", "50%", "100%", "0", "0%"})
		st.RollingUpdate.SlowStartIntervalDuration = &metav1.Duration{Duration: interval}
		mp := rapid.SampledFrom([]int32{1, 3, 250, 250, 0}).Draw(rt, "maxParallelPodCreation")
		st.RollingUpdate.MaxParallelPodCreation = &mp

		c := sim.New(sim.Options{AffinityMode: rapid.Bool().Draw(rt, "affinityMode")})
		// template D selects zone=a
		p := prepare(c, "ns1", "foo", st, nil, "D")
		active := p.RS['D']
		c.Advance(3 * time.Second)
		c.Reconcile(sim.ActorERS, "ns1", active) // records Active=True at T0 (no node yet)
		var held []string
		empty, off := 0, 0
		for i, k := range kinds {
			name := fmt.Sprintf("n%02d", i)
			labels := map[string]string{"zone": "a"}
			var taints []corev1.Taint
			switch k {
			case "tainted":
				taints = []corev1.Taint{{Key: "dedicated", Value: "gpu", Effect: corev1.TaintEffectNoSchedule}}
				off++
			case "selector-mismatch":
				labels["zone"] = "b"
				off++
			case "canary-held":
				held = append(held, name)
				off++
			case "empty":
				empty++
			}
			c.AddNode(name, labels, taints)
			if k == "up-to-date" {
				p.addPod(name, 'D', PSAvailable, 0)
			}
		}
		if len(held) > 0 {
			c.MutateEDS("ns1", "foo", func(e *edsv1.ExtendedDaemonSet) {
				e.Status.Canary = &edsv1.ExtendedDaemonSetStatusCanary{ReplicaSet: "foo-next", Nodes: held}
			})
		}
		c.Advance(age)
		// the answer to one pod creation of the measured sync may be an error: refused (generic or typed), or stored and
		// answered with an error all the same (generic, or ServerTimeout as for a write whose answer timed out)
		answer := rapid.SampledFrom([]sim.FaultKind{sim.FaultNone, sim.FaultNone, sim.FaultReject, sim.FaultRejectTyped, sim.FaultLostAnswer, sim.FaultLostAnswerTyped}).Draw(rt, "oneCreateAnswer")
		nth, seen := rapid.IntRange(0, 2).Draw(rt, "faultedCreate"), 0
		c.Faults = func(call *sim.Call) sim.FaultKind {
			if call.Kind == "Pod" && call.Verb == "create" {
				seen++
				if seen == nth+1 {
					return answer
				}
			}
			return sim.FaultNone
		}
		r := c.Reconcile(sim.ActorERS, "ns1", active)
		c.Faults = nil
		vs := mon.Check(r, on, nil)
		creates := 0
		for _, cl := range r.Calls {
			if cl.Kind == "Pod" && cl.Verb == "create" {
				creates++
			}
		}
		percent := st.RollingUpdate.SlowStartAdditiveIncrease.Type == 1
		nt := percent && off > 0 && empty >= 2
		if forC01 {
			nt = seen > nth && (answer == sim.FaultLostAnswer || answer == sim.FaultLostAnswerTyped)
		}
		trace := map[string]interface{}{"nodes": kinds, "increase": st.RollingUpdate.SlowStartAdditiveIncrease.String(), "interval": interval.String(), "maxParallelPodCreation": mp, "age": ageK, "creates": creates, "oneCreateAnswer": answer.String(), "faultedCreate": nth}
		rec.Case(nt, evid.FP(kinds, st.RollingUpdate.SlowStartAdditiveIncrease.String(), interval, mp, ageK, answer, nth), fmt.Sprintf("percent=%v", percent), fmt.Sprintf("excluded-nodes=%v", off > 0), fmt.Sprintf("created=%v", creates > 0), fmt.Sprintf("create-answer=%s", answer))
		rec.Steps(1)
		if nt && creates > 0 {
			rec.Sample(trace)
		}
		settle(rt, rec, vs, trace, n, "")
	}
}

// TestC01CreateFaults: the creation side of C01 when the answer to a pod creation is an error. One sync of the active
// replica set over a generated population; one of its pod creations is refused, or stored and answered with an error
// (generic, or ServerTimeout as for a write whose answer timed out). Whatever the answer, one sync creates at most one
// pod per node and only on eligible nodes without a pod (create-once and create-eligible monitors).
func TestC01CreateFaults(t *testing.T) {
	rec := evid.New("TestC01CreateFaults", "C01", "1-12 nodes each in {empty, already served, untolerated taint, node-selector mismatch, reserved for a running canary}, both node-assignment modes, slow-start limits as in TestC09Creation; in the measured sync of the active replica set the answer to the first, second or third pod creation is drawn from {success, refused (generic error / AlreadyExists), stored but answered with an error (generic / ServerTimeout)}; oracle: create-once (never two pods for one node in one sync, counting what the store applied) and create-eligible; non-trivial = a creation was stored and answered with an error; distinct by configuration")
	t.Cleanup(func() {
		if !t.Failed() {
			rec.Done()
		}
	})
	on := mon.Of("create-once", "create-eligible", "no-panic")
	rapid.Check(t, func(rt *rapid.T) { c09Creation(rec, rt, on, true) })
}

// TestC09RoleChange: the spacing of syncs that touch pods holds across a change of role. The canary replica set
// creates its pods at T; the canary is validated at once, the ExtendedDaemonSet controller promotes it, and the next
// request for the same replica set - now active, with outdated pods to replace - arrives within reconcileFrequency.
func TestC09RoleChange(t *testing.T) {
	rec := evid.New("TestC09RoleChange", "C09", "complete product {3, 4 nodes} x {reconcileFrequency 10s, 30s} x {canary replicas 1, 2} x {second request 1s, 3s, frequency-2s after the canary's creating sync} x {maxUnavailable 1, 100%}: canary pods created, canary validated by annotation, EDS reconcile promotes, then the request for the promoted set; rate monitor with history (two syncs of one replica set that create or delete pods are at least reconcileFrequency - 1s apart when the first one recorded itself); non-trivial = every case; distinct by configuration")
	failed := false
	ff := &firstFail{t: t, failed: &failed}
	for _, nodes := range []int{3, 4} {
		for _, freq := range []time.Duration{10 * time.Second, 30 * time.Second} {
			for _, replicas := range []string{"1", "2"} {
				for _, gap := range []time.Duration{time.Second, 3 * time.Second, freq - 2*time.Second} {
					for _, maxU := range []string{"1", "100%"} {
						desc := fmt.Sprintf("nodes=%d reconcileFrequency=%s canaryReplicas=%s secondRequestAfter=%s maxUnavailable=%s", nodes, freq, replicas, gap, maxU)
						c := sim.New(sim.Options{})
						for i := 0; i < nodes; i++ {
							c.AddNode(fmt.Sprintf("n%02d", i), map[string]string{"zone": "a"}, nil)
						}
						st := edsv1.ExtendedDaemonSetSpecStrategy{ReconcileFrequency: &metav1.Duration{Duration: freq}}
						st.RollingUpdate.MaxUnavailable = gen.ParseIntOrPercent(maxU)
						st.Canary = &edsv1.ExtendedDaemonSetSpecStrategyCanary{Replicas: gen.ParseIntOrPercent(replicas), ValidationMode: edsv1.ExtendedDaemonSetSpecStrategyCanaryValidationModeManual}
						p := prepare(c, "ns1", "foo", st, nil, "A")
						c.Advance(time.Hour)
						for i := 0; i < nodes; i++ {
							p.addPod(fmt.Sprintf("n%02d", i), 'A', PSAvailable, 30*time.Minute)
						}
						h := mon.NewHistory()
						on := mon.Of("rate", "no-panic")
						var vs []mon.V
						step := func(actor, name string, adv time.Duration) *sim.Record {
							c.Advance(adv)
							r := c.Reconcile(actor, "ns1", name)
							vs = append(vs, mon.Check(r, on, h)...)
							return r
						}
						_ = c.EditEDS("ns1", "foo", func(x *edsv1.ExtendedDaemonSet) { x.Spec.Template = gen.LetterTemplate('B') })
						step(sim.ActorEDS, "foo", time.Second) // creates the replica set of B
						step(sim.ActorEDS, "foo", time.Second) // records the canary and its nodes
						e := c.EDS("ns1", "foo")
						if e.Status.Canary == nil {
							ff.Fatalf("harness: no canary recorded (%s)", desc)
							return
						}
						crs := e.Status.Canary.ReplicaSet
						// the canary set deletes the old pods of its nodes, the kubelet removes them, the set creates its own
						step(sim.ActorERS, crs, time.Second)
						c.KubeletProgress()
						step(sim.ActorERS, crs, freq+time.Second)
						c.KubeletProgress()
						_ = c.SetEDSAnnotation("ns1", "foo", oracle.AnnCanaryValid, crs)
						step(sim.ActorEDS, "foo", gap/2) // promotes
						r := step(sim.ActorERS, crs, gap-gap/2)
						writes := 0
						for _, cl := range r.Calls {
							if cl.Kind == "Pod" && cl.Write {
								writes++
							}
						}
						rec.Case(true, evid.FP(desc), fmt.Sprintf("second-request-writes-pods=%v", writes > 0))
						rec.Steps(6)
						if rec.WantSample() {
							rec.Sample(desc)
						}
						settle(ff, rec, vs, map[string]interface{}{"config": desc, "trace": c.Trace}, len(c.Trace), "config: "+desc+"\n"+strings.Join(c.Trace, "\n"))
					}
				}
			}
		}
	}
	rec.Exhaustive(true)
	if !failed {
		rec.Done()
	}
}
