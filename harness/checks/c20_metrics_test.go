//go:build verif_metrics

package checks

import (
	"fmt"
	"sort"
	"testing"
	"time"

	corev1 "k8s.io/api/core/v1"
	metav1 "k8s.io/apimachinery/pkg/apis/meta/v1"
	ksmetric "k8s.io/kube-state-metrics/v2/pkg/metric"
	"pgregory.net/rapid"

	edsv1 "github.com/DataDog/extendeddaemonset/api/v1alpha1"
	edsctrl "github.com/DataDog/extendeddaemonset/controllers/extendeddaemonset"
	ersctrl "github.com/DataDog/extendeddaemonset/controllers/extendeddaemonsetreplicaset"
	"verifharness/evid"
)

type series struct {
	Value  float64
	Labels map[string]string
	Keys   []string
	Vals   []string
}

func oneSeries(f *ksmetric.Family) (*series, error) {
	if f == nil || len(f.Metrics) != 1 {
		return nil, fmt.Errorf("expected exactly one series")
	}
	m := f.Metrics[0]
	if len(m.LabelKeys) != len(m.LabelValues) {
		return nil, fmt.Errorf("label keys/values length mismatch: %q vs %q", m.LabelKeys, m.LabelValues)
	}
	s := &series{Value: m.Value, Labels: map[string]string{}, Keys: m.LabelKeys, Vals: m.LabelValues}
	for i, k := range m.LabelKeys {
		s.Labels[k] = m.LabelValues[i]
	}
	return s, nil
}

func genCounter(rt *rapid.T, name string) int32 {
	return rapid.OneOf(rapid.Int32Range(0, 5), rapid.Int32Range(0, 100000)).Draw(rt, name)
}

func TestC20Metrics(t *testing.T) {
	rec := evid.New("TestC20Metrics", "C20", "random ExtendedDaemonSet / replica-set status (counters, canary block, state, conditions - for the replica set sometimes one type twice with different values, the first entry counts) fed to every metric family generator, all families of both objects generated before any series is read (as the metrics store composes them); non-trivial = a canary block, a true condition or a paused/frozen state is present; distinct by rendered status")
	t.Cleanup(func() {
		if !t.Failed() {
			rec.Done()
		}
	})
	edsFams := edsctrl.GenerateMetricFamiliesForVerif()
	ersFams := ersctrl.GenerateMetricFamiliesForVerif()
	fail := func(rt *rapid.T, sig, detail string, obj interface{}) {
		rec.Violation("metrics-match-status", sig, detail, obj, 1)
		rt.Fatalf("%s: %s", sig, detail)
	}
	rapid.Check(t, func(rt *rapid.T) {
		states := []edsv1.ExtendedDaemonSetStatusState{"", edsv1.ExtendedDaemonSetStatusStateRunning, edsv1.ExtendedDaemonSetStatusStateRollingUpdatePaused,
			edsv1.ExtendedDaemonSetStatusStateRolloutFrozen, edsv1.ExtendedDaemonSetStatusStateCanary, edsv1.ExtendedDaemonSetStatusStateCanaryPaused, edsv1.ExtendedDaemonSetStatusStateCanaryFailed}
		eds := &edsv1.ExtendedDaemonSet{ObjectMeta: metav1.ObjectMeta{
			Namespace: rapid.SampledFrom([]string{"default", "ns-a", ""}).Draw(rt, "ns"), Name: rapid.SampledFrom([]string{"foo", "bar"}).Draw(rt, "name"),
			Labels:            rapid.MapOfN(labelKeyGen, labelValGen, 0, 3).Draw(rt, "labels"),
			CreationTimestamp: metav1.NewTime(time.Unix(rapid.Int64Range(0, 2000000000).Draw(rt, "created"), 0)),
		}}
		st := &eds.Status
		st.Desired, st.Current, st.Ready = genCounter(rt, "desired"), genCounter(rt, "current"), genCounter(rt, "ready")
		st.Available, st.UpToDate, st.IgnoredUnresponsiveNodes = genCounter(rt, "available"), genCounter(rt, "uptodate"), genCounter(rt, "ignored")
		st.State = rapid.SampledFrom(states).Draw(rt, "state")
		nontrivial := st.State == edsv1.ExtendedDaemonSetStatusStateRollingUpdatePaused || st.State == edsv1.ExtendedDaemonSetStatusStateRolloutFrozen
		if rapid.Bool().Draw(rt, "canary") {
			st.Canary = &edsv1.ExtendedDaemonSetStatusCanary{ReplicaSet: rapid.SampledFrom([]string{"foo-abc", "foo-def", ""}).Draw(rt, "canaryrs"),
				Nodes: rapid.SliceOfN(rapid.SampledFrom([]string{"n1", "n2", "n3", "n4"}), 0, 4).Draw(rt, "canarynodes")}
			nontrivial = true
		}
		condStatus := []corev1.ConditionStatus{corev1.ConditionTrue, corev1.ConditionFalse, corev1.ConditionUnknown}
		for _, ct := range []edsv1.ExtendedDaemonSetConditionType{edsv1.ConditionTypeEDSCanaryPaused, edsv1.ConditionTypeEDSCanaryFailed, edsv1.ConditionTypeEDSReconcileError} {
			if rapid.Bool().Draw(rt, "has-"+string(ct)) {
				s := rapid.SampledFrom(condStatus).Draw(rt, "st-"+string(ct))
				st.Conditions = append(st.Conditions, edsv1.ExtendedDaemonSetCondition{Type: ct, Status: s, Reason: rapid.SampledFrom([]string{"", "CrashLoopBackOff", "ImagePullBackOff"}).Draw(rt, "reason-"+string(ct))})
				if s == corev1.ConditionTrue {
					nontrivial = true
				}
			}
		}
		rec.Case(nontrivial, evid.FP(fmt.Sprintf("%+v|%v", eds.Status, eds.Labels)), "eds")
		if nontrivial {
			rec.Sample(map[string]interface{}{"kind": "ExtendedDaemonSet", "status": eds.Status, "labels": eds.Labels})
		}
		pausedTrue, pausedReason := false, ""
		for _, c := range st.Conditions {
			if c.Type == edsv1.ConditionTypeEDSCanaryPaused && c.Status == corev1.ConditionTrue {
				pausedTrue, pausedReason = true, c.Reason
				break
			}
		}
		b2f := func(b bool) float64 {
			if b {
				return 1
			}
			return 0
		}
		nNodes := 0
		if st.Canary != nil {
			nNodes = len(st.Canary.Nodes)
		}
		want := map[string]float64{
			"eds_created":                           float64(eds.CreationTimestamp.Unix()),
			"eds_status_desired":                    float64(st.Desired),
			"eds_status_current":                    float64(st.Current),
			"eds_status_ready":                      float64(st.Ready),
			"eds_status_available":                  float64(st.Available),
			"eds_status_uptodate":                   float64(st.UpToDate),
			"eds_status_ignored_unresponsive_nodes": float64(st.IgnoredUnresponsiveNodes),
			"eds_status_canary_activated":           b2f(st.Canary != nil),
			"eds_status_canary_node_number":         float64(nNodes),
			"eds_status_canary_paused":              b2f(st.Canary != nil && pausedTrue),
			"eds_status_rolling_update_paused":      b2f(st.State == edsv1.ExtendedDaemonSetStatusStateRollingUpdatePaused),
			"eds_status_rollout_frozen":             b2f(st.State == edsv1.ExtendedDaemonSetStatusStateRolloutFrozen),
			"eds_labels":                            1,
		}
		// as the metrics store does (ComposeMetricGenFuncs): every family of the object is generated first, the series are
		// read afterwards - and, below, only after the replica set's families were generated too
		edsGen := make([]*ksmetric.Family, len(edsFams))
		for i, fg := range edsFams {
			edsGen[i] = fg.Generate(eds.DeepCopy())
		}
		inspectEDS := func() {
			seen := map[string]bool{}
			for i, fg := range edsFams {
				s, err := oneSeries(edsGen[i])
				if err != nil {
					fail(rt, "C20/metrics/eds/shape/"+fg.Name, err.Error(), eds)
				}
				seen[fg.Name] = true
				w, ok := want[fg.Name]
				if !ok {
					continue // a family this oracle does not know is not judged
				}
				if s.Value != w {
					fail(rt, "C20/metrics/eds/value/"+fg.Name, fmt.Sprintf("%s = %v, status says %v (status %+v)", fg.Name, s.Value, w, eds.Status), eds)
				}
				if s.Labels["namespace"] != eds.Namespace || s.Labels["name"] != eds.Name {
					fail(rt, "C20/metrics/eds/identity/"+fg.Name, fmt.Sprintf("%s labels %v do not identify %s/%s", fg.Name, s.Labels, eds.Namespace, eds.Name), eds)
				}
				switch fg.Name {
				case "eds_status_canary_activated":
					rs := ""
					if st.Canary != nil {
						rs = st.Canary.ReplicaSet
					}
					if s.Labels["replicaset"] != rs {
						fail(rt, "C20/metrics/eds/canary-replicaset-label", fmt.Sprintf("replicaset label %q, status says %q", s.Labels["replicaset"], rs), eds)
					}
				case "eds_status_canary_paused":
					if st.Canary != nil && pausedTrue && s.Labels["paused_reason"] != pausedReason {
						fail(rt, "C20/metrics/eds/paused-reason-label", fmt.Sprintf("paused_reason label %q, condition says %q", s.Labels["paused_reason"], pausedReason), eds)
					}
				case "eds_labels":
					if sig, detail := checkSeriesInfoLabels(s, eds.Labels); sig != "" {
						fail(rt, sig, detail, eds)
					}
				}
			}
			for name := range want {
				if !seen[name] {
					fail(rt, "C20/metrics/eds/missing/"+name, "family not generated: "+name, eds)
				}
			}
		}

		// replica set
		ers := &edsv1.ExtendedDaemonSetReplicaSet{ObjectMeta: metav1.ObjectMeta{Namespace: eds.Namespace, Name: eds.Name + "-abcde", Labels: rapid.MapOfN(labelKeyGen, labelValGen, 0, 3).Draw(rt, "rslabels"),
			CreationTimestamp: metav1.NewTime(time.Unix(rapid.Int64Range(0, 2000000000).Draw(rt, "rscreated"), 0))}}
		rs := &ers.Status
		rs.Desired, rs.Current, rs.Ready = genCounter(rt, "rsdesired"), genCounter(rt, "rscurrent"), genCounter(rt, "rsready")
		rs.Available, rs.IgnoredUnresponsiveNodes = genCounter(rt, "rsavailable"), genCounter(rt, "rsignored")
		failedTrue := false
		for _, ct := range []edsv1.ExtendedDaemonSetReplicaSetConditionType{edsv1.ConditionTypeCanaryFailed, edsv1.ConditionTypeCanaryPaused, edsv1.ConditionTypeActive} {
			if rapid.Bool().Draw(rt, "rshas-"+string(ct)) {
				s := rapid.SampledFrom(condStatus).Draw(rt, "rsst-"+string(ct))
				rs.Conditions = append(rs.Conditions, edsv1.ExtendedDaemonSetReplicaSetCondition{Type: ct, Status: s})
				if ct == edsv1.ConditionTypeCanaryFailed && s == corev1.ConditionTrue {
					failedTrue = true
				}
			}
		}
		// a status written by a component that appends instead of merging by type can carry a condition type twice with
		// different values; every reader of the repository takes the first entry of a type, and so must the gauge
		dup := false
		if len(rs.Conditions) > 0 && rapid.IntRange(0, 3).Draw(rt, "rs-duplicate-condition") == 0 {
			c0 := rs.Conditions[rapid.IntRange(0, len(rs.Conditions)-1).Draw(rt, "rs-duplicated")]
			c0.Status = map[corev1.ConditionStatus]corev1.ConditionStatus{corev1.ConditionTrue: corev1.ConditionFalse, corev1.ConditionFalse: corev1.ConditionTrue, corev1.ConditionUnknown: corev1.ConditionTrue}[c0.Status]
			rs.Conditions = append(rs.Conditions, c0)
			dup = true
		}
		rec.Case(failedTrue || dup, evid.FP(fmt.Sprintf("%+v|%v", ers.Status, ers.Labels)), "ers", fmt.Sprintf("duplicate-condition=%v", dup))
		wantRS := map[string]float64{
			"ers_created":                           float64(ers.CreationTimestamp.Unix()),
			"ers_status_desired":                    float64(rs.Desired),
			"ers_status_current":                    float64(rs.Current),
			"ers_status_ready":                      float64(rs.Ready),
			"ers_status_available":                  float64(rs.Available),
			"ers_status_ignored_unresponsive_nodes": float64(rs.IgnoredUnresponsiveNodes),
			"ers_status_canary_failed":              b2f(failedTrue),
			"ers_labels":                            1,
		}
		ersGen := make([]*ksmetric.Family, len(ersFams))
		for i, fg := range ersFams {
			ersGen[i] = fg.Generate(ers.DeepCopy())
		}
		inspectEDS()
		seen := map[string]bool{}
		for i, fg := range ersFams {
			s, err := oneSeries(ersGen[i])
			if err != nil {
				fail(rt, "C20/metrics/ers/shape/"+fg.Name, err.Error(), ers)
			}
			seen[fg.Name] = true
			w, ok := wantRS[fg.Name]
			if !ok {
				continue
			}
			if s.Value != w {
				fail(rt, "C20/metrics/ers/value/"+fg.Name, fmt.Sprintf("%s = %v, status says %v (status %+v)", fg.Name, s.Value, w, ers.Status), ers)
			}
			if s.Labels["namespace"] != ers.Namespace || s.Labels["name"] != ers.Name {
				fail(rt, "C20/metrics/ers/identity/"+fg.Name, fmt.Sprintf("%s labels %v do not identify %s/%s", fg.Name, s.Labels, ers.Namespace, ers.Name), ers)
			}
			if fg.Name == "ers_labels" {
				if sig, detail := checkSeriesInfoLabels(s, ers.Labels); sig != "" {
					fail(rt, sig, detail, ers)
				}
			}
		}
		for name := range wantRS {
			if !seen[name] {
				fail(rt, "C20/metrics/ers/missing/"+name, "family not generated: "+name, ers)
			}
		}
	})
}

// checkSeriesInfoLabels: the series' label pairs beyond namespace/name are exactly {(sanitise(k), v)}.
func checkSeriesInfoLabels(s *series, labels map[string]string) (string, string) {
	if len(s.Keys) < 2 {
		return "C20/metrics/labels-series/shape", fmt.Sprintf("keys %q", s.Keys)
	}
	var want, got []kvPair
	for k, v := range labels {
		want = append(want, kvPair{refSanitize(k), v})
	}
	for i := 2; i < len(s.Keys); i++ {
		got = append(got, kvPair{s.Keys[i], s.Vals[i]})
	}
	sortedPairs(want)
	sortedPairs(got)
	if len(want) != len(got) {
		return "C20/metrics/labels-series/length", fmt.Sprintf("labels=%q series keys=%q values=%q", labels, s.Keys, s.Vals)
	}
	for i := range want {
		if want[i] != got[i] {
			return "C20/metrics/labels-series/value-not-of-its-key", fmt.Sprintf("labels=%q: want %q, series keys=%q values=%q", labels, want, s.Keys, s.Vals)
		}
	}
	_ = sort.Strings
	return "", ""
}
