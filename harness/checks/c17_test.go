//go:build verif_par

package checks

import (
	"context"
	"fmt"
	"strings"
	"sync"
	"testing"
	"time"

	"github.com/go-logr/logr"
	autoscalingv1 "k8s.io/api/autoscaling/v1"
	corev1 "k8s.io/api/core/v1"
	"k8s.io/apimachinery/pkg/api/resource"
	metav1 "k8s.io/apimachinery/pkg/apis/meta/v1"
	"pgregory.net/rapid"

	edsv1 "github.com/DataDog/extendeddaemonset/api/v1alpha1"
	ersctrl "github.com/DataDog/extendeddaemonset/controllers/extendeddaemonsetreplicaset"
	"github.com/DataDog/extendeddaemonset/controllers/extendeddaemonsetreplicaset/strategy"
	"verifharness/evid"
	"verifharness/gen"
	"verifharness/mon"
	"verifharness/oracle"
	"verifharness/sim"
)

// TestC17Batches: parallel pod creation / deletion / clean-up with a generated subset of the
// API calls failing; every injected failure must come back as one error. Run under -race.
func TestC17Batches(t *testing.T) {
	rec := evid.New("TestC17Batches", "C17", "batch of 2-64 simultaneous pod creations, update-deletions or clean-up deletions through the controller's parallel helpers, a generated subset of the API calls failing (none, some, all); oracle: number of errors returned = number of injected failures (and the race detector stays silent); then the same through a whole replica-set Reconcile: ReconcileError is True iff a pod operation failed, PodsCleanupDone is False iff a clean-up deletion failed; non-trivial = at least two operations failed in one batch; distinct by (kind, size, failing set)")
	t.Cleanup(func() {
		if !t.Failed() {
			rec.Done()
		}
	})
	rapid.Check(t, func(rt *rapid.T) {
		kind := rapid.SampledFrom([]string{"create", "delete", "cleanup", "reconcile-create", "reconcile-cleanup", "reconcile-mixed", "reconcile-mixed", "reconcile-canary-cleanup"}).Draw(rt, "kind")
		n := rapid.SampledFrom([]int{2, 3, 5, 8, 16, 33, 64}).Draw(rt, "size")
		mode := rapid.SampledFrom([]string{"none", "some", "some", "all"}).Draw(rt, "failing")
		failing := map[int]bool{}
		for i := 0; i < n; i++ {
			switch mode {
			case "all":
				failing[i] = true
			case "some":
				if rapid.IntRange(0, 2).Draw(rt, fmt.Sprintf("f%d", i)) == 0 {
					failing[i] = true
				}
			}
		}
		c := sim.New(sim.Options{})
		c.NoRecord = true
		var nodes []*corev1.Node
		// now and then a node of the batch carries an override annotation that cannot be decoded: its pod is built from
		// the template all the same, and nothing about it may disturb the rest of the parallel batch
		badAnn := map[int]bool{}
		if rapid.IntRange(0, 3).Draw(rt, "undecodableOverrideAnnotations") == 0 {
			for _, i := range rapid.SliceOfNDistinct(rapid.IntRange(0, n-1), 1, minInt(2, n), func(i int) int { return i }).Draw(rt, "badAnnotationNodes") {
				badAnn[i] = true
			}
		}
		// one valid setting applies to every node of the batch (the same object in every node item, as getNodeList
		// hands it out), and some nodes carry a well-formed override annotation for the container it overrides
		var sharedSetting *edsv1.ExtendedDaemonsetSetting
		goodAnn := map[int]bool{}
		if rapid.IntRange(0, 2).Draw(rt, "sharedSettingWithOverrides") == 0 {
			sharedSetting = &edsv1.ExtendedDaemonsetSetting{ObjectMeta: metav1.ObjectMeta{Namespace: "ns1", Name: "shared"},
				Spec: edsv1.ExtendedDaemonsetSettingSpec{Reference: &autoscalingv1.CrossVersionObjectReference{Kind: "ExtendedDaemonset", Name: "foo"},
					Containers: []edsv1.ExtendedDaemonsetSettingContainerSpec{{Name: "agent", Resources: corev1.ResourceRequirements{
						Limits: corev1.ResourceList{corev1.ResourceCPU: resource.MustParse("1")}, Requests: corev1.ResourceList{corev1.ResourceMemory: resource.MustParse("64Mi")}}}}},
				Status: edsv1.ExtendedDaemonsetSettingStatus{Status: edsv1.ExtendedDaemonsetSettingStatusValid}}
			for i := 0; i < n; i++ {
				if i%2 == 0 {
					goodAnn[i] = true
				}
			}
		}
		for i := 0; i < n; i++ {
			nd := c.AddNode(fmt.Sprintf("n%03d", i), map[string]string{"zone": "a"}, nil)
			if goodAnn[i] && !badAnn[i] {
				v := fmt.Sprintf(`{"limits":{"cpu":"%d"},"requests":{"memory":"%dMi"}}`, 2+i%7, 100+i)
				c.MutateNode(nd.Name, func(x *corev1.Node) {
					x.Annotations = map[string]string{"resources.extendeddaemonset.datadoghq.com/ns1.foo.agent": v}
				})
				nd = c.Node(nd.Name)
			}
			if badAnn[i] {
				c.MutateNode(nd.Name, func(x *corev1.Node) {
					x.Annotations = map[string]string{"resources.extendeddaemonset.datadoghq.com/ns1.foo.agent": "{"}
				})
				nd = c.Node(nd.Name)
			}
			nodes = append(nodes, nd)
		}
		st := edsv1.ExtendedDaemonSetSpecStrategy{}
		mp := int32(1000)
		st.RollingUpdate.MaxParallelPodCreation = &mp
		st.RollingUpdate.SlowStartAdditiveIncrease = gen.ParseIntOrPercent("1000")
		st.RollingUpdate.MaxUnavailable = gen.ParseIntOrPercent("100%")
		word := "A"
		if kind == "reconcile-mixed" {
			word = "AB" // an old template to delete pods of
		}
		if kind == "reconcile-canary-cleanup" {
			one := intstrOf(1)
			st.Canary = &edsv1.ExtendedDaemonSetSpecStrategyCanary{Replicas: &one, ValidationMode: edsv1.ExtendedDaemonSetSpecStrategyCanaryValidationModeManual}
		}
		// template tolerations: for some lengths the slice decoded from the API has spare capacity
		prepTolerations = rapid.SampledFrom([]int{0, 0, 1, 9, 10, 11, 20, 21, 30}).Draw(rt, "templateTolerations")
		p := prepare(c, "ns1", "foo", st, nil, word)
		prepTolerations = 0
		// read the replica set the way the controller does (through the client: decoded from JSON), not as a deep copy
		rs := &edsv1.ExtendedDaemonSetReplicaSet{}
		if err := c.Env().Get(context.Background(), sim.KeyOf("ns1", p.RS[word[len(word)-1]]), rs); err != nil {
			rt.Fatalf("harness: %v", err)
		}
		// failing set by node name (pod creations) / pod name (deletions)
		failNode := map[string]bool{}
		for i := range failing {
			failNode[fmt.Sprintf("n%03d", i)] = true
		}
		var mu sync.Mutex
		injected := 0
		// the failing calls answer with a generic error or with the API status error typical for the verb
		// (AlreadyExists for a creation whose generated name collided, TooManyRequests for a deletion)
		rejectKind := rapid.SampledFrom([]sim.FaultKind{sim.FaultReject, sim.FaultRejectTyped}).Draw(rt, "errorClass")
		concurrentWrite := strings.HasPrefix(kind, "reconcile-") && kind != "reconcile-canary-cleanup" && rapid.IntRange(0, 3).Draw(rt, "concurrentWriteToTheReplicaSet") == 0
		c.Faults = func(call *sim.Call) sim.FaultKind {
			if call.Kind != "Pod" || (call.Verb != "create" && call.Verb != "delete") {
				return sim.FaultNone
			}
			node := ""
			if pod, ok := call.Obj.(*corev1.Pod); ok {
				node = oracle.NodeOf(pod)
			}
			if failNode[node] {
				mu.Lock()
				injected++
				first := injected == 1
				mu.Unlock()
				if first && concurrentWrite {
					// somebody else writes to the replica set while its sync is under way: the status write at the end
					// of the sync will conflict, and the sync must then report an error rather than nothing
					c.MutateERS("ns1", rs.Name, func(x *edsv1.ExtendedDaemonSetReplicaSet) {
						if x.Labels == nil {
							x.Labels = map[string]string{}
						}
						x.Labels["touched-by"] = "someone-else"
					})
				}
				return rejectKind
			}
			return sim.FaultNone
		}
		cl := c.ClientFor(sim.ActorERS)
		nt := len(failing) >= 2
		rec.Case(nt, evid.FP(kind, n, fmt.Sprint(failing)), "kind-"+kind, "failing-"+mode)
		if nt && rec.WantSample() {
			rec.Sample(map[string]interface{}{"kind": kind, "batch": n, "failing": len(failing)})
		}
		fail := func(sig, detail string) {
			settle(rt, rec, []mon.V{{Property: "C17", Monitor: "error-count", Sig: sig, Detail: detail}}, map[string]interface{}{"kind": kind, "size": n, "failing": len(failing)}, n, "")
		}
		items := func() ([]*strategy.NodeItem, map[*strategy.NodeItem]*corev1.Pod) {
			var its []*strategy.NodeItem
			m := map[*strategy.NodeItem]*corev1.Pod{}
			for _, nd := range nodes {
				it := strategy.NewNodeItem(nd, sharedSetting)
				its = append(its, it)
				m[it] = nil
			}
			return its, m
		}
		switch kind {
		case "create":
			its, _ := items()
			errs := ersctrl.CreatePodsForVerif(logr.Discard(), cl, sim.Scheme, false, rs, its)
			if len(errs) != len(failing) {
				fail("C17/error-count/createPods", fmt.Sprintf("%d creations failed but %d errors were returned", len(failing), len(errs)))
			}
		case "delete", "cleanup":
			its, m := items()
			var pods []*corev1.Pod
			for i, it := range its {
				pod := p.addPod(nodes[i].Name, 'A', PSAvailable, time.Minute)
				m[it] = pod
				pods = append(pods, pod)
			}
			var errs []error
			if kind == "delete" {
				errs = ersctrl.DeletePodsForVerif(logr.Discard(), cl, m, its)
			} else {
				errs = strategy.DeletePodSliceForVerif(cl, logr.Discard(), pods)
			}
			if len(errs) != len(failing) {
				fail("C17/error-count/"+kind, fmt.Sprintf("%d deletions failed but %d errors were returned", len(failing), len(errs)))
			}
		case "reconcile-create":
			c.Advance(time.Minute)
			r := c.Reconcile(sim.ActorERS, "ns1", rs.Name)
			post := c.ERS("ns1", rs.Name)
			got := oracle.RSCondTrue(&post.Status, edsv1.ConditionTypeReconcileError)
			// with a concurrent write the status (and the condition in it) cannot be stored: the sync must return an error
			if reported := got || (concurrentWrite && r.Err != nil); reported != (injected > 0) {
				fail("C17/conditions/ReconcileError", fmt.Sprintf("%d pod creations failed in the sync (err=%v, concurrent write=%v) but ReconcileError=%v", injected, r.Err, concurrentWrite, got))
			}
		case "reconcile-mixed":
			// one sync that both deletes outdated pods (even nodes) and creates missing ones (odd nodes); the failing
			// set is drawn over all nodes, so sometimes only deletions, only creations, both or none fail
			side := rapid.SampledFrom([]string{"deletions-only", "creations-only", "both"}).Draw(rt, "failingSide")
			for i, nd := range nodes {
				if i%2 == 0 {
					p.addPod(nd.Name, 'A', PSAvailable, time.Minute)
					if side == "creations-only" {
						delete(failNode, nd.Name)
					}
				} else if side == "deletions-only" {
					delete(failNode, nd.Name)
				}
			}
			c.Advance(time.Minute)
			r := c.Reconcile(sim.ActorERS, "ns1", rs.Name)
			post := c.ERS("ns1", rs.Name)
			got := oracle.RSCondTrue(&post.Status, edsv1.ConditionTypeReconcileError)
			dels, crs := 0, 0
			for _, call := range r.Calls {
				if call.Kind == "Pod" && call.Fault != sim.FaultNone {
					if call.Verb == "delete" {
						dels++
					} else if call.Verb == "create" {
						crs++
					}
				}
			}
			if reported := got || (concurrentWrite && r.Err != nil); reported != (dels+crs > 0) {
				which := "deletions"
				if dels == 0 {
					which = "creations"
				}
				fail("C17/conditions/ReconcileError/mixed-sync-failed-"+which, fmt.Sprintf("one sync: %d pod deletions and %d pod creations failed but ReconcileError=%v", dels, crs, got))
			}
		case "reconcile-canary-cleanup":
			// the replica set first syncs as the active one (its clean-up succeeds and is recorded), then the
			// ExtendedDaemonSet makes it the canary (a reverted template re-uses the set with its old conditions);
			// every canary node holds a duplicate pod whose clean-up deletion may fail
			c.Advance(time.Minute)
			ff := c.Faults
			c.Faults = nil // the first sync (as the active set) goes through
			c.Reconcile(sim.ActorERS, "ns1", rs.Name)
			c.Faults = ff
			var names []string
			for _, nd := range nodes {
				names = append(names, nd.Name)
			}
			c.MutateEDS("ns1", "foo", func(x *edsv1.ExtendedDaemonSet) {
				x.Status.ActiveReplicaSet = "foo-previous"
				x.Status.Canary = &edsv1.ExtendedDaemonSetStatusCanary{ReplicaSet: rs.Name, Nodes: names}
			})
			c.KubeletProgress()
			for _, nd := range nodes {
				p.addPod(nd.Name, 'A', PSAvailable, time.Second) // a second, younger pod on the node: the duplicate
			}
			injected = 0
			c.Advance(time.Minute)
			c.Reconcile(sim.ActorERS, "ns1", rs.Name)
			post := c.ERS("ns1", rs.Name)
			cd := oracle.RSCond(&post.Status, edsv1.ConditionTypePodsCleanupDone)
			cleanupFalse := cd != nil && cd.Status == corev1.ConditionFalse
			recErr := oracle.RSCondTrue(&post.Status, edsv1.ConditionTypeReconcileError)
			rec.Class(fmt.Sprintf("canary-cleanup-deletions-failed=%v", injected > 0), 1)
			if injected > 0 && !cleanupFalse && !recErr {
				fail("C17/conditions/cleanup-failure-not-reflected/canary", fmt.Sprintf("%d clean-up deletions of the canary sync failed but neither ReconcileError is True nor PodsCleanupDone False (PodsCleanupDone=%+v)", injected, cd))
			}
			if injected == 0 && (cleanupFalse || recErr) {
				fail("C17/conditions/failure-reported-without-failure/canary", fmt.Sprintf("no deletion failed but ReconcileError=%v PodsCleanupDone=%v", recErr, cd))
			}
		case "reconcile-cleanup":
			// pods on nodes that are about to become ineligible: the sync cleans them up in parallel
			for _, nd := range nodes {
				p.addPod(nd.Name, 'A', PSAvailable, time.Minute)
			}
			// a first sync records when the set became active; it has then been active for a minute, or for longer than
			// the five minutes during which a sync still looks for canary labels to remove (another way out of the function)
			c.Advance(time.Minute)
			c.Reconcile(sim.ActorERS, "ns1", rs.Name)
			for _, nd := range nodes {
				c.MutateNode(nd.Name, func(x *corev1.Node) {
					x.Spec.Taints = []corev1.Taint{{Key: "dedicated", Value: "gpu", Effect: corev1.TaintEffectNoSchedule}}
				})
			}
			c.Advance(rapid.SampledFrom([]time.Duration{time.Minute, time.Minute, 6 * time.Minute, time.Hour}).Draw(rt, "activeSince"))
			rcl := c.Reconcile(sim.ActorERS, "ns1", rs.Name)
			post := c.ERS("ns1", rs.Name)
			// the statement says "ReconcileError or PodsCleanupDone": either condition may carry the failure
			cd := oracle.RSCond(&post.Status, edsv1.ConditionTypePodsCleanupDone)
			cleanupFalse := cd != nil && cd.Status == corev1.ConditionFalse
			recErr := oracle.RSCondTrue(&post.Status, edsv1.ConditionTypeReconcileError)
			// "reflected in the error the sync reports": the strategy's error is what the reconcile records as
			// ReconcileError (its own return value only carries the fate of the status write)
			if injected > 0 && !recErr && !(concurrentWrite && rcl.Err != nil) {
				fail("C17/conditions/cleanup-failure-not-in-the-sync-error", fmt.Sprintf("%d clean-up deletions failed but the error the sync reports (ReconcileError) does not show it; PodsCleanupDone=%v", injected, cd))
			}
			if injected > 0 && !cleanupFalse && !recErr && !(concurrentWrite && rcl.Err != nil) {
				fail("C17/conditions/cleanup-failure-not-reflected", fmt.Sprintf("%d clean-up deletions failed but neither ReconcileError is True nor PodsCleanupDone False (sync err=%v)", injected, rcl.Err))
			}
			if injected == 0 && (cleanupFalse || recErr) {
				fail("C17/conditions/failure-reported-without-failure", fmt.Sprintf("no deletion failed but ReconcileError=%v PodsCleanupDone=%v", recErr, cd))
			}
		}
	})
}

var _ = context.Background
