//go:build verif_plugin

package checks

import (
	"fmt"
	"strings"
	"testing"
	"time"

	metav1 "k8s.io/apimachinery/pkg/apis/meta/v1"
	"pgregory.net/rapid"

	edsv1 "github.com/DataDog/extendeddaemonset/api/v1alpha1"
	"verifharness/evid"
	"verifharness/gen"
	"verifharness/mon"
	"verifharness/oracle"
	"verifharness/sim"
)

// TestC19CanarySequences enumerates every sequence of one to four `kubectl-eds canary pause` / `canary unpause`
// command bodies on a running canary, optionally closed by `canary validate` or `canary fail`, in both validation
// modes. The generated command test draws three commands out of eight and almost never repeats a pause after an
// unpause; here every such sequence runs. After each command: the documented annotation values, two fair rounds,
// and the controller's reading (pause => Canary Paused and Canary-Paused=True on the set, unpause => Canary and
// Canary-Paused not True); while paused one canary pod is lost and must not be replaced. The monitors run after
// every reconcile.
func TestC19CanarySequences(t *testing.T) {
	rec := evid.New("TestC19CanarySequences", "C19", "complete enumeration: sequences of 1-4 command bodies from {kubectl-eds canary pause, canary unpause} on a running two-node canary of a 4-node cluster x closing command {none, canary validate, canary fail} x validation mode {auto with duration 30m, manual}; after each command the documented annotations, two fair rounds, then state / Canary-Paused condition as the command demands; a canary pod lost while paused is not replaced, one lost while running is; forty minutes pass at the end; monitors paused-frozen, promotion-rule, status-function, canary-verdict, canary-latch after every reconcile; non-trivial = the sequence pauses again after an unpause; distinct by configuration")
	shard, shards := envInt("VERIF_SHARD", 0), envInt("VERIF_SHARDS", 1)
	var seqs [][]string
	var build func(prefix []string, n int)
	build = func(prefix []string, n int) {
		if len(prefix) > 0 {
			seqs = append(seqs, append([]string(nil), prefix...))
		}
		if n == 0 {
			return
		}
		for _, c := range []string{"canary-pause", "canary-unpause"} {
			build(append(prefix, c), n-1)
		}
	}
	build(nil, 4)
	failed := false
	ff := &firstFail{t: t, failed: &failed}
	i := 0
	for _, auto := range []bool{true, false} {
		for _, closing := range []string{"", "canary-validate", "canary-fail"} {
			for _, seq := range seqs {
				i++
				if i%shards != shard {
					continue
				}
				c19Sequence(rec, ff, auto, seq, closing)
			}
		}
	}
	rec.Exhaustive(true)
	if !failed {
		rec.Done()
	}
}

func c19Sequence(rec *evid.Rec, f fataler, auto bool, seq []string, closing string) {
	desc := fmt.Sprintf("auto=%v sequence=%s closing=%q", auto, strings.Join(seq, ","), closing)
	var viol []mon.V
	w := &World{rec: rec, cfg: WorldCfg{Monitors: mon.Of("paused-frozen", "promotion-rule", "status-function", "canary-verdict", "canary-latch", "no-panic"), Property: "C19"}, H: mon.NewHistory(), RSSeen: map[string]bool{}, RolesSynced: map[string]bool{}, Facts: map[string]int{}, lastSyncAt: map[string]time.Time{}, Det: true}
	w.OnViolation = func(vs []mon.V) { viol = append(viol, vs...) }
	w.C = sim.New(sim.Options{})
	for i := 0; i < 4; i++ {
		w.C.AddNode(fmt.Sprintf("n%d", i+1), map[string]string{"zone": "a", "tier": "a"}, nil)
	}
	pe, fe := true, true
	pm, fm := int32(2), int32(5)
	cn := &edsv1.ExtendedDaemonSetSpecStrategyCanary{Replicas: gen.ParseIntOrPercent("2"),
		AutoPause: &edsv1.ExtendedDaemonSetSpecStrategyCanaryAutoPause{Enabled: &pe, MaxRestarts: &pm}, AutoFail: &edsv1.ExtendedDaemonSetSpecStrategyCanaryAutoFail{Enabled: &fe, MaxRestarts: &fm}}
	if auto {
		cn.ValidationMode = edsv1.ExtendedDaemonSetSpecStrategyCanaryValidationModeAuto
		cn.Duration = &metav1.Duration{Duration: 30 * time.Minute}
		cn.NoRestartsDuration = &metav1.Duration{}
	} else {
		cn.ValidationMode = edsv1.ExtendedDaemonSetSpecStrategyCanaryValidationModeManual
	}
	st := edsv1.ExtendedDaemonSetSpecStrategy{Canary: cn}
	st.RollingUpdate.SlowStartIntervalDuration = &metav1.Duration{Duration: 5 * time.Second}
	st.RollingUpdate.MaxUnavailable = gen.ParseIntOrPercent("2")
	w.C.Add(&edsv1.ExtendedDaemonSet{ObjectMeta: metav1.ObjectMeta{Namespace: "ns1", Name: "foo"}, Spec: edsv1.ExtendedDaemonSetSpec{Template: gen.LetterTemplate('A'), Strategy: st}})
	k := sim.KeyOf("ns1", "foo")
	w.EDS = append(w.EDS, k)
	stop := func() bool { return len(viol) > 0 }
	add := func(sig, detail string) {
		if !stop() {
			viol = append(viol, mon.V{Property: "C19", Monitor: "sequences", Sig: sig, Detail: detail + " (" + desc + ")"})
		}
	}
	rounds := func(n int, label string) {
		for i := 0; i < n && !stop(); i++ {
			w.fairRound(label)
		}
	}
	for i := 0; i < 15 && !stop(); i++ {
		e := w.C.EDS(k.Namespace, k.Name)
		if e != nil && e.Status.ActiveReplicaSet != "" && e.Status.Ready == 4 {
			break
		}
		w.fairRound("c19 deploy")
	}
	w.editTemplate(k, 'B')
	canaryPods := func(crs string) []string {
		var out []string
		for _, p := range w.C.Pods() {
			if p.Labels[oracle.LabelRSName] == crs && p.DeletionTimestamp == nil {
				out = append(out, p.Name)
			}
		}
		return out
	}
	crs := ""
	for i := 0; i < 10 && !stop(); i++ {
		if e := w.C.EDS(k.Namespace, k.Name); e != nil && e.Status.Canary != nil && len(canaryPods(e.Status.Canary.ReplicaSet)) == 2 {
			crs = e.Status.Canary.ReplicaSet
			break
		}
		w.fairRound("c19 canary starts")
	}
	if crs == "" {
		if !stop() {
			f.Fatalf("harness: the canary did not start: %s", strings.Join(w.C.Trace, "\n"))
			return
		}
		settle(f, rec, viol, map[string]interface{}{"config": desc, "trace": w.C.Trace}, len(w.C.Trace), "config: "+desc)
		return
	}
	activeBefore := w.C.EDS(k.Namespace, k.Name).Status.ActiveReplicaSet
	run := func(cmd string) bool {
		out, err := c19Run(w.C, cmd, k.Namespace, k.Name)
		w.C.Tracef("command %s -> err=%v %s", cmd, err, strings.TrimSpace(out))
		if err != nil {
			add("C19/sequences/"+cmd+"/refused-on-a-running-canary", fmt.Sprintf("%s returned %v although a canary is in progress", cmd, err))
			return false
		}
		return true
	}
	for ci, cmd := range seq {
		if stop() {
			break
		}
		// the command body refuses a pause of a canary whose canary-paused annotation already says true, and an
		// unpause of one whose annotation says false: then nothing is written and the state stays what it was
		cur := w.C.EDS(k.Namespace, k.Name).Annotations[oracle.AnnCanaryPaused]
		if (cmd == "canary-pause" && cur == "true") || (cmd == "canary-unpause" && cur == "false") {
			before := w.C.Snapshot()
			out, err := c19Run(w.C, cmd, k.Namespace, k.Name)
			w.C.Tracef("command %s (repeats the recorded request) -> err=%v %s", cmd, err, strings.TrimSpace(out))
			if d := c19Diff(before, w.C.Snapshot(), "none", "", "", ""); err != nil && len(d) > 0 {
				add("C19/sequences/"+cmd+"/writes-although-refusing", fmt.Sprintf("%s returned %v but changed: %s", cmd, err, strings.Join(d, "; ")))
			}
		} else if !run(cmd) {
			break
		}
		e := w.C.EDS(k.Namespace, k.Name)
		wantP, wantU := "true", "false"
		if cmd == "canary-unpause" {
			wantP, wantU = "false", "true"
		}
		if e.Annotations[oracle.AnnCanaryPaused] != wantP || e.Annotations[oracle.AnnCanaryUnpaused] != wantU {
			add("C19/sequences/"+cmd+"/annotation-value", fmt.Sprintf("after command %d (%s) canary-paused=%q canary-unpaused=%q", ci+1, cmd, e.Annotations[oracle.AnnCanaryPaused], e.Annotations[oracle.AnnCanaryUnpaused]))
		}
		rounds(2, "c19 after "+cmd)
		if stop() {
			break
		}
		// one canary pod is lost (node agent evicted it): a paused canary leaves the gap, a running one fills it
		had := len(canaryPods(crs))
		if pods := canaryPods(crs); len(pods) > 0 {
			w.C.Tracef("canary pod %s lost", pods[0])
			w.C.ForceRemovePod(k.Namespace, pods[0])
			had--
		}
		rounds(3, "c19 pod lost after "+cmd)
		if stop() {
			break
		}
		e = w.C.EDS(k.Namespace, k.Name)
		rs := w.C.ERS(k.Namespace, crs)
		if e.Status.Canary == nil || e.Status.Canary.ReplicaSet != crs || rs == nil {
			add("C19/sequences/canary-ended-by-"+cmd, fmt.Sprintf("after command %d (%s) the canary %s is no longer in progress: status.canary=%v active=%s", ci+1, cmd, crs, e.Status.Canary, e.Status.ActiveReplicaSet))
			break
		}
		pausedCond := oracle.RSCondTrue(&rs.Status, edsv1.ConditionTypeCanaryPaused)
		switch cmd {
		case "canary-pause":
			if e.Status.State != edsv1.ExtendedDaemonSetStatusStateCanaryPaused {
				add("C19/interpretation/pause-not-reflected", fmt.Sprintf("five rounds after command %d (canary pause) the state is %q", ci+1, e.Status.State))
			}
			if !pausedCond {
				add("C19/interpretation/pause-not-reflected/replica-set-condition", fmt.Sprintf("five rounds after command %d (canary pause) replica set %s does not carry Canary-Paused=True", ci+1, crs))
			}
			if n := len(canaryPods(crs)); n != had {
				add("C19/interpretation/paused-canary-replaced-its-pod", fmt.Sprintf("after command %d (canary pause) the paused canary runs %d pods, %d were left after one was lost and none may be added", ci+1, n, had))
			}
		case "canary-unpause":
			if e.Status.State != edsv1.ExtendedDaemonSetStatusStateCanary {
				add("C19/interpretation/unpause-not-reflected", fmt.Sprintf("five rounds after command %d (canary unpause) the state is %q reason %q", ci+1, e.Status.State, e.Status.Reason))
			}
			if pausedCond {
				add("C19/interpretation/unpause-not-reflected/replica-set-condition", fmt.Sprintf("five rounds after command %d (canary unpause) replica set %s still carries Canary-Paused=True", ci+1, crs))
			}
			if n := len(canaryPods(crs)); n != 2 {
				add("C19/interpretation/unpaused-canary-did-not-resume", fmt.Sprintf("after command %d (canary unpause) the canary runs %d pods on its 2 nodes", ci+1, n))
			}
		}
	}
	last := seq[len(seq)-1]
	if closing != "" && !stop() {
		if run(closing) {
			rounds(6, "c19 after "+closing)
			if !stop() {
				e := w.C.EDS(k.Namespace, k.Name)
				switch closing {
				case "canary-validate":
					if e.Status.ActiveReplicaSet != crs {
						add("C19/interpretation/validated-set-not-active", fmt.Sprintf("six rounds after canary validate status.activeReplicaSet=%q, the validated canary was %q", e.Status.ActiveReplicaSet, crs))
					}
				case "canary-fail":
					if e.Status.ActiveReplicaSet != activeBefore {
						add("C19/interpretation/fail-changed-active", fmt.Sprintf("after canary fail status.activeReplicaSet went from %q to %q", activeBefore, e.Status.ActiveReplicaSet))
					}
					if e.Status.Canary != nil {
						add("C19/interpretation/fail-no-rollback", fmt.Sprintf("six rounds after canary fail status.canary is still %+v", *e.Status.Canary))
					}
				}
			}
		}
	} else if !stop() {
		// nothing closes the canary: forty minutes pass. Paused, it stays a canary; running in auto mode it is promoted
		w.C.Advance(40 * time.Minute)
		rounds(3, "c19 duration over")
		if !stop() {
			e := w.C.EDS(k.Namespace, k.Name)
			if last == "canary-pause" && e.Status.ActiveReplicaSet != activeBefore {
				add("C19/interpretation/paused-canary-promoted", fmt.Sprintf("the canary was paused by the last command and yet status.activeReplicaSet went from %q to %q when its duration passed", activeBefore, e.Status.ActiveReplicaSet))
			}
			if last == "canary-unpause" && auto && e.Status.ActiveReplicaSet != crs {
				add("C19/interpretation/unpaused-canary-not-promoted", fmt.Sprintf("the canary was unpaused by the last command, its duration passed, and status.activeReplicaSet is %q (canary %q)", e.Status.ActiveReplicaSet, crs))
			}
		}
	}
	rePause, seenUnpause := false, false
	for _, op := range seq {
		if op == "canary-unpause" {
			seenUnpause = true
		}
		if seenUnpause && op == "canary-pause" {
			rePause = true
		}
	}
	rec.Case(rePause, evid.FP(desc), fmt.Sprintf("auto=%v", auto), "closing="+closing, fmt.Sprintf("length=%d", len(seq)))
	rec.Steps(1)
	if rePause && rec.WantSample() {
		rec.Sample(desc)
	}
	settle(f, rec, viol, map[string]interface{}{"config": desc, "trace": w.C.Trace}, len(w.C.Trace), "config: "+desc+"\n--- trace ---\n"+strings.Join(w.C.Trace, "\n"))
}

// TestC19Queue: the controller's reading of the commands under event-driven scheduling. The commands' writes reach the
// controllers only as watch events through the repository's own wiring (SetupWithManager: watches, predicates,
// handlers - see wiring_test.go), reconciles run only on events and requeue requests (workQueue, virtual clock). A
// canary (manual validation: no timer ends it) runs or has been auto-paused by restarts; after each of 1-3 command
// bodies the system gets 3 x reconcileFrequency + 2s and must then show what the command demands.
func TestC19Queue(t *testing.T) {
	rec := evid.New("TestC19Queue", "C19", "event-driven scheduling with the repository's own watch wiring: 3 nodes, reconcileFrequency in {1s, 2s, 10s}, manual canary on one node, running or auto-paused (three restarts of its pod, or a container that cannot start: ImagePullBackOff); 1-3 command bodies from {canary pause, canary unpause, canary fail, canary validate}, each followed by 3 x reconcileFrequency + 2s of event-driven running; oracle: a refused command writes nothing; pause => state Canary Paused, unpause => state Canary and Canary-Paused not True on the set, validate => the canary set is active, fail => status.canary gone and the active set unchanged; monitors paused-frozen, promotion-rule, status-function after every reconcile; non-trivial = an unpause of an auto-paused canary; distinct by configuration")
	t.Cleanup(func() {
		if !t.Failed() {
			rec.Done()
		}
	})
	rapid.Check(t, func(rt *rapid.T) {
		freq := rapid.SampledFrom([]time.Duration{time.Second, 2 * time.Second, 10 * time.Second}).Draw(rt, "reconcileFrequency")
		pausedBy := rapid.SampledFrom([]string{"", "restarts", "cannot-start"}).Draw(rt, "autoPausedBy")
		autoPaused := pausedBy != ""
		nc := rapid.IntRange(1, 3).Draw(rt, "commands")
		var cmds []string
		for i := 0; i < nc; i++ {
			cmds = append(cmds, rapid.SampledFrom([]string{"canary-pause", "canary-unpause", "canary-unpause", "canary-fail", "canary-validate"}).Draw(rt, fmt.Sprintf("cmd%d", i)))
		}
		desc := fmt.Sprintf("reconcileFrequency=%s autoPausedBy=%q commands=%v", freq, pausedBy, cmds)
		var viol []mon.V
		w := &World{rec: rec, cfg: WorldCfg{Monitors: mon.Of("paused-frozen", "promotion-rule", "status-function", "no-panic"), Property: "C19"}, H: mon.NewHistory(), RSSeen: map[string]bool{}, RolesSynced: map[string]bool{}, Facts: map[string]int{}, lastSyncAt: map[string]time.Time{}, Det: true}
		w.OnViolation = func(vs []mon.V) { viol = append(viol, vs...) }
		w.C = sim.New(sim.Options{})
		for i := 0; i < 3; i++ {
			w.C.AddNode(fmt.Sprintf("n%d", i+1), map[string]string{"zone": "a", "tier": "a"}, nil)
		}
		pe, fe := true, true
		pm, fm := int32(2), int32(8)
		st := edsv1.ExtendedDaemonSetSpecStrategy{ReconcileFrequency: &metav1.Duration{Duration: freq}}
		st.RollingUpdate.MaxUnavailable = gen.ParseIntOrPercent("100%")
		st.RollingUpdate.SlowStartAdditiveIncrease = gen.ParseIntOrPercent("10")
		st.Canary = &edsv1.ExtendedDaemonSetSpecStrategyCanary{Replicas: gen.ParseIntOrPercent("1"), ValidationMode: edsv1.ExtendedDaemonSetSpecStrategyCanaryValidationModeManual,
			AutoPause: &edsv1.ExtendedDaemonSetSpecStrategyCanaryAutoPause{Enabled: &pe, MaxRestarts: &pm}, AutoFail: &edsv1.ExtendedDaemonSetSpecStrategyCanaryAutoFail{Enabled: &fe, MaxRestarts: &fm}}
		k := sim.KeyOf("ns1", "foo")
		w.EDS = append(w.EDS, k)
		q := newWorkQueue(w)
		stop := func() bool { return len(viol) > 0 }
		add := func(sig, detail string) {
			if !stop() {
				viol = append(viol, mon.V{Property: "C19", Monitor: "queue", Sig: sig, Detail: detail + " (" + desc + ")"})
			}
		}
		q.env(func() {
			w.C.Add(&edsv1.ExtendedDaemonSet{ObjectMeta: metav1.ObjectMeta{Namespace: "ns1", Name: "foo"}, Spec: edsv1.ExtendedDaemonSetSpec{Template: gen.LetterTemplate('A'), Strategy: st}})
		})
		run := func(d time.Duration) { q.runUntil(w.C.Now().Add(d), 6000, stop) }
		settleD := 3*freq + 2*time.Second
		for i := 0; i < 20 && !stop(); i++ {
			if e := w.C.EDS(k.Namespace, k.Name); e != nil && e.Status.Ready == 3 {
				break
			}
			run(freq + time.Second)
		}
		q.env(func() { w.editTemplate(k, 'B') })
		crs := ""
		for i := 0; i < 20 && !stop() && crs == ""; i++ {
			run(freq + time.Second)
			if e := w.C.EDS(k.Namespace, k.Name); e != nil && e.Status.Canary != nil {
				for _, p := range w.C.Pods() {
					if p.Labels[oracle.LabelRSName] == e.Status.Canary.ReplicaSet && oracle.IsReady(p) {
						crs = e.Status.Canary.ReplicaSet
					}
				}
			}
		}
		if crs == "" {
			if !stop() {
				rt.Fatalf("harness: the canary did not start (%s)\n%s", desc, strings.Join(tail(w.C.Trace, 60), "\n"))
			}
			settle(rt, rec, viol, map[string]interface{}{"config": desc, "trace": tail(w.C.Trace, 200)}, len(w.C.Trace), desc)
			return
		}
		activeBefore := w.C.EDS(k.Namespace, k.Name).Status.ActiveReplicaSet
		if autoPaused {
			q.env(func() {
				for _, p := range w.C.Pods() {
					if p.Labels[oracle.LabelRSName] == crs {
						if pausedBy == "cannot-start" {
							// the canary pod cannot pull its image any more: no restart, a waiting container
							w.C.Break(p.Namespace, p.Name)
							w.C.Waiting(p.Namespace, p.Name, 0, "ImagePullBackOff")
							continue
						}
						for i := 0; i < 3; i++ {
							w.C.Restart(p.Namespace, p.Name, 0, "Error")
						}
					}
				}
			})
			run(settleD)
			if e := w.C.EDS(k.Namespace, k.Name); !stop() && e.Status.State != edsv1.ExtendedDaemonSetStatusStateCanaryPaused {
				add("C19/queue/auto-pause-not-shown", fmt.Sprintf("%s after the canary pod got into trouble (%s) the state is %q", settleD, pausedBy, e.Status.State))
			}
		}
		unpausedAutoPaused := false
		for ci, cmd := range cmds {
			if stop() {
				break
			}
			e := w.C.EDS(k.Namespace, k.Name)
			if e.Status.Canary == nil || e.Status.Canary.ReplicaSet != crs {
				break // the canary is over (validated or failed): the remaining commands have nothing to act on
			}
			before := w.C.Snapshot()
			var out string
			var err error
			q.env(func() { out, err = c19Run(w.C, cmd, k.Namespace, k.Name) })
			w.C.Tracef("command %s -> err=%v %s", cmd, err, strings.TrimSpace(out))
			if err != nil {
				if d := c19Diff(before, w.C.Snapshot(), "none", "", "", ""); len(d) > 0 {
					add("C19/queue/"+cmd+"/writes-although-refusing", fmt.Sprintf("%s returned %v but changed: %s", cmd, err, strings.Join(d, "; ")))
				}
				continue
			}
			if cmd == "canary-unpause" && autoPaused {
				unpausedAutoPaused = true
			}
			run(settleD)
			if stop() {
				break
			}
			e = w.C.EDS(k.Namespace, k.Name)
			rs := w.C.ERS(k.Namespace, crs)
			still := e.Status.Canary != nil && e.Status.Canary.ReplicaSet == crs && rs != nil && !oracle.RSCondTrue(&rs.Status, edsv1.ConditionTypeCanaryFailed)
			switch cmd {
			case "canary-pause":
				if still && e.Status.State != edsv1.ExtendedDaemonSetStatusStateCanaryPaused {
					add("C19/interpretation/pause-not-reflected/event-driven", fmt.Sprintf("%s after command %d (canary pause) the state is %q", settleD, ci+1, e.Status.State))
				}
			case "canary-unpause":
				if still && e.Status.State != edsv1.ExtendedDaemonSetStatusStateCanary {
					add("C19/interpretation/unpause-not-reflected/event-driven", fmt.Sprintf("%s after command %d (canary unpause) the state is %q reason %q; Canary-Paused on %s: %v", settleD, ci+1, e.Status.State, e.Status.Reason, crs, oracle.RSCondTrue(&rs.Status, edsv1.ConditionTypeCanaryPaused)))
				}
			case "canary-validate":
				if e.Status.ActiveReplicaSet != crs {
					add("C19/interpretation/validated-set-not-active/event-driven", fmt.Sprintf("%s after canary validate status.activeReplicaSet=%q, the validated canary was %q", settleD, e.Status.ActiveReplicaSet, crs))
				}
			case "canary-fail":
				if e.Status.ActiveReplicaSet != activeBefore || e.Status.Canary != nil {
					add("C19/interpretation/fail-no-rollback/event-driven", fmt.Sprintf("%s after canary fail: status.activeReplicaSet=%q (was %q), status.canary=%v", settleD, e.Status.ActiveReplicaSet, activeBefore, e.Status.Canary))
				}
			}
		}
		rec.Case(unpausedAutoPaused, evid.FP(desc), fmt.Sprintf("auto-paused=%v", autoPaused), fmt.Sprintf("frequency=%s", freq))
		rec.Steps(q.Steps)
		if unpausedAutoPaused && rec.WantSample() {
			rec.Sample(desc)
		}
		settle(rt, rec, viol, map[string]interface{}{"config": desc, "trace": tail(w.C.Trace, 200)}, len(w.C.Trace), "config: "+desc+"\n--- trace (tail) ---\n"+strings.Join(tail(w.C.Trace, 80), "\n"))
	})
}

// TestC19ValidateSuperseded: `canary validate` while the canary it would validate has just been superseded. Canary B
// runs, the user pushes template C, the ExtendedDaemonSet controller has created C's replica set (one reconcile) but
// status.canary still names B. The command validates what the status names - B, the replica set that was the canary
// when it ran - and a replica set that never ran as a canary is not promoted by it.
func TestC19ValidateSuperseded(t *testing.T) {
	rec := evid.New("TestC19ValidateSuperseded", "C19", "2-4 nodes, manual or auto (30m) canary; templates A (rolled out), B (canary running), then C pushed and 0, 1 or 2 reconciles of the ExtendedDaemonSet before the real `canary validate` body runs, then six fair rounds; oracle: the command writes canary-valid = the replica set status.canary named when it ran, nothing else; the promotion-rule monitor after every reconcile; a replica set that was never recorded as the canary is not active at the end unless the annotation names it; non-trivial = status.canary named a superseded set when the command ran; distinct by configuration")
	failed := false
	ff := &firstFail{t: t, failed: &failed}
	for _, nodes := range []int{2, 3, 4} {
		for _, auto := range []bool{false, true} {
			for recs := 0; recs <= 2; recs++ {
				desc := fmt.Sprintf("nodes=%d auto=%v edsReconcilesBetweenTheEditAndTheCommand=%d", nodes, auto, recs)
				var viol []mon.V
				w := &World{rec: rec, cfg: WorldCfg{Monitors: mon.Of("promotion-rule", "status-function", "no-panic"), Property: "C19"}, H: mon.NewHistory(), RSSeen: map[string]bool{}, RolesSynced: map[string]bool{}, Facts: map[string]int{}, lastSyncAt: map[string]time.Time{}, Det: true}
				w.OnViolation = func(vs []mon.V) { viol = append(viol, vs...) }
				w.C = sim.New(sim.Options{})
				for i := 0; i < nodes; i++ {
					w.C.AddNode(fmt.Sprintf("n%d", i+1), map[string]string{"zone": "a", "tier": "a"}, nil)
				}
				cn := &edsv1.ExtendedDaemonSetSpecStrategyCanary{Replicas: gen.ParseIntOrPercent("1"), ValidationMode: edsv1.ExtendedDaemonSetSpecStrategyCanaryValidationModeManual}
				if auto {
					cn.ValidationMode = edsv1.ExtendedDaemonSetSpecStrategyCanaryValidationModeAuto
					cn.Duration = &metav1.Duration{Duration: 30 * time.Minute}
				}
				st := edsv1.ExtendedDaemonSetSpecStrategy{Canary: cn}
				st.RollingUpdate.MaxUnavailable = gen.ParseIntOrPercent("100%")
				w.C.Add(&edsv1.ExtendedDaemonSet{ObjectMeta: metav1.ObjectMeta{Namespace: "ns1", Name: "foo"}, Spec: edsv1.ExtendedDaemonSetSpec{Template: gen.LetterTemplate('A'), Strategy: st}})
				k := sim.KeyOf("ns1", "foo")
				w.EDS = append(w.EDS, k)
				stop := func() bool { return len(viol) > 0 }
				for i := 0; i < 15 && !stop(); i++ {
					if e := w.C.EDS(k.Namespace, k.Name); e != nil && int(e.Status.Ready) == nodes {
						break
					}
					w.fairRound("c19 deploy")
				}
				w.editTemplate(k, 'B')
				for i := 0; i < 6 && !stop(); i++ {
					w.fairRound("c19 canary B")
				}
				before := w.C.EDS(k.Namespace, k.Name)
				if before.Status.Canary == nil {
					f := fataler(ff)
					f.Fatalf("harness: canary B did not start (%s)", desc)
					return
				}
				canaryB, activeA := before.Status.Canary.ReplicaSet, before.Status.ActiveReplicaSet
				w.editTemplate(k, 'C')
				for i := 0; i < recs && !stop(); i++ {
					w.C.Advance(time.Second)
					w.reconcile(sim.ActorEDS, k.Namespace, k.Name)
				}
				named := ""
				if e := w.C.EDS(k.Namespace, k.Name); e.Status.Canary != nil {
					named = e.Status.Canary.ReplicaSet
				}
				snap := w.C.Snapshot()
				out, err := c19Run(w.C, "canary-validate", k.Namespace, k.Name)
				w.C.Tracef("command canary-validate (status.canary names %s) -> err=%v %s", named, err, strings.TrimSpace(out))
				if err == nil {
					if d := c19Diff(snap, w.C.Snapshot(), "canary-validate", k.Namespace, k.Name, named); len(d) > 0 {
						viol = append(viol, mon.V{Property: "C19", Monitor: "commands", Sig: "C19/commands/canary-validate/touches-more-than-documented", Detail: strings.Join(d, "; ") + " (" + desc + ")"})
					}
					if got := w.C.EDS(k.Namespace, k.Name).Annotations[oracle.AnnCanaryValid]; got != named && !stop() {
						viol = append(viol, mon.V{Property: "C19", Monitor: "commands", Sig: "C19/commands/canary-validate/annotation-value", Detail: fmt.Sprintf("canary validate ran while status.canary named %q and wrote canary-valid=%q (%s)", named, got, desc)})
					}
				}
				for i := 0; i < 6 && !stop(); i++ {
					w.fairRound("c19 after validate")
				}
				if !stop() {
					e := w.C.EDS(k.Namespace, k.Name)
					act := e.Status.ActiveReplicaSet
					if act != activeA && act != canaryB && e.Annotations[oracle.AnnCanaryValid] != act {
						viol = append(viol, mon.V{Property: "C19", Monitor: "commands", Sig: "C19/interpretation/unvalidated-set-active", Detail: fmt.Sprintf("replica set %s is active although it never was the validated canary (canary B was %s, annotation names %q) (%s)", act, canaryB, e.Annotations[oracle.AnnCanaryValid], desc)})
					}
				}
				nt := named == canaryB && recs > 0
				rec.Case(nt, evid.FP(desc), fmt.Sprintf("status-named-superseded-set=%v", named == canaryB))
				rec.Steps(1)
				if nt && rec.WantSample() {
					rec.Sample(desc)
				}
				settle(ff, rec, viol, map[string]interface{}{"config": desc, "trace": w.C.Trace}, len(w.C.Trace), "config: "+desc+"\n--- trace ---\n"+strings.Join(w.C.Trace, "\n"))
			}
		}
	}
	rec.Exhaustive(true)
	if !failed {
		rec.Done()
	}
}
