package checks

import (
	"encoding/json"
	"fmt"
	"sort"
	"strings"
	"testing"
	"time"

	corev1 "k8s.io/api/core/v1"
	apiequality "k8s.io/apimachinery/pkg/api/equality"
	"k8s.io/apimachinery/pkg/api/resource"
	metav1 "k8s.io/apimachinery/pkg/apis/meta/v1"
	"pgregory.net/rapid"
	"sigs.k8s.io/controller-runtime/pkg/client"

	edsv1 "github.com/DataDog/extendeddaemonset/api/v1alpha1"
	"verifharness/evid"
	"verifharness/gen"
	"verifharness/mon"
	"verifharness/oracle"
	"verifharness/sim"
)

// workQueue drives the reconcilers the way controller-runtime does instead of in rounds: a reconcile runs only when
// a watch event or a requeue request asks for it. The wiring is the one of controllers/*_controller.go:
//   - ExtendedDaemonSet controller: For(EDS), Owns(replica set), pods by the extendeddaemonset name label;
//   - replica-set controller: For(replica set), Owns(pod), and for an EDS event the replica set named in its
//     status.activeReplicaSet (old and new object); nodes are not watched;
//   - pod-template controller: For(EDS), Owns(PodTemplate).
//
// Events are derived from the difference between the store before and after every reconcile or environment step
// (an update that changes nothing produces no event, as with a real API server). Result handling follows the
// controller-runtime worker: error or Requeue -> rate-limited retry (5ms * 2^failures), RequeueAfter -> delayed add,
// otherwise forget. A delayed add keeps the earliest due time per request; a request that becomes due is processed
// once however often it was added. Every reconcile takes one millisecond of virtual time.
type workQueue struct {
	w     *World
	ready []string // FIFO of request keys
	isRdy map[string]bool
	wait  map[string]time.Time
	fails map[string]int
	Steps int
	// LastChange is the virtual time of the last change to a pod, node or spec (not of status bookkeeping)
	LastChange time.Time
}

func newWorkQueue(w *World) *workQueue {
	return &workQueue{w: w, isRdy: map[string]bool{}, wait: map[string]time.Time{}, fails: map[string]int{}}
}

func wqKey(actor, ns, name string) string { return actor + "|" + ns + "|" + name }

func (q *workQueue) add(actor, ns, name string) {
	k := wqKey(actor, ns, name)
	if name == "" || q.isRdy[k] {
		return
	}
	q.isRdy[k] = true
	q.ready = append(q.ready, k)
}

func (q *workQueue) addAfter(actor, ns, name string, d time.Duration) {
	if d <= 0 {
		q.add(actor, ns, name)
		return
	}
	k := wqKey(actor, ns, name)
	due := q.w.C.Now().Add(d)
	if cur, ok := q.wait[k]; !ok || due.Before(cur) {
		q.wait[k] = due
	}
}

func renderObj(o metav1.Object, v interface{}) string {
	b, _ := json.Marshal(v)
	var m map[string]interface{}
	_ = json.Unmarshal(b, &m)
	if md, ok := m["metadata"].(map[string]interface{}); ok {
		delete(md, "resourceVersion")
		delete(md, "managedFields")
	}
	b, _ = json.Marshal(m)
	return string(b)
}

func controllerOwner(o metav1.Object, kind string) string {
	for _, ref := range o.GetOwnerReferences() {
		if ref.Controller != nil && *ref.Controller && ref.Kind == kind {
			return ref.Name
		}
	}
	return ""
}

// events enqueues what the watch handlers would enqueue for the difference between two snapshots.
func (q *workQueue) events(pre, post *sim.Snapshot) (changed bool) {
	type item struct {
		obj  metav1.Object
		body string
	}
	index := func(s *sim.Snapshot) map[string]map[string]item {
		m := map[string]map[string]item{"pod": {}, "rs": {}, "eds": {}, "pt": {}, "setting": {}, "node": {}}
		for _, x := range s.Settings {
			m["setting"][x.Namespace+"/"+x.Name] = item{x, renderObj(x, x)}
		}
		for _, x := range s.Nodes {
			m["node"][x.Name] = item{x, renderObj(x, x)}
		}
		for _, p := range s.Pods {
			m["pod"][p.Namespace+"/"+p.Name] = item{p, renderObj(p, p)}
		}
		for _, r := range s.RS {
			m["rs"][r.Namespace+"/"+r.Name] = item{r, renderObj(r, r)}
		}
		for _, e := range s.EDS {
			m["eds"][e.Namespace+"/"+e.Name] = item{e, renderObj(e, e)}
		}
		for _, t := range s.PodTemplates {
			m["pt"][t.Namespace+"/"+t.Name] = item{t, renderObj(t, t)}
		}
		return m
	}
	a, b := index(pre), index(post)
	wr, werr := getWiring()
	if werr != nil {
		panic("harness: wiring: " + werr.Error())
	}
	kindName := map[string]string{"pod": "Pod", "rs": "ExtendedDaemonSetReplicaSet", "eds": "ExtendedDaemonSet", "pt": "PodTemplate", "setting": "ExtendedDaemonsetSetting", "node": "Node"}
	actorOf := map[string]string{"eds": sim.ActorEDS, "ers": sim.ActorERS, "podtemplate": sim.ActorPodTemplate, "setting": sim.ActorSetting}
	deliver := func(kind string, oldObj, newObj metav1.Object) {
		var o, n client.Object
		if oldObj != nil {
			o = oldObj.(client.Object)
		}
		if newObj != nil {
			n = newObj.(client.Object)
		}
		reqs, err := wr.requestsFor(kindName[kind], o, n)
		if err != nil {
			panic("harness: wiring: " + err.Error())
		}
		for _, r := range reqs {
			if actor := actorOf[r.Controller]; actor != "" {
				q.add(actor, r.NS, r.Name)
			}
		}
	}
	for _, kind := range []string{"pod", "rs", "eds", "pt", "setting", "node"} {
		keys := map[string]bool{}
		for k := range a[kind] {
			keys[k] = true
		}
		for k := range b[kind] {
			keys[k] = true
		}
		var ks []string
		for k := range keys {
			ks = append(ks, k)
		}
		sort.Strings(ks)
		for _, k := range ks {
			x, inA := a[kind][k]
			y, inB := b[kind][k]
			if inA && inB && x.body == y.body {
				continue
			}
			changed = true
			switch {
			case inA && inB:
				deliver(kind, x.obj, y.obj)
			case inA:
				deliver(kind, x.obj, nil)
			default:
				deliver(kind, nil, y.obj)
			}
		}
	}
	return changed
}

// env runs an environment step (kubelet, user, node agent) and delivers its watch events.
func (q *workQueue) env(f func()) bool {
	pre := q.w.C.Snapshot()
	f()
	ch := q.events(pre, q.w.C.Snapshot())
	if ch {
		q.LastChange = q.w.C.Now()
	}
	return ch
}

// step processes one request, or lets the kubelet act when nothing is ready, or moves the clock to the next timer.
// It returns false when nothing is left to do before the deadline.
func (q *workQueue) step(deadline time.Time) bool {
	c := q.w.C
	for k, due := range q.wait {
		if !due.After(c.Now()) {
			delete(q.wait, k)
			if !q.isRdy[k] {
				q.isRdy[k] = true
				q.ready = append(q.ready, k)
			}
		}
	}
	if len(q.ready) == 0 {
		// the kubelet acts a little after the controllers went quiet
		if c.Now().Add(200 * time.Millisecond).Before(deadline) {
			acted := q.env(func() {
				c.Advance(200 * time.Millisecond)
				c.KubeletProgress()
			})
			if acted {
				return true
			}
		}
		var next time.Time
		for _, due := range q.wait {
			if next.IsZero() || due.Before(next) {
				next = due
			}
		}
		if next.IsZero() || next.After(deadline) {
			if c.Now().Before(deadline) {
				c.Advance(deadline.Sub(c.Now()))
			}
			return false
		}
		if next.After(c.Now()) {
			c.Advance(next.Sub(c.Now()))
		}
		return true
	}
	// ready requests are served in sorted order of arrival batches: deterministic and fair
	k := q.ready[0]
	q.ready = q.ready[1:]
	delete(q.isRdy, k)
	parts := strings.SplitN(k, "|", 3)
	actor, ns, name := parts[0], parts[1], parts[2]
	c.Advance(time.Millisecond)
	r := q.w.reconcile(actor, ns, name)
	q.Steps++
	if r.Pre != nil && r.Post != nil {
		podsBefore, podsAfter := len(r.Pre.Pods), len(r.Post.Pods)
		q.events(r.Pre, r.Post)
		if podsBefore != podsAfter {
			q.LastChange = c.Now()
		}
		for _, cl := range r.Calls {
			if cl.Kind == "Pod" && cl.Write && cl.Applied {
				q.LastChange = c.Now()
			}
		}
	}
	switch {
	case r.Err != nil || r.Result.Requeue:
		q.fails[k]++
		d := 5 * time.Millisecond << uint(minInt(q.fails[k]-1, 16))
		q.addAfter(actor, ns, name, d)
	case r.Result.RequeueAfter > 0:
		delete(q.fails, k)
		q.addAfter(actor, ns, name, r.Result.RequeueAfter)
	default:
		delete(q.fails, k)
	}
	return true
}

func minInt(a, b int) int {
	if a < b {
		return a
	}
	return b
}

// runUntil processes requests until the virtual clock reaches the deadline (or maxSteps reconciles ran).
func (q *workQueue) runUntil(deadline time.Time, maxSteps int, stop func() bool) {
	start := q.Steps
	for q.Steps-start < maxSteps && !stop() && q.w.C.Now().Before(deadline) {
		if !q.step(deadline) {
			return
		}
	}
}

// TestC14Queue: the quiescent clause of C14 under event-driven scheduling. Reconciles run only when a watch event or
// a requeue request asks for them (workQueue above), on the virtual clock. After the first roll-out and after each
// generated disturbance (a pod stops being Ready for good / for a while, is deleted by the user, restarts; a node is
// added) placed at a generated instant relative to the active replica set's next sync time, the system is given
// twice the reconcile frequency plus two seconds without any further change; then the replica set's and the
// ExtendedDaemonSet's counters must equal what exists. A controller that consumes an event without syncing and
// without asking to be called again leaves a stale status behind.
func TestC14Queue(t *testing.T) {
	rec := evid.New("TestC14Queue", "C14", "event-driven scheduling (watch events as wired in controllers/*_controller.go, Requeue/RequeueAfter/errors as the controller-runtime worker handles them, virtual clock): 1-4 nodes, reconcileFrequency in {500ms, 1s, 2s, 10s}, first roll-out starting at a generated fraction of a second, then 1-3 disturbances from {pod not Ready for good, pod not Ready and healed by the kubelet, pod deleted by the user, container restart, node added} each placed at next-sync-time minus {50ms, 250ms, 450ms, 600ms, 1.3s} or plus 100ms; after each, 2 x reconcileFrequency + 2s without further change; oracle: replica-set and EDS counters (desired/current/ready/available/upToDate) equal the eligible nodes and the pods that exist / are Ready / run the live template, and the status-function and rs-status-order monitors hold after every reconcile; non-trivial = a disturbance landed inside the last half second before the next sync time; distinct by configuration")
	t.Cleanup(func() {
		if !t.Failed() {
			rec.Done()
		}
	})
	rapid.Check(t, func(rt *rapid.T) {
		nodes := rapid.IntRange(1, 4).Draw(rt, "nodes")
		freq := rapid.SampledFrom([]time.Duration{time.Second, 1500 * time.Millisecond, 2 * time.Second, 10 * time.Second}).Draw(rt, "reconcileFrequency")
		frac := rapid.SampledFrom([]time.Duration{0, 150 * time.Millisecond, 400 * time.Millisecond, 600 * time.Millisecond, 850 * time.Millisecond}).Draw(rt, "startFraction")
		nd := rapid.IntRange(1, 3).Draw(rt, "disturbances")
		var ds []c14Dist
		for i := 0; i < nd; i++ {
			ds = append(ds, c14Dist{
				Kind:  rapid.SampledFrom([]string{"pod-unready-for-good", "pod-unready", "pod-deleted", "pod-restart", "node-added"}).Draw(rt, fmt.Sprintf("d%d-kind", i)),
				Delta: rapid.SampledFrom([]time.Duration{-50 * time.Millisecond, -250 * time.Millisecond, -450 * time.Millisecond, -600 * time.Millisecond, -1300 * time.Millisecond, 100 * time.Millisecond}).Draw(rt, fmt.Sprintf("d%d-delta", i)),
			})
		}
		c14Queue(rec, rt, nodes, freq, frac, ds, "")
	})
}

// c14Dist is one disturbance of the event-driven C14 check.
type c14Dist struct {
	Kind  string
	Delta time.Duration // offset from the active replica set's next sync time
}

// c14Queue plays one event-driven history (see TestC14Queue); sigSuffix re-labels the counter violations (used by the
// reproducer of the recorded sub-second-frequency finding).
func c14Queue(rec *evid.Rec, rt fataler, nodes int, freq, frac time.Duration, ds []c14Dist, sigSuffix string) {
	{
		desc := fmt.Sprintf("nodes=%d reconcileFrequency=%s startFraction=%s disturbances=%v", nodes, freq, frac, ds)
		var viol []mon.V
		w := &World{rec: rec, cfg: WorldCfg{Monitors: mon.Of("status-function", "rs-status-order", "no-panic"), Property: "C14"}, H: mon.NewHistory(), RSSeen: map[string]bool{}, RolesSynced: map[string]bool{}, Facts: map[string]int{}, lastSyncAt: map[string]time.Time{}, Det: true}
		w.OnViolation = func(vs []mon.V) { viol = append(viol, vs...) }
		w.C = sim.New(sim.Options{})
		w.C.Advance(frac)
		for i := 0; i < nodes; i++ {
			w.C.AddNode(fmt.Sprintf("n%d", i+1), map[string]string{"zone": "a", "tier": "a"}, nil)
		}
		st := edsv1.ExtendedDaemonSetSpecStrategy{ReconcileFrequency: &metav1.Duration{Duration: freq}}
		st.RollingUpdate.MaxUnavailable = gen.ParseIntOrPercent("100%")
		st.RollingUpdate.SlowStartAdditiveIncrease = gen.ParseIntOrPercent("10")
		k := sim.KeyOf("ns1", "foo")
		w.EDS = append(w.EDS, k)
		q := newWorkQueue(w)
		stop := func() bool { return len(viol) > 0 }
		q.env(func() {
			w.C.Add(&edsv1.ExtendedDaemonSet{ObjectMeta: metav1.ObjectMeta{Namespace: "ns1", Name: "foo"}, Spec: edsv1.ExtendedDaemonSetSpec{Template: gen.LetterTemplate('A'), Strategy: st}})
		})
		// settle: no change to pods, nodes or spec for 2 x reconcileFrequency + 2s
		settleQ := func() bool {
			for i := 0; i < 40 && !stop(); i++ {
				target := q.LastChange.Add(2*freq + 2*time.Second)
				if !w.C.Now().Before(target) {
					return true
				}
				q.runUntil(target, 4000, stop)
			}
			return false
		}
		counters := func(when string) {
			if stop() {
				return
			}
			e := w.C.EDS(k.Namespace, k.Name)
			if e == nil {
				return
			}
			rs := w.C.ERS(k.Namespace, e.Status.ActiveReplicaSet)
			if rs == nil {
				viol = append(viol, mon.V{Property: "C14", Monitor: "quiescent-status", Sig: "C14/quiescent-status/event-driven/no-active-replica-set", Detail: fmt.Sprintf("%s: status.activeReplicaSet=%q does not exist (%s)", when, e.Status.ActiveReplicaSet, desc)})
				return
			}
			eligible, pods, ready, live := 0, 0, 0, 0
			for _, n := range w.C.Nodes() {
				if oracle.Eligible(&rs.Spec.Template, n) {
					eligible++
				}
			}
			for _, p := range w.C.Pods() {
				if p.Namespace != k.Namespace || p.Labels[oracle.LabelEDSName] != k.Name {
					continue
				}
				if p.DeletionTimestamp != nil {
					return // still terminating: not quiescent, no claim
				}
				pods++
				if oracle.IsReady(p) {
					ready++
				}
				if p.Annotations[oracle.AnnTemplateHash] == rs.Spec.TemplateGeneration {
					live++
				}
			}
			s := e.Status
			if int(s.Desired) != eligible || int(s.Current) != pods || int(s.Ready) != ready || int(s.Available) != ready || int(s.UpToDate) != live {
				viol = append(viol, mon.V{Property: "C14", Monitor: "quiescent-status", Sig: "C14/quiescent-status/event-driven/eds" + sigSuffix, Detail: fmt.Sprintf("%s, %s after the last change: EDS status desired=%d current=%d ready=%d available=%d upToDate=%d; cluster has %d eligible nodes, %d daemon pods, %d Ready, %d of the live template (%s)", when, w.C.Now().Sub(q.LastChange), s.Desired, s.Current, s.Ready, s.Available, s.UpToDate, eligible, pods, ready, live, desc)})
				return
			}
			r := rs.Status
			if int(r.Desired) != eligible || int(r.Current) != pods || int(r.Ready) != ready || int(r.Available) != ready {
				viol = append(viol, mon.V{Property: "C14", Monitor: "quiescent-status", Sig: "C14/quiescent-status/event-driven/replica-set" + sigSuffix, Detail: fmt.Sprintf("%s, %s after the last change: replica set %s status desired=%d current=%d ready=%d available=%d; cluster has %d eligible nodes, %d daemon pods, %d Ready (%s)", when, w.C.Now().Sub(q.LastChange), rs.Name, r.Desired, r.Current, r.Ready, r.Available, eligible, pods, ready, desc)})
			}
		}
		if !settleQ() && !stop() {
			rt.Fatalf("harness: the first roll-out did not settle (%s)\n%s", desc, strings.Join(tail(w.C.Trace, 60), "\n"))
		}
		counters("after the first roll-out")
		inWindow := false
		for di, d := range ds {
			if stop() {
				break
			}
			// place the disturbance relative to the next sync time of the active replica set
			e := w.C.EDS(k.Namespace, k.Name)
			rs := w.C.ERS(k.Namespace, e.Status.ActiveReplicaSet)
			if rs == nil {
				break
			}
			if lf := oracle.RSCond(&rs.Status, edsv1.ConditionTypeLastFullSync); lf != nil {
				target := lf.LastUpdateTime.Add(freq).Add(d.Delta)
				for !target.After(w.C.Now()) {
					target = target.Add(freq)
				}
				q.runUntil(target, 4000, stop)
				// the sync time moves with every sync: re-aim once at the condition as it is now
				if rs2 := w.C.ERS(k.Namespace, rs.Name); rs2 != nil {
					if lf2 := oracle.RSCond(&rs2.Status, edsv1.ConditionTypeLastFullSync); lf2 != nil {
						t2 := lf2.LastUpdateTime.Add(freq).Add(d.Delta)
						if t2.After(w.C.Now()) {
							q.runUntil(t2, 4000, stop)
						}
						if rem := lf2.LastUpdateTime.Add(freq).Sub(w.C.Now()); rem > 0 && rem < 500*time.Millisecond {
							inWindow = true
						}
					}
				}
			}
			if stop() {
				break
			}
			var victim *corev1.Pod
			for _, p := range w.C.Pods() {
				if p.DeletionTimestamp == nil && oracle.IsReady(p) {
					victim = p
					break
				}
			}
			q.env(func() {
				w.C.Tracef("-- disturbance %d: %s", di+1, d.Kind)
				switch {
				case d.Kind == "node-added":
					w.C.AddNode(fmt.Sprintf("n%d", len(w.C.Nodes())+1), map[string]string{"zone": "a", "tier": "a"}, nil)
				case victim == nil:
				case d.Kind == "pod-unready-for-good":
					w.C.Break(victim.Namespace, victim.Name)
				case d.Kind == "pod-unready":
					w.C.Unready(victim.Namespace, victim.Name)
				case d.Kind == "pod-deleted":
					w.C.UserDeletePod(victim.Namespace, victim.Name)
				case d.Kind == "pod-restart":
					w.C.Restart(victim.Namespace, victim.Name, 0, "Error")
				}
			})
			q.LastChange = w.C.Now() // a node is not watched: its arrival counts as a change all the same
			if !settleQ() && !stop() {
				rt.Fatalf("harness: the system did not settle after disturbance %d (%s)\n%s", di+1, desc, strings.Join(tail(w.C.Trace, 60), "\n"))
			}
			counters(fmt.Sprintf("after disturbance %d (%s)", di+1, d.Kind))
		}
		rec.Case(inWindow, evid.FP(desc), fmt.Sprintf("frequency=%s", freq), fmt.Sprintf("in-window=%v", inWindow))
		rec.Steps(q.Steps)
		if inWindow && rec.WantSample() {
			rec.Sample(desc)
		}
		settle(rt, rec, viol, map[string]interface{}{"config": desc, "trace": tail(w.C.Trace, 200)}, len(w.C.Trace), "config: "+desc+"\n--- trace (tail) ---\n"+strings.Join(tail(w.C.Trace, 80), "\n"))
	}
}

// TestC14KnownSubSecond is the deterministic reproducer of the recorded finding "with a reconcileFrequency below one
// second the periodic full sync stops" (KNOWN_FINDINGS.txt): one node, reconcileFrequency 500ms, a second node added
// once the first roll-out has settled. Stored timestamps have one-second resolution, so a full sync that runs within
// the second of the previous one rewrites the same status: no watch event, no requeue request, and since nodes are
// not watched nothing wakes the replica-set controller for the new node.
func TestC14KnownSubSecond(t *testing.T) {
	rec := evid.New("TestC14KnownSubSecond", "C14", "fixed reproducer of the recorded sub-second-frequency finding: 1 node, reconcileFrequency 500ms (the repository's own e2e tests use 100ms), event-driven scheduling, a node added after the first roll-out")
	failed := false
	ff := &firstFail{t: t, failed: &failed}
	c14Queue(rec, ff, 1, 500*time.Millisecond, 0, []c14Dist{{Kind: "node-added", Delta: -50 * time.Millisecond}}, "/sub-second-frequency")
	if !failed {
		rec.Done()
	}
}

func tail(s []string, n int) []string {
	if len(s) <= n {
		return s
	}
	return s[len(s)-n:]
}

// TestC02Queue: C02 under event-driven scheduling. Nothing reconciles unless a watch event or a requeue request asks
// for it (workQueue); the premises of the statement are kept (API calls succeed, the kubelet makes pods Ready). After
// a generated history of template changes, node churn and pod losses, with or without a canary, the system must reach
// the fixpoint of C02 within a generous bound of virtual time - by its own means: a controller that forgets to ask
// for the next step, or whose progress depends on a loop nobody runs, stays short of it.
func TestC02Queue(t *testing.T) {
	rec := evid.New("TestC02Queue", "C02", "event-driven scheduling (see TestC14Queue): 2-4 nodes, reconcileFrequency in {1s, 2s, 10s}, maxUnavailable 1 or 100%, no canary / auto canary (duration 1m) / manual canary validated by the user at the end; 2-6 actions from {template change (A, B, C), node added, node removed, node tainted (not tolerated), pod deleted by the user, pod not Ready until the kubelet heals it, newest pod evicted (phase Failed)} with 0-30s of event-driven running in between; then the system runs until the C02 fixpoint holds (one Ready pod of the live template per eligible node, nothing else, active set = spec.template, no canary left) or 90s + 40 x reconcileFrequency of virtual time have passed since the last change; monitors create-eligible, create-once, promotion-rule, status-function after every reconcile; non-trivial = at least one template change and one node or pod disturbance; distinct by configuration")
	t.Cleanup(func() {
		if !t.Failed() {
			rec.Done()
		}
	})
	rapid.Check(t, func(rt *rapid.T) { c02Queue(rec, rt, "C02") })
}

// c02Queue plays one event-driven history. For C11 one write of a controller after the first roll-out is refused
// (generic error or the typed error of its verb) or stored and answered with an error; the fixpoint must be reached
// all the same (recovery by the controllers' own retries and requeues).
func c02Queue(rec *evid.Rec, rt *rapid.T, prop string) {
	{
		nodes := rapid.IntRange(2, 4).Draw(rt, "nodes")
		freq := rapid.SampledFrom([]time.Duration{time.Second, 2 * time.Second, 10 * time.Second}).Draw(rt, "reconcileFrequency")
		maxU := rapid.SampledFrom([]string{"1", "100%"}).Draw(rt, "maxUnavailable")
		canary := rapid.SampledFrom([]string{"none", "auto", "manual"}).Draw(rt, "canary")
		na := rapid.IntRange(2, 6).Draw(rt, "actions")
		type act struct {
			Kind string
			Run  time.Duration
		}
		var acts []act
		for i := 0; i < na; i++ {
			acts = append(acts, act{
				Kind: rapid.SampledFrom([]string{"template-B", "template-C", "template-A", "node-added", "node-removed", "node-tainted", "pod-deleted", "pod-unready", "pod-evicted"}).Draw(rt, fmt.Sprintf("a%d-kind", i)),
				Run:  rapid.SampledFrom([]time.Duration{0, 300 * time.Millisecond, 1200 * time.Millisecond, 5 * time.Second, 30 * time.Second}).Draw(rt, fmt.Sprintf("a%d-run", i)),
			})
		}
		desc := fmt.Sprintf("nodes=%d reconcileFrequency=%s maxUnavailable=%s canary=%s actions=%v", nodes, freq, maxU, canary, acts)
		faultAt, faultKind := -1, sim.FaultNone
		if prop == "C11" {
			faultAt = rapid.IntRange(0, 40).Draw(rt, "faultedWrite")
			faultKind = rapid.SampledFrom([]sim.FaultKind{sim.FaultReject, sim.FaultRejectTyped, sim.FaultRejectTyped, sim.FaultLostAnswer, sim.FaultLostAnswerTyped}).Draw(rt, "faultKind")
			desc += fmt.Sprintf(" fault=%s on controller write #%d after the first roll-out", faultKind, faultAt)
		}
		var viol []mon.V
		w := &World{rec: rec, cfg: WorldCfg{Monitors: mon.Of("create-eligible", "create-once", "promotion-rule", "status-function", "no-panic"), Property: prop}, H: mon.NewHistory(), RSSeen: map[string]bool{}, RolesSynced: map[string]bool{}, Facts: map[string]int{}, lastSyncAt: map[string]time.Time{}, Det: true}
		w.OnViolation = func(vs []mon.V) { viol = append(viol, vs...) }
		w.C = sim.New(sim.Options{})
		for i := 0; i < nodes; i++ {
			w.C.AddNode(fmt.Sprintf("n%d", i+1), map[string]string{"zone": "a", "tier": "a"}, nil)
		}
		st := edsv1.ExtendedDaemonSetSpecStrategy{ReconcileFrequency: &metav1.Duration{Duration: freq}}
		st.RollingUpdate.MaxUnavailable = gen.ParseIntOrPercent(maxU)
		st.RollingUpdate.SlowStartAdditiveIncrease = gen.ParseIntOrPercent("10")
		switch canary {
		case "auto":
			st.Canary = &edsv1.ExtendedDaemonSetSpecStrategyCanary{Replicas: gen.ParseIntOrPercent("1"), ValidationMode: edsv1.ExtendedDaemonSetSpecStrategyCanaryValidationModeAuto, Duration: &metav1.Duration{Duration: time.Minute}, NoRestartsDuration: &metav1.Duration{}}
		case "manual":
			st.Canary = &edsv1.ExtendedDaemonSetSpecStrategyCanary{Replicas: gen.ParseIntOrPercent("1"), ValidationMode: edsv1.ExtendedDaemonSetSpecStrategyCanaryValidationModeManual}
		}
		k := sim.KeyOf("ns1", "foo")
		w.EDS = append(w.EDS, k)
		q := newWorkQueue(w)
		stop := func() bool { return len(viol) > 0 }
		q.env(func() {
			w.C.Add(&edsv1.ExtendedDaemonSet{ObjectMeta: metav1.ObjectMeta{Namespace: "ns1", Name: "foo"}, Spec: edsv1.ExtendedDaemonSetSpec{Template: gen.LetterTemplate('A'), Strategy: st}})
		})
		q.LastChange = w.C.Now()
		bound := 90*time.Second + 40*freq
		// the user validates a manual canary as soon as its replica set exists (an annotation write: an EDS event)
		validate := func() {
			e := w.C.EDS(k.Namespace, k.Name)
			if e == nil || canary != "manual" {
				return
			}
			for _, rs := range w.rsOf(k) {
				if oracle.RSMatchesTemplate(rs, &e.Spec.Template) && rs.Name != e.Status.ActiveReplicaSet && e.Annotations[oracle.AnnCanaryValid] != rs.Name {
					name := rs.Name
					q.env(func() { _ = w.C.SetEDSAnnotation(k.Namespace, k.Name, oracle.AnnCanaryValid, name) })
				}
			}
		}
		converge := func(label string) bool {
			deadline := q.LastChange.Add(bound)
			for !stop() && w.C.Now().Before(deadline) {
				validate()
				if w.fixpointOK() == "" {
					if e := w.C.EDS(k.Namespace, k.Name); e != nil && e.Status.Canary == nil {
						return true
					}
				}
				next := w.C.Now().Add(freq)
				if next.After(deadline) {
					next = deadline
				}
				q.runUntil(next, 4000, stop)
			}
			return stop() || (w.fixpointOK() == "" && w.C.EDS(k.Namespace, k.Name).Status.Canary == nil)
		}
		if !converge("first roll-out") && !stop() {
			viol = append(viol, mon.V{Property: "C02", Monitor: "convergence", Sig: "C02/convergence/event-driven/first-roll-out", Detail: fmt.Sprintf("%s after the ExtendedDaemonSet was created: %s; %s (%s)", bound, w.fixpointOK(), w.describe(), desc)})
		}
		writesSeen, faultHit := 0, ""
		if faultAt >= 0 {
			w.C.Faults = func(call *sim.Call) sim.FaultKind {
				if !call.Write || (call.Actor != sim.ActorEDS && call.Actor != sim.ActorERS) {
					return sim.FaultNone
				}
				writesSeen++
				if writesSeen == faultAt+1 {
					faultHit = call.String()
					w.C.Tracef("FAULT %s on %s", faultKind, call.String())
					return faultKind
				}
				return sim.FaultNone
			}
		}
		edits, churn := 0, 0
		for ai, a := range acts {
			if stop() {
				break
			}
			var victim *corev1.Pod
			for _, p := range w.C.Pods() {
				if p.DeletionTimestamp == nil && oracle.IsReady(p) {
					victim = p
					break
				}
			}
			q.env(func() {
				w.C.Tracef("-- action %d: %s", ai+1, a.Kind)
				switch a.Kind {
				case "template-A", "template-B", "template-C":
					edits++
					w.editTemplate(k, a.Kind[len(a.Kind)-1])
				case "node-added":
					churn++
					w.next++
					w.C.AddNode(fmt.Sprintf("m%d", w.next), map[string]string{"zone": "a", "tier": "a"}, nil)
				case "node-removed":
					if ns := w.C.Nodes(); len(ns) > 2 {
						churn++
						w.C.RemoveNode(ns[len(ns)-1].Name)
					}
				case "node-tainted":
					if ns := w.C.Nodes(); len(ns) > 2 {
						churn++
						w.C.MutateNode(ns[0].Name, func(n *corev1.Node) {
							n.Spec.Taints = []corev1.Taint{{Key: "dedicated", Value: "gpu", Effect: corev1.TaintEffectNoSchedule}}
						})
					}
				case "pod-deleted":
					if victim != nil {
						churn++
						w.C.UserDeletePod(victim.Namespace, victim.Name)
					}
				case "pod-unready":
					if victim != nil {
						churn++
						w.C.Unready(victim.Namespace, victim.Name)
					}
				case "pod-evicted":
					// the newest Ready pod is evicted (phase Failed): the controller replaces it under its failed-pod back-off
					var newest *corev1.Pod
					for _, p := range w.C.Pods() {
						if p.DeletionTimestamp == nil && oracle.IsReady(p) && (newest == nil || p.CreationTimestamp.After(newest.CreationTimestamp.Time)) {
							newest = p
						}
					}
					if newest != nil {
						churn++
						w.C.SetPhase(newest.Namespace, newest.Name, corev1.PodFailed, "Evicted")
					}
				}
			})
			q.LastChange = w.C.Now()
			if a.Run > 0 {
				q.runUntil(w.C.Now().Add(a.Run), 4000, stop)
			}
		}
		if !stop() {
			q.LastChange = w.C.Now()
			if !converge("end") && !stop() {
				sig := "C02/convergence/event-driven/no-fixpoint"
				if prop == "C11" {
					sig = "C11/recovery/event-driven/no-fixpoint"
				}
				viol = append(viol, mon.V{Property: prop, Monitor: "convergence", Sig: sig, Detail: fmt.Sprintf("%s of event-driven running after the last action: %s; fault hit: %q; %s (%s)", bound, w.fixpointOK(), faultHit, w.describe(), desc)})
			}
		}
		nt := edits > 0 && churn > 0
		if prop == "C11" {
			nt = faultHit != ""
		}
		rec.Case(nt, evid.FP(desc), "canary="+canary, fmt.Sprintf("frequency=%s", freq), fmt.Sprintf("fault-hit=%v", faultHit != ""))
		rec.Steps(q.Steps)
		if nt && rec.WantSample() {
			rec.Sample(desc)
		}
		settle(rt, rec, viol, map[string]interface{}{"config": desc, "trace": tail(w.C.Trace, 200)}, len(w.C.Trace), "config: "+desc+"\n--- trace (tail) ---\n"+strings.Join(tail(w.C.Trace, 80), "\n"))
	}
}

// TestC11Queue: the recovery clause of C11 under event-driven scheduling. The histories of TestC02Queue with one
// failing API write of a controller (refused, or stored and answered with an error): nobody re-runs a reconcile unless
// the controller returned an error, asked for a requeue, or an event arrived - a failure that is swallowed (no error,
// no requeue, nothing written) leaves the system short of the failure-free result.
func TestC11Queue(t *testing.T) {
	rec := evid.New("TestC11Queue", "C11", "the event-driven histories of TestC02Queue (2-4 nodes, reconcileFrequency 1s/2s/10s, no / auto / manual canary, 2-6 actions: template changes, node churn, pod losses) with one write call of the EDS or replica-set controller after the first roll-out refused (generic error / the typed error of its verb: Conflict, AlreadyExists, TooManyRequests) or stored-but-answered-with-an-error (generic / ServerTimeout); reconciles run only on watch events, requeue requests and error back-off; oracle: the C02 fixpoint (= the failure-free result) within 90s + 40 x reconcileFrequency of virtual time after the last action, safety monitors create-eligible, create-once, promotion-rule, status-function after every reconcile; non-trivial = the fault hit a call; distinct by configuration")
	t.Cleanup(func() {
		if !t.Failed() {
			rec.Done()
		}
	})
	rapid.Check(t, func(rt *rapid.T) { c02Queue(rec, rt, "C11") })
}

// TestC13Queue: the PodTemplate clause of C13 under event-driven scheduling with the repository's own watch wiring.
// Nobody calls the PodTemplate reconciler by hand: after every edit of the ExtendedDaemonSet (another template, the
// same template with a resource quantity written in another notation - a new text, hence a new hash -, a label, a
// status-only change by the controllers) the PodTemplate must equal spec.template and carry its hash once
// 2 x reconcileFrequency + 2s have passed; and there is one replica set per template text.
func TestC13Queue(t *testing.T) {
	rec := evid.New("TestC13Queue", "C13", "event-driven scheduling with the repository's own watch wiring: 1-3 nodes, reconcileFrequency 1s/2s/10s, template with a memory request; 2-5 edits from {another image, the memory request written in another notation (512Mi <-> 536870912: same quantity, new text and hash), a metadata label on the ExtendedDaemonSet, the previous template again}, each followed by 2 x reconcileFrequency + 2s; oracle: the PodTemplate equals spec.template and carries its hash, exactly one replica set carries the hash of spec.template, rs-identity after every reconcile; non-trivial = a notation-only edit; distinct by configuration")
	t.Cleanup(func() {
		if !t.Failed() {
			rec.Done()
		}
	})
	rapid.Check(t, func(rt *rapid.T) {
		nodes := rapid.IntRange(1, 3).Draw(rt, "nodes")
		freq := rapid.SampledFrom([]time.Duration{time.Second, 2 * time.Second, 10 * time.Second}).Draw(rt, "reconcileFrequency")
		ne := rapid.IntRange(2, 5).Draw(rt, "edits")
		var edits []string
		for i := 0; i < ne; i++ {
			edits = append(edits, rapid.SampledFrom([]string{"image", "notation", "notation", "label", "previous"}).Draw(rt, fmt.Sprintf("e%d", i)))
		}
		desc := fmt.Sprintf("nodes=%d reconcileFrequency=%s edits=%v", nodes, freq, edits)
		var viol []mon.V
		w := &World{rec: rec, cfg: WorldCfg{Monitors: mon.Of("rs-identity", "no-panic"), Property: "C13"}, H: mon.NewHistory(), RSSeen: map[string]bool{}, RolesSynced: map[string]bool{}, Facts: map[string]int{}, lastSyncAt: map[string]time.Time{}, Det: true}
		w.OnViolation = func(vs []mon.V) { viol = append(viol, vs...) }
		w.C = sim.New(sim.Options{})
		for i := 0; i < nodes; i++ {
			w.C.AddNode(fmt.Sprintf("n%d", i+1), map[string]string{"zone": "a", "tier": "a"}, nil)
		}
		st := edsv1.ExtendedDaemonSetSpecStrategy{ReconcileFrequency: &metav1.Duration{Duration: freq}}
		st.RollingUpdate.MaxUnavailable = gen.ParseIntOrPercent("100%")
		st.RollingUpdate.SlowStartAdditiveIncrease = gen.ParseIntOrPercent("10")
		tpl := gen.LetterTemplate('A')
		tpl.Spec.Containers[0].Resources.Requests = corev1.ResourceList{corev1.ResourceMemory: resource.MustParse("512Mi")}
		k := sim.KeyOf("ns1", "foo")
		w.EDS = append(w.EDS, k)
		q := newWorkQueue(w)
		stop := func() bool { return len(viol) > 0 }
		q.env(func() {
			w.C.Add(&edsv1.ExtendedDaemonSet{ObjectMeta: metav1.ObjectMeta{Namespace: "ns1", Name: "foo"}, Spec: edsv1.ExtendedDaemonSetSpec{Template: tpl, Strategy: st}})
		})
		settleD := 2*freq + 2*time.Second
		check := func(when string) {
			if stop() {
				return
			}
			e := w.C.EDS(k.Namespace, k.Name)
			want := oracle.TemplateHash(&e.Spec.Template)
			var pt *corev1.PodTemplate
			for _, x := range w.C.Snapshot().PodTemplates {
				if x.Namespace == k.Namespace && x.Name == k.Name {
					pt = x
				}
			}
			switch {
			case pt == nil:
				viol = append(viol, mon.V{Property: "C13", Monitor: "podtemplate", Sig: "C13/podtemplate/missing/event-driven", Detail: fmt.Sprintf("%s: no PodTemplate %s after %s (%s)", when, settleD, k.Name, desc)})
			case !apiequality.Semantic.DeepEqual(pt.Template, e.Spec.Template) || pt.Annotations[oracle.AnnTemplateHash] != want:
				viol = append(viol, mon.V{Property: "C13", Monitor: "podtemplate", Sig: "C13/podtemplate/differs-from-spec/event-driven", Detail: fmt.Sprintf("%s: %s later the PodTemplate carries hash %s, spec.template hashes to %s (%s)", when, settleD, pt.Annotations[oracle.AnnTemplateHash], want, desc)})
			}
			n := 0
			for _, rs := range w.rsOf(k) {
				if rs.Annotations[oracle.AnnTemplateHash] == want && rs.DeletionTimestamp == nil {
					n++
				}
			}
			if n != 1 && !stop() {
				viol = append(viol, mon.V{Property: "C13", Monitor: "rs-identity", Sig: "C13/rs-identity/replica-sets-for-template/event-driven", Detail: fmt.Sprintf("%s: %d replica sets carry the hash of spec.template (%s)", when, n, desc)})
			}
		}
		q.runUntil(w.C.Now().Add(settleD+3*time.Second), 6000, stop)
		check("after creation")
		image, mem, prev := 'A', "512Mi", tpl
		notation := false
		for i, ed := range edits {
			if stop() {
				break
			}
			cur := w.C.EDS(k.Namespace, k.Name).Spec.Template
			q.env(func() {
				w.C.Tracef("-- edit %d: %s", i+1, ed)
				_ = w.C.EditEDS(k.Namespace, k.Name, func(x *edsv1.ExtendedDaemonSet) {
					switch ed {
					case "image":
						image++
						x.Spec.Template.Spec.Containers[0].Image = "img:" + string(image)
					case "notation":
						notation = true
						mem = map[string]string{"512Mi": "536870912", "536870912": "512Mi"}[mem]
						x.Spec.Template.Spec.Containers[0].Resources.Requests = corev1.ResourceList{corev1.ResourceMemory: resource.MustParse(mem)}
					case "label":
						if x.Labels == nil {
							x.Labels = map[string]string{}
						}
						x.Labels["team"] = fmt.Sprintf("t%d", i)
					case "previous":
						x.Spec.Template = prev
					}
				})
			})
			prev = cur
			q.runUntil(w.C.Now().Add(settleD), 6000, stop)
			check(fmt.Sprintf("after edit %d (%s)", i+1, ed))
		}
		rec.Case(notation, evid.FP(desc), fmt.Sprintf("frequency=%s", freq))
		rec.Steps(q.Steps)
		if notation && rec.WantSample() {
			rec.Sample(desc)
		}
		settle(rt, rec, viol, map[string]interface{}{"config": desc, "trace": tail(w.C.Trace, 200)}, len(w.C.Trace), "config: "+desc+"\n--- trace (tail) ---\n"+strings.Join(tail(w.C.Trace, 80), "\n"))
	})
}
