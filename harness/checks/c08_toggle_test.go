package checks

import (
	"fmt"
	"strings"
	"testing"
	"time"

	metav1 "k8s.io/apimachinery/pkg/apis/meta/v1"

	edsv1 "github.com/DataDog/extendeddaemonset/api/v1alpha1"
	"verifharness/evid"
	"verifharness/gen"
	"verifharness/mon"
	"verifharness/oracle"
	"verifharness/sim"
)

// TestC08Toggles enumerates every sequence of one to three canary pause/unpause operations on a running canary
// (both validation modes), fair rounds in between, then lets the canary duration pass. The monitors state what must
// hold after every reconcile: no canary pod created and no promotion by time while paused (annotation or
// condition), state / reason / conditions following the annotations, resumption on unpause.
func TestC08Toggles(t *testing.T) {
	rec := evid.New("TestC08Toggles", "C08", "complete enumeration of the sequences of 1-3 operations from {pause as kubectl-eds does (paused=true, unpaused=false), unpause (paused=false, unpaused=true), canary-paused=true alone, both annotations removed, template reverted under a frozen rollout and applied again} on a running canary of a 3-node cluster, in auto (duration 5m) and manual validation mode, two fair rounds after each operation, then ten minutes pass; monitors paused-frozen, promotion-rule, status-function, canary-verdict after every reconcile; non-trivial = the sequence pauses again after an unpause; distinct by sequence")
	shard, shards := envInt("VERIF_SHARD", 0), envInt("VERIF_SHARDS", 1)
	ops := []string{"pause", "unpause", "pause-only", "clear", "abort-reapply"}
	var seqs [][]string
	for _, a := range ops {
		seqs = append(seqs, []string{a})
		for _, b := range ops {
			seqs = append(seqs, []string{a, b})
			for _, c := range ops {
				seqs = append(seqs, []string{a, b, c})
			}
		}
	}
	failed := false
	ff := &firstFail{t: t, failed: &failed}
	i := 0
	for _, auto := range []bool{true, false} {
		for _, seq := range seqs {
			i++
			if i%shards != shard {
				continue
			}
			c08Toggle(rec, ff, auto, seq)
		}
	}
	rec.Exhaustive(true)
	if !failed {
		rec.Done()
	}
}

func c08Toggle(rec *evid.Rec, f fataler, auto bool, seq []string) {
	desc := fmt.Sprintf("auto=%v sequence=%s", auto, strings.Join(seq, ","))
	var viol []mon.V
	w := &World{rec: rec, cfg: WorldCfg{Monitors: mon.Of("paused-frozen", "promotion-rule", "status-function", "canary-verdict", "condition-clock", "canary-latch", "no-panic"), Property: "C08"}, H: mon.NewHistory(), RSSeen: map[string]bool{}, RolesSynced: map[string]bool{}, Facts: map[string]int{}, lastSyncAt: map[string]time.Time{}, Det: true}
	w.OnViolation = func(vs []mon.V) { viol = append(viol, vs...) }
	w.C = sim.New(sim.Options{})
	for i := 0; i < 3; i++ {
		w.C.AddNode(fmt.Sprintf("n%d", i+1), map[string]string{"zone": "a", "tier": "a"}, nil)
	}
	pe, fe := true, true
	pm, fm := int32(2), int32(5)
	cn := &edsv1.ExtendedDaemonSetSpecStrategyCanary{Replicas: gen.ParseIntOrPercent("2"),
		AutoPause: &edsv1.ExtendedDaemonSetSpecStrategyCanaryAutoPause{Enabled: &pe, MaxRestarts: &pm}, AutoFail: &edsv1.ExtendedDaemonSetSpecStrategyCanaryAutoFail{Enabled: &fe, MaxRestarts: &fm}}
	if auto {
		cn.ValidationMode = edsv1.ExtendedDaemonSetSpecStrategyCanaryValidationModeAuto
		cn.Duration = &metav1.Duration{Duration: 5 * time.Minute}
		cn.NoRestartsDuration = &metav1.Duration{}
	} else {
		cn.ValidationMode = edsv1.ExtendedDaemonSetSpecStrategyCanaryValidationModeManual
	}
	st := edsv1.ExtendedDaemonSetSpecStrategy{Canary: cn}
	st.RollingUpdate.SlowStartIntervalDuration = &metav1.Duration{Duration: 5 * time.Second}
	st.RollingUpdate.MaxUnavailable = gen.ParseIntOrPercent("2")
	w.C.Add(&edsv1.ExtendedDaemonSet{ObjectMeta: metav1.ObjectMeta{Namespace: "ns1", Name: "foo"}, Spec: edsv1.ExtendedDaemonSetSpec{Template: gen.LetterTemplate('A'), Strategy: st}})
	k := sim.KeyOf("ns1", "foo")
	w.EDS = append(w.EDS, k)
	stop := func() bool { return len(viol) > 0 }
	rounds := func(n int, label string) {
		for i := 0; i < n && !stop(); i++ {
			w.fairRound(label)
		}
	}
	for i := 0; i < 15 && !stop(); i++ {
		e := w.C.EDS(k.Namespace, k.Name)
		if e != nil && e.Status.ActiveReplicaSet != "" && e.Status.Ready == 3 {
			break
		}
		w.fairRound("c08 deploy")
	}
	w.editTemplate(k, 'B')
	// the canary starts on its first node; the operations begin while its second pod may still be missing
	rounds(2, "c08 canary starts")
	for _, op := range seq {
		set := func(key, val string) { _ = w.C.SetEDSAnnotation(k.Namespace, k.Name, key, val) }
		switch op {
		case "pause":
			set(oracle.AnnCanaryPaused, "true")
			set(oracle.AnnCanaryUnpaused, "false")
		case "unpause":
			set(oracle.AnnCanaryPaused, "false")
			set(oracle.AnnCanaryUnpaused, "true")
		case "pause-only":
			set(oracle.AnnCanaryPaused, "true")
			set(oracle.AnnCanaryUnpaused, "-")
		case "clear":
			set(oracle.AnnCanaryPaused, "-")
			set(oracle.AnnCanaryUnpaused, "-")
		case "abort-reapply":
			// the template goes back to the active version while the rollout is frozen (the canary's replica set and
			// pods survive), then the same new template is applied again
			set(oracle.AnnRolloutFrozen, "true")
			w.editTemplate(k, 'A')
			rounds(2, "c08 aborted")
			w.editTemplate(k, 'B')
			set(oracle.AnnRolloutFrozen, "false")
		}
		rounds(2, "c08 after "+op)
	}
	w.C.Advance(10 * time.Minute)
	rounds(3, "c08 duration over")
	rePause := false
	seenUnpause := false
	for _, op := range seq {
		if op == "unpause" {
			seenUnpause = true
		}
		if seenUnpause && (op == "pause" || op == "pause-only") {
			rePause = true
		}
	}
	rec.Case(rePause, evid.FP(desc), fmt.Sprintf("auto=%v", auto))
	rec.Steps(1)
	if rePause && rec.WantSample() {
		rec.Sample(desc)
	}
	settle(f, rec, viol, map[string]interface{}{"config": desc, "trace": w.C.Trace}, len(w.C.Trace), "config: "+desc+"\n--- trace ---\n"+strings.Join(w.C.Trace, "\n"))
}
