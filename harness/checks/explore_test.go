package checks

import (
	"os"
	"strings"
	"testing"

	"pgregory.net/rapid"

	"verifharness/evid"
	"verifharness/gen"
	"verifharness/mon"
)

// TestExplore is a development aid: all monitors (or VERIF_MON=a,b) over general histories.
func TestExplore(t *testing.T) {
	if os.Getenv("VERIF_EXPLORE") == "" {
		t.Skip("development aid")
	}
	on := mon.AllSet()
	if m := os.Getenv("VERIF_MON"); m != "" {
		on = mon.Of(strings.Split(m, ",")...)
	}
	if m := os.Getenv("VERIF_MON_OFF"); m != "" {
		for _, x := range strings.Split(m, ",") {
			delete(on, x)
		}
	}
	rec := evid.New("TestExplore", "DEV", "dev")
	rapid.Check(t, func(rt *rapid.T) {
		w := newWorld(rt, rec, WorldCfg{Property: "DEV", MinNodes: 1, MaxNodes: 6, Letters: envOr("VERIF_LETTERS", "ABCDEFG"), Strategy: gen.StrategyOpts{Canary: 1},
			Monitors: on, Forks: 2, Weights: defaultWeights(), Affinity: 2})
		n := rapid.IntRange(5, 40).Draw(rt, "steps")
		for i := 0; i < n; i++ {
			w.step()
		}
	})
}
