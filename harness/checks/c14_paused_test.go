package checks

import (
	"fmt"
	"strings"
	"testing"
	"time"

	metav1 "k8s.io/apimachinery/pkg/apis/meta/v1"

	edsv1 "github.com/DataDog/extendeddaemonset/api/v1alpha1"
	"verifharness/evid"
	"verifharness/gen"
	"verifharness/mon"
	"verifharness/oracle"
	"verifharness/sim"
)

// TestC14PausedCanary: the quiescent clause of C14 while a canary is paused. The system can be quiescent for as long as
// the user likes with a canary held by `canary-paused`; the counters of the ExtendedDaemonSet must then equal the daemon
// pods that exist, whichever replica set would have to count them. Complete enumeration of cluster size x canary size
// x validation mode x the moment of the pause (written together with the template change, one reconcile later, once
// the canary pods run).
func TestC14PausedCanary(t *testing.T) {
	rec := evid.New("TestC14PausedCanary", "C14", "complete product {2, 3, 4 nodes} x {canary replicas 1, 2} x {manual, auto with duration 30m} x {canary-paused=true written together with the template change, after the next EDS reconcile, after the canary pods run} on a fully rolled out ExtendedDaemonSet; fair rounds until two rounds in a row write no pod; oracle: status.current / ready / available of the ExtendedDaemonSet equal the daemon pods that exist / are Ready, desired equals the eligible nodes, status-function and rs-status-order after every reconcile; non-trivial = the pause came before the canary pods existed; distinct by configuration")
	failed := false
	ff := &firstFail{t: t, failed: &failed}
	for _, nodes := range []int{2, 3, 4} {
		for _, replicas := range []string{"1", "2"} {
			for _, auto := range []bool{false, true} {
				for _, when := range []string{"with-the-template", "one-reconcile-later", "canary-pods-running"} {
					c14Paused(rec, ff, nodes, replicas, auto, when)
				}
			}
		}
	}
	rec.Exhaustive(true)
	if !failed {
		rec.Done()
	}
}

func c14Paused(rec *evid.Rec, f fataler, nodes int, replicas string, auto bool, when string) {
	desc := fmt.Sprintf("nodes=%d canaryReplicas=%s auto=%v pause=%s", nodes, replicas, auto, when)
	var viol []mon.V
	w := &World{rec: rec, cfg: WorldCfg{Monitors: mon.Of("status-function", "rs-status-order", "no-panic"), Property: "C14"}, H: mon.NewHistory(), RSSeen: map[string]bool{}, RolesSynced: map[string]bool{}, Facts: map[string]int{}, lastSyncAt: map[string]time.Time{}, Det: true}
	w.OnViolation = func(vs []mon.V) { viol = append(viol, vs...) }
	w.C = sim.New(sim.Options{})
	for i := 0; i < nodes; i++ {
		w.C.AddNode(fmt.Sprintf("n%d", i+1), map[string]string{"zone": "a", "tier": "a"}, nil)
	}
	cn := &edsv1.ExtendedDaemonSetSpecStrategyCanary{Replicas: gen.ParseIntOrPercent(replicas), ValidationMode: edsv1.ExtendedDaemonSetSpecStrategyCanaryValidationModeManual}
	if auto {
		cn.ValidationMode = edsv1.ExtendedDaemonSetSpecStrategyCanaryValidationModeAuto
		cn.Duration = &metav1.Duration{Duration: 30 * time.Minute}
	}
	st := edsv1.ExtendedDaemonSetSpecStrategy{Canary: cn}
	st.RollingUpdate.MaxUnavailable = gen.ParseIntOrPercent("100%")
	w.C.Add(&edsv1.ExtendedDaemonSet{ObjectMeta: metav1.ObjectMeta{Namespace: "ns1", Name: "foo"}, Spec: edsv1.ExtendedDaemonSetSpec{Template: gen.LetterTemplate('A'), Strategy: st}})
	k := sim.KeyOf("ns1", "foo")
	w.EDS = append(w.EDS, k)
	stop := func() bool { return len(viol) > 0 }
	for i := 0; i < 15 && !stop(); i++ {
		if e := w.C.EDS(k.Namespace, k.Name); e != nil && int(e.Status.Ready) == nodes {
			break
		}
		w.fairRound("c14 deploy")
	}
	pause := func() { _ = w.C.SetEDSAnnotation(k.Namespace, k.Name, oracle.AnnCanaryPaused, "true") }
	w.editTemplate(k, 'B')
	switch when {
	case "with-the-template":
		pause()
	case "one-reconcile-later":
		w.C.Advance(time.Second)
		w.reconcile(sim.ActorEDS, k.Namespace, k.Name)
		pause()
	case "canary-pods-running":
		for i := 0; i < 6 && !stop(); i++ {
			w.fairRound("c14 canary starts")
		}
		pause()
	}
	quiet := 0
	for i := 0; i < 20 && !stop() && quiet < 2; i++ {
		cr, dl := w.fairRound("c14 paused")
		if cr+dl == 0 {
			quiet++
		} else {
			quiet = 0
		}
	}
	if !stop() && quiet >= 2 {
		e := w.C.EDS(k.Namespace, k.Name)
		pods, ready := 0, 0
		for _, p := range w.C.Pods() {
			if p.Namespace == k.Namespace && p.Labels[oracle.LabelEDSName] == k.Name && p.DeletionTimestamp == nil {
				pods++
				if oracle.IsReady(p) {
					ready++
				}
			}
		}
		s := e.Status
		if int(s.Current) != pods || int(s.Ready) != ready || int(s.Available) != ready || int(s.Desired) != nodes {
			viol = append(viol, mon.V{Property: "C14", Monitor: "quiescent-status", Sig: "C14/quiescent-status/paused-canary", Detail: fmt.Sprintf("quiescent with the canary paused (state %q): status desired=%d current=%d ready=%d available=%d; the cluster has %d eligible nodes, %d daemon pods, %d Ready (%s)", s.State, s.Desired, s.Current, s.Ready, s.Available, nodes, pods, ready, desc)})
		}
	}
	nt := when != "canary-pods-running"
	rec.Case(nt, evid.FP(desc), "pause="+when)
	rec.Steps(1)
	if nt && rec.WantSample() {
		rec.Sample(desc)
	}
	settle(f, rec, viol, map[string]interface{}{"config": desc, "trace": w.C.Trace}, len(w.C.Trace), "config: "+desc+"\n--- trace ---\n"+strings.Join(w.C.Trace, "\n"))
}
