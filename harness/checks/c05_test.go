package checks

import (
	"fmt"
	"strings"
	"testing"
	"time"

	corev1 "k8s.io/api/core/v1"
	metav1 "k8s.io/apimachinery/pkg/apis/meta/v1"
	"k8s.io/apimachinery/pkg/util/intstr"
	"pgregory.net/rapid"

	edsv1 "github.com/DataDog/extendeddaemonset/api/v1alpha1"
	"verifharness/evid"
	"verifharness/gen"
	"verifharness/mon"
	"verifharness/oracle"
	"verifharness/sim"
)

// c05Case is one point of the promotion lattice.
type c05Case struct {
	Strategy     int // 0 none, 1 auto, 2 manual, 3 manual with duration / noRestartsDuration left over from auto mode (a strategy edit during the canary; validation rejects it, time must not promote), 4 the same with exactly the values the auto-mode defaulting writes (10m / 5m)
	AgeVsDur     int // 0: 1s before the duration ends, 1: exactly at it, 2: 1s after, 3: long after
	NoRestarts   int // 0 default (unset), 1 zero, 2 one minute
	LastRestart  int // 0 none, 1 well before the limit (long ago), 2 exactly noRestartsDuration ago, 3 recent (inside the window)
	Pause        int // 0 none, 1 annotation, 2 replica-set condition, 3 annotation while the set carries Canary-Paused=False (it was paused and unpaused before: pause, unpause, pause again)
	Unpaused     bool
	Valid        int // 0 absent, 1 names this replica set, 2 names another
	Failed       bool
	ActiveExists bool
	StatusCanary int // status.canary.replicaSet before the reconcile: 0 unset, 1 the matching set, 2 another (stale) name
	// the recorded active set exists but is being deleted (deletionTimestamp set, kept by a finalizer such as
	// foregroundDeletion): it still exists, so the rule - not the adoption shortcut - decides
	ActiveTerminating bool
	// PauseLands: the user's canary-paused=true annotation is written after the reconcile has read the object and
	// right before it writes the status (only drawn when no other pause source is set)
	PauseLands bool
}

func (k c05Case) String() string {
	return fmt.Sprintf("strategy=%d age=%d noRestarts=%d lastRestart=%d pause=%d unpaused=%v valid=%d failed=%v activeExists=%v activeTerminating=%v statusCanary=%d pauseLandsBeforeStatusWrite=%v", k.Strategy, k.AgeVsDur, k.NoRestarts, k.LastRestart, k.Pause, k.Unpaused, k.Valid, k.Failed, k.ActiveExists, k.ActiveTerminating, k.StatusCanary, k.PauseLands)
}

const c05Duration = 2 * time.Minute

// runC05 builds the store for one lattice point, runs one EDS reconcile and judges it.
func runC05(k c05Case) (vs []mon.V, nontrivial bool, err error) {
	c := sim.New(sim.Options{})
	for i := 0; i < 3; i++ {
		c.AddNode(fmt.Sprintf("n%d", i), map[string]string{"zone": "a"}, nil)
	}
	st := edsv1.ExtendedDaemonSetSpecStrategy{}
	noRestarts := 5 * time.Minute // the default filled in by defaulting
	dur := c05Duration
	if k.Strategy != 0 {
		one := intstr.FromInt(1)
		cn := &edsv1.ExtendedDaemonSetSpecStrategyCanary{Replicas: &one}
		if k.Strategy == 1 {
			cn.ValidationMode = edsv1.ExtendedDaemonSetSpecStrategyCanaryValidationModeAuto
			cn.Duration = &metav1.Duration{Duration: c05Duration}
			switch k.NoRestarts {
			case 1:
				cn.NoRestartsDuration = &metav1.Duration{}
				noRestarts = 0
			case 2:
				cn.NoRestartsDuration = &metav1.Duration{Duration: time.Minute}
				noRestarts = time.Minute
			}
		} else {
			cn.ValidationMode = edsv1.ExtendedDaemonSetSpecStrategyCanaryValidationModeManual
		}
		st.Canary = cn
		if k.Strategy == 3 {
			// the canary starts in auto mode; the mode is switched below, once the canary replica set exists
			cn.ValidationMode = edsv1.ExtendedDaemonSetSpecStrategyCanaryValidationModeAuto
			cn.Duration = &metav1.Duration{Duration: c05Duration}
		}
		if k.Strategy == 4 {
			cn.ValidationMode = edsv1.ExtendedDaemonSetSpecStrategyCanaryValidationModeAuto
			cn.Duration = &metav1.Duration{Duration: 10 * time.Minute}
			cn.NoRestartsDuration = &metav1.Duration{Duration: 5 * time.Minute}
			dur = 10 * time.Minute
		}
	}
	// with a strategy the second letter stays a canary; without one we must stop
	// before the reconcile that would promote it, so build by hand in both cases:
	p := prepare(c, "ns1", "foo", st, nil, "A")
	active := p.RS['A']
	if active == "" {
		return nil, false, fmt.Errorf("harness: no replica set for the first template")
	}
	_ = c.EditEDS("ns1", "foo", func(x *edsv1.ExtendedDaemonSet) { x.Spec.Template = letterTpl('B') })
	r := c.Reconcile(sim.ActorEDS, "ns1", "foo") // creates the replica set for B and returns
	if r.Err != nil || r.Panic != nil {
		return nil, false, fmt.Errorf("harness: creating the second replica set: %v %v", r.Err, r.Panic)
	}
	var target string
	for _, rs := range c.AllERS() {
		if rs.Name != active {
			target = rs.Name
		}
	}
	if target == "" {
		return nil, false, fmt.Errorf("harness: second replica set missing")
	}
	if k.Strategy == 3 || k.Strategy == 4 {
		_ = c.EditEDS("ns1", "foo", func(x *edsv1.ExtendedDaemonSet) {
			x.Spec.Strategy.Canary.ValidationMode = edsv1.ExtendedDaemonSetSpecStrategyCanaryValidationModeManual
		})
	}
	created := c.ERS("ns1", target).CreationTimestamp.Time
	var now time.Time
	switch k.AgeVsDur {
	case 0:
		now = created.Add(dur - time.Second)
	case 1:
		now = created.Add(dur)
	case 2:
		now = created.Add(dur + time.Second)
	case 3:
		now = created.Add(dur + 30*time.Minute)
	}
	c.Advance(now.Sub(c.Now()))
	c.MutateERS("ns1", target, func(rs *edsv1.ExtendedDaemonSetReplicaSet) {
		cond := func(t edsv1.ExtendedDaemonSetReplicaSetConditionType, at time.Time, reason string) {
			rs.Status.Conditions = append(rs.Status.Conditions, edsv1.ExtendedDaemonSetReplicaSetCondition{Type: t, Status: corev1.ConditionTrue, LastTransitionTime: metav1.NewTime(at), LastUpdateTime: metav1.NewTime(at), Reason: reason})
		}
		switch k.LastRestart {
		case 1:
			cond(edsv1.ConditionTypePodRestarting, now.Add(-noRestarts-10*time.Minute), "")
		case 2:
			cond(edsv1.ConditionTypePodRestarting, now.Add(-noRestarts), "")
		case 3:
			cond(edsv1.ConditionTypePodRestarting, now.Add(-noRestarts/2-time.Second), "")
		}
		if k.Pause == 2 {
			cond(edsv1.ConditionTypeCanaryPaused, now.Add(-10*time.Second), "CrashLoopBackOff")
		}
		if k.Pause == 3 {
			cond(edsv1.ConditionTypeCanaryPaused, now.Add(-40*time.Second), "")
			rs.Status.Conditions[len(rs.Status.Conditions)-1].Status = corev1.ConditionFalse
		}
		if k.Failed {
			cond(edsv1.ConditionTypeCanaryFailed, now.Add(-10*time.Second), "CrashLoopBackOff")
		}
	})
	_ = c.EditEDS("ns1", "foo", func(x *edsv1.ExtendedDaemonSet) {
		if x.Annotations == nil {
			x.Annotations = map[string]string{}
		}
		if k.Pause == 1 || k.Pause == 3 {
			x.Annotations[oracle.AnnCanaryPaused] = "true"
		}
		if k.Unpaused {
			x.Annotations[oracle.AnnCanaryUnpaused] = "true"
		}
		switch k.Valid {
		case 1:
			x.Annotations[oracle.AnnCanaryValid] = target
		case 2:
			x.Annotations[oracle.AnnCanaryValid] = "foo-someother"
		}
	})
	if k.StatusCanary != 0 && k.Strategy != 0 {
		c.MutateEDS("ns1", "foo", func(x *edsv1.ExtendedDaemonSet) {
			name := target
			if k.StatusCanary == 2 {
				name = "foo-someother" // a previous canary that the template change superseded
			}
			x.Status.Canary = &edsv1.ExtendedDaemonSetStatusCanary{ReplicaSet: name, Nodes: []string{"n0"}}
		})
	}
	if !k.ActiveExists {
		c.DeleteERS("ns1", active)
	} else if k.ActiveTerminating {
		ok := c.MutateERS("ns1", active, func(rs *edsv1.ExtendedDaemonSetReplicaSet) {
			ts := metav1.NewTime(now.Add(-5 * time.Second))
			rs.DeletionTimestamp = &ts
			rs.Finalizers = []string{"foregroundDeletion"}
		})
		if rs := c.ERS("ns1", active); !ok || rs == nil || rs.DeletionTimestamp == nil {
			return nil, false, fmt.Errorf("harness: could not mark the active replica set as terminating")
		}
	}
	landed := false
	if k.PauseLands && k.Pause == 0 && k.Valid != 1 && k.Strategy != 0 {
		c.Faults = func(call *sim.Call) sim.FaultKind {
			if !landed && call.Actor == sim.ActorEDS && call.Kind == "ExtendedDaemonSet" && (call.Verb == "status-update" || call.Verb == "status-patch") {
				landed = true
				_ = c.SetEDSAnnotation("ns1", "foo", oracle.AnnCanaryPaused, "true")
			}
			return sim.FaultNone
		}
	}
	rec := c.Reconcile(sim.ActorEDS, "ns1", "foo")
	c.Faults = nil
	vs = mon.Check(rec, mon.Of("promotion-rule", "no-panic"), nil)
	if landed {
		// the status write was computed from a read that did not contain the pause: it must not go through as it is
		// (the API rejects it with a conflict); after two more reconciles the paused canary must not be active
		for i := 0; i < 2; i++ {
			r2 := c.Reconcile(sim.ActorEDS, "ns1", "foo")
			vs = append(vs, mon.Check(r2, mon.Of("promotion-rule", "no-panic"), nil)...)
		}
		// (once promoted, the controller clears the canary annotations: the annotation itself is no evidence any more)
		if e := c.EDS("ns1", "foo"); e != nil && k.ActiveExists && e.Status.ActiveReplicaSet == target {
			vs = append(vs, mon.V{Property: "C05", Monitor: "promotion-rule", Sig: "C05/promotion-rule/promoted-although/pause-written-before-the-status-write", Detail: fmt.Sprintf("canary-paused=true was written before the reconcile wrote its status, yet status.activeReplicaSet switched to %s by elapsed time", target)})
		}
	}
	// the other direction, where the statement is explicit: a recorded active set that
	// no longer exists => the matching one is adopted directly
	if !k.ActiveExists && rec.Err == nil && rec.Panic == nil {
		if e := c.EDS("ns1", "foo"); e != nil && e.Status.ActiveReplicaSet != target {
			vs = append(vs, mon.V{Property: "C05", Monitor: "promotion-rule", Sig: "C05/promotion-rule/not-adopted-when-active-gone", Detail: fmt.Sprintf("recorded active replica set %s no longer exists but status.activeReplicaSet=%q instead of the matching %s", active, e.Status.ActiveReplicaSet, target)})
		}
	}
	return vs, k.Strategy != 0 && k.ActiveExists, nil
}

func letterTpl(l byte) corev1.PodTemplateSpec {
	return corev1.PodTemplateSpec{ObjectMeta: metav1.ObjectMeta{Labels: map[string]string{"app": "agent"}}, Spec: corev1.PodSpec{Containers: []corev1.Container{{Name: "agent", Image: "img:" + string(l)}}}}
}

func c05Draw(rt *rapid.T) c05Case {
	return c05Case{
		Strategy: rapid.IntRange(0, 4).Draw(rt, "strategy"), AgeVsDur: rapid.IntRange(0, 3).Draw(rt, "age"),
		NoRestarts: rapid.IntRange(0, 2).Draw(rt, "noRestarts"), LastRestart: rapid.IntRange(0, 3).Draw(rt, "lastRestart"),
		Pause: rapid.IntRange(0, 3).Draw(rt, "pause"), Unpaused: rapid.Bool().Draw(rt, "unpaused"), Valid: rapid.IntRange(0, 2).Draw(rt, "valid"),
		Failed: rapid.Bool().Draw(rt, "failed"), ActiveExists: rapid.IntRange(0, 3).Draw(rt, "activeExists") != 0,
		StatusCanary: rapid.IntRange(0, 2).Draw(rt, "statusCanary"), ActiveTerminating: rapid.IntRange(0, 3).Draw(rt, "activeTerminating") == 0,
		PauseLands: rapid.IntRange(0, 3).Draw(rt, "pauseLands") == 0,
	}
}

func c05Report(rec *evid.Rec, k c05Case, vs []mon.V) {
	for _, v := range vs {
		rec.Violation(v.Monitor, v.Sig, v.Detail, map[string]interface{}{"case": k}, 1)
	}
}

// TestC05Lattice samples the promotion lattice (quick) ...
func TestC05Lattice(t *testing.T) {
	rec := evid.New("TestC05Lattice", "C05", "point of the promotion lattice {strategy absent/auto/manual/manual with a duration left over/manual with the default durations left over} x {age vs duration: -1s, 0, +1s, >>} x {noRestartsDuration default/0/1m} x {last restart none/old/at the limit/recent} x {pause none/annotation/condition/annotation on a set that carries Canary-Paused=False from an earlier pause} x unpaused x {canary-valid absent/this/other} x failed x {recorded active set exists / exists but is being deleted (finalizer) / is gone} x {status.canary unset / names the matching set / names a superseded one}, then one EDS reconcile judged by the promotion rule; non-trivial = canary strategy present and the active set exists (the rule, not a shortcut, decides); distinct by lattice point")
	t.Cleanup(func() {
		if !t.Failed() {
			rec.Done()
		}
	})
	rapid.Check(t, func(rt *rapid.T) {
		k := c05Draw(rt)
		vs, nt, err := runC05(k)
		if err != nil {
			rt.Fatalf("%v", err)
		}
		rec.Case(nt, evid.FP(k.String()))
		rec.Steps(1)
		if nt {
			rec.Sample(k)
		}
		if len(vs) > 0 {
			c05Report(rec, k, vs)
			rt.Fatalf("%s\ncase: %s", vs[0], k)
		}
	})
}

// ... and TestC05Exhaustive enumerates it completely (thorough; sharded by the driver).
func TestC05Exhaustive(t *testing.T) {
	rec := evid.New("TestC05Exhaustive", "C05", "complete enumeration of the promotion lattice (89856 points, the recorded active set existing / terminating / gone, incl. the recorded status.canary: unset / the matching set / a stale other name), one EDS reconcile each; non-trivial = canary strategy present and the active set exists")
	shard, shards := envInt("VERIF_SHARD", 0), envInt("VERIF_SHARDS", 1)
	i := 0
	failed := false
	for s := 0; s < 5; s++ {
		for a := 0; a < 4; a++ {
			for nr := 0; nr < 3; nr++ {
				for lr := 0; lr < 4; lr++ {
					for pz := 0; pz < 4; pz++ {
						for _, up := range []bool{false, true} {
							for v := 0; v < 3; v++ {
								for _, f := range []bool{false, true} {
									for ae3 := 0; ae3 < 3; ae3++ {
										ae, term := ae3 != 2, ae3 == 1
										for sc := 0; sc < 3; sc++ {
											if s == 0 && sc != 0 {
												continue
											}
											i++
											if i%shards != shard {
												continue
											}
											k := c05Case{s, a, nr, lr, pz, up, v, f, ae, sc, term, false}
											vs, nt, err := runC05(k)
											if err != nil {
												t.Fatalf("%v", err)
											}
											rec.Case(nt, evid.FP(k.String()))
											rec.Steps(1)
											if nt {
												rec.Sample(k)
											}
											if len(vs) > 0 {
												c05Report(rec, k, vs)
												if !failed {
													t.Errorf("%s\ncase: %s", vs[0], k)
												}
												failed = true
											}
										}
									}
								}
							}
						}
					}
				}
			}
		}
	}
	rec.Exhaustive(true)
	rec.Extra("lattice_points_total", i)
	if !failed {
		rec.Done()
	}
}

// TestC05RestartUnderPodFaults: promotion by elapsed time demands that no canary pod restarted within
// noRestartsDuration - also when the canary replica set's own sync meets failing pod calls. Two canary nodes: the pod
// of one is lost and its re-creation (or the deletion of a stale pod) is refused by the API at every sync, the pod of
// the other restarts after the canary duration has elapsed. The replica set was synced after the restart, so the
// controller knows; the new version must not become active before the restart is noRestartsDuration old.
func TestC05RestartUnderPodFaults(t *testing.T) {
	rec := evid.New("TestC05RestartUnderPodFaults", "C05", "complete product {3, 4 nodes} x {pod creations of the canary set refused: never, with a generic error, with AlreadyExists} x {restart 30s, 2m, 4m before the decisive reconciles} x {replica set or EDS reconciled first}: auto canary (duration 2m, noRestartsDuration 5m) on two nodes, one canary pod lost, duration elapsed, the other canary pod restarts, three rounds of canary-set sync and EDS reconcile; oracle: ground truth - status.activeReplicaSet does not become the canary set while the restart is younger than noRestartsDuration - and the promotion-rule monitor; non-trivial = pod creations fail; distinct by configuration")
	failed := false
	ff := &firstFail{t: t, failed: &failed}
	for _, nodes := range []int{3, 4} {
		for _, fk := range []sim.FaultKind{sim.FaultNone, sim.FaultReject, sim.FaultRejectTyped} {
			for _, ago := range []time.Duration{30 * time.Second, 2 * time.Minute, 4 * time.Minute} {
				for _, rsFirst := range []bool{true, false} {
					desc := fmt.Sprintf("nodes=%d podCreateAnswer=%s restartAgo=%s replicaSetFirst=%v", nodes, fk, ago, rsFirst)
					var viol []mon.V
					w := &World{rec: rec, cfg: WorldCfg{Monitors: mon.Of("promotion-rule", "no-panic"), Property: "C05"}, H: mon.NewHistory(), RSSeen: map[string]bool{}, RolesSynced: map[string]bool{}, Facts: map[string]int{}, lastSyncAt: map[string]time.Time{}, Det: true}
					w.OnViolation = func(vs []mon.V) { viol = append(viol, vs...) }
					w.C = sim.New(sim.Options{})
					for i := 0; i < nodes; i++ {
						w.C.AddNode(fmt.Sprintf("n%d", i+1), map[string]string{"zone": "a", "tier": "a"}, nil)
					}
					off := false
					st := edsv1.ExtendedDaemonSetSpecStrategy{}
					st.RollingUpdate.MaxUnavailable = gen.ParseIntOrPercent("100%")
					st.Canary = &edsv1.ExtendedDaemonSetSpecStrategyCanary{Replicas: gen.ParseIntOrPercent("2"), ValidationMode: edsv1.ExtendedDaemonSetSpecStrategyCanaryValidationModeAuto,
						Duration: &metav1.Duration{Duration: 2 * time.Minute}, NoRestartsDuration: &metav1.Duration{Duration: 5 * time.Minute},
						AutoPause: &edsv1.ExtendedDaemonSetSpecStrategyCanaryAutoPause{Enabled: &off}, AutoFail: &edsv1.ExtendedDaemonSetSpecStrategyCanaryAutoFail{Enabled: &off}}
					w.C.Add(&edsv1.ExtendedDaemonSet{ObjectMeta: metav1.ObjectMeta{Namespace: "ns1", Name: "foo"}, Spec: edsv1.ExtendedDaemonSetSpec{Template: gen.LetterTemplate('A'), Strategy: st}})
					k := sim.KeyOf("ns1", "foo")
					w.EDS = append(w.EDS, k)
					stop := func() bool { return len(viol) > 0 }
					for i := 0; i < 15 && !stop(); i++ {
						if e := w.C.EDS(k.Namespace, k.Name); e != nil && int(e.Status.Ready) == nodes {
							break
						}
						w.fairRound("c05 deploy")
					}
					w.editTemplate(k, 'B')
					crs := ""
					var cpods []*corev1.Pod
					for i := 0; i < 6 && !stop(); i++ {
						w.fairRound("c05 canary starts")
						if e := w.C.EDS(k.Namespace, k.Name); e.Status.Canary != nil {
							crs = e.Status.Canary.ReplicaSet
						}
						cpods = nil
						for _, p := range w.C.Pods() {
							if crs != "" && p.Labels[oracle.LabelRSName] == crs && oracle.IsReady(p) {
								cpods = append(cpods, p)
							}
						}
						if len(cpods) == 2 {
							break
						}
					}
					if len(cpods) != 2 {
						if !stop() {
							ff.Fatalf("harness: the canary did not start on two nodes (%s)", desc)
							return
						}
						settle(ff, rec, viol, map[string]interface{}{"config": desc, "trace": w.C.Trace}, len(w.C.Trace), desc)
						continue
					}
					activeBefore := w.C.EDS(k.Namespace, k.Name).Status.ActiveReplicaSet
					// one canary pod is lost; from now on the API refuses the canary set's pod creations
					w.C.ForceRemovePod(cpods[0].Namespace, cpods[0].Name)
					if fk != sim.FaultNone {
						w.C.Faults = func(call *sim.Call) sim.FaultKind {
							if call.Actor == sim.ActorERS && call.Kind == "Pod" && call.Verb == "create" {
								return fk
							}
							return sim.FaultNone
						}
					}
					// the canary duration elapses (time only: nobody reconciles meanwhile), then the other canary pod restarts
					w.C.Advance(6*time.Minute - ago)
					w.C.Restart(cpods[1].Namespace, cpods[1].Name, 0, "Error")
					restartedAt := w.C.Now()
					w.C.Advance(ago - 25*time.Second)
					synced := false // the canary set has been synced since the restart: the controller had its chance to record it
					edsStep := func() {
						before := w.C.EDS(k.Namespace, k.Name).Status.ActiveReplicaSet
						w.reconcile(sim.ActorEDS, k.Namespace, k.Name)
						if e := w.C.EDS(k.Namespace, k.Name); !stop() && synced && before != crs && e.Status.ActiveReplicaSet == crs && w.C.Now().Sub(restartedAt) < 5*time.Minute {
							viol = append(viol, mon.V{Property: "C05", Monitor: "promotion-rule", Sig: "C05/promotion-rule/promoted-although/restart-inside-noRestartsDuration", Detail: fmt.Sprintf("the canary set %s became active (was %s) %s after a canary pod restarted, noRestartsDuration is 5m; the set had been synced since the restart (%s)", crs, activeBefore, w.C.Now().Sub(restartedAt), desc)})
						}
					}
					for i := 0; i < 3 && !stop(); i++ {
						w.C.Advance(11 * time.Second)
						if !rsFirst {
							edsStep()
						}
						if w.C.EDS(k.Namespace, k.Name).Status.ActiveReplicaSet == crs {
							break // promoted before the replica-set controller could know about the restart: nothing to demand
						}
						w.reconcile(sim.ActorERS, k.Namespace, crs)
						synced = true
						if rsFirst {
							edsStep()
						}
					}
					w.C.Faults = nil
					nt := fk != sim.FaultNone
					rec.Case(nt, evid.FP(desc), fmt.Sprintf("pod-create-answer=%s", fk))
					rec.Steps(1)
					if nt && rec.WantSample() {
						rec.Sample(desc)
					}
					settle(ff, rec, viol, map[string]interface{}{"config": desc, "trace": w.C.Trace}, len(w.C.Trace), "config: "+desc+"\n--- trace ---\n"+strings.Join(w.C.Trace, "\n"))
				}
			}
		}
	}
	rec.Exhaustive(true)
	if !failed {
		rec.Done()
	}
}
