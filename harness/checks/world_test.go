package checks

import (
	"fmt"
	"sort"
	"strings"
	"time"

	appsv1 "k8s.io/api/apps/v1"
	autoscalingv1 "k8s.io/api/autoscaling/v1"
	corev1 "k8s.io/api/core/v1"
	"k8s.io/apimachinery/pkg/api/resource"
	metav1 "k8s.io/apimachinery/pkg/apis/meta/v1"
	"k8s.io/apimachinery/pkg/types"
	"pgregory.net/rapid"

	edsv1 "github.com/DataDog/extendeddaemonset/api/v1alpha1"
	"verifharness/evid"
	"verifharness/gen"
	"verifharness/mon"
	"verifharness/oracle"
	"verifharness/sim"
)

// WorldCfg describes one family of generated histories.
type WorldCfg struct {
	Property   string
	MinNodes   int
	MaxNodes   int
	Letters    string // template alphabet the user edits draw from
	Strategy   gen.StrategyOpts
	Monitors   mon.Set
	Forks      int            // extra executions of each replica-set sync on store forks (map order sampling)
	Weights    map[string]int // action weights (see actions below); missing = 0
	Affinity   int            // 0 nodeName mode, 1 affinity mode, 2 drawn
	TwoEDS     bool           // a second EDS (other namespace, same name) shares the cluster
	Migration  bool           // maybe start from an old DaemonSet with pods
	PlainNodes bool           // nodes without taints and with full labels (every template letter fits somewhere)
	Warmup     int            // up to this many fair rounds before the generated steps (first deployment under way)
	StartEdit  int            // 0 never, 1 maybe, 2 always: after the warm-up edit the template and let the EDS see it
}

// World is one generated history in progress.
type World struct {
	rt   *rapid.T
	rec  *evid.Rec
	cfg  WorldCfg
	C    *sim.Cluster
	H    *mon.History
	EDS  []types.NamespacedName
	next int // node name counter

	// facts for the non-triviality rules
	TemplateEdits  int
	NodeChurn      int
	CanarySyncs    int
	CanaryCreates  int
	RSSeen         map[string]bool
	RolesSynced    map[string]bool
	AnnotFlips     int
	PodFaults      int
	Reconciles     int
	Cmds           int
	LettersSeen    []byte
	Migrated       bool // a migration from the DaemonSet old-ds was declared at the start
	RetryFaulted   bool // reconciles that met a failing API call are retried one second later (as a work queue does)
	retrying       bool
	FaultsInjected int
	Facts          map[string]int
	CloseSyncs     int // replica-set syncs requested less than reconcileFrequency after the previous one
	lastSyncAt     map[string]time.Time
	Det            bool // deterministic fair rounds (no draws)
	detRound       int
	OnViolation    func(vs []mon.V) // if set, violations are handed over instead of failing the rapid case
	// provenance of the user's canary pause annotations (C02): idleSeq counts, per EDS, the successful EDS reconciles
	// that started and ended with no canary in progress (each of them removes the canary annotations); annSetAt is the
	// value of that counter when the user last wrote the annotation
	idleSeq  map[string]int
	annSetAt map[string]int
}

// noCanaryInProgress: a canary strategy is configured, status.canary is unset and the active replica set is the one
// of spec.template.
func noCanaryInProgress(e *edsv1.ExtendedDaemonSet, rs *edsv1.ExtendedDaemonSetReplicaSet) bool {
	return e != nil && rs != nil && e.Spec.Strategy.Canary != nil && e.Status.Canary == nil && rs.DeletionTimestamp == nil && oracle.RSMatchesTemplate(rs, &e.Spec.Template)
}

func newWorld(rt *rapid.T, rec *evid.Rec, cfg WorldCfg) *World {
	aff := cfg.Affinity == 1 || (cfg.Affinity == 2 && rapid.Bool().Draw(rt, "affinityMode"))
	mode := edsv1.ExtendedDaemonSetSpecStrategyCanaryValidationModeAuto
	w := &World{rt: rt, rec: rec, cfg: cfg, H: mon.NewHistory(), RSSeen: map[string]bool{}, RolesSynced: map[string]bool{}, Facts: map[string]int{}, lastSyncAt: map[string]time.Time{}}
	w.C = sim.New(sim.Options{AffinityMode: aff, DefaultValidationMode: mode})
	n := rapid.IntRange(cfg.MinNodes, cfg.MaxNodes).Draw(rt, "nNodes")
	for i := 0; i < n; i++ {
		w.addNode()
	}
	strategy := gen.ConvergentStrategy(rt, cfg.Strategy)
	first := cfg.Letters[rapid.IntRange(0, len(cfg.Letters)-1).Draw(rt, "firstLetter")]
	w.LettersSeen = append(w.LettersSeen, first)
	w.addEDS("ns1", "foo", first, strategy)
	if cfg.TwoEDS {
		other := cfg.Letters[rapid.IntRange(0, len(cfg.Letters)-1).Draw(rt, "firstLetter2")]
		ns, name := "ns2", "foo"
		switch rapid.IntRange(0, 3).Draw(rt, "secondEDS") {
		case 1:
			ns, name = "ns1", "bar"
		case 2:
			// a valid object name that is not a valid label value (longer than 63 characters)
			ns, name = "ns1", "bar-"+strings.Repeat("x", 66)
		case 3:
			ns, name = "ns1", "foo-bar" // the first EDS's name is a prefix
		}
		w.addEDS(ns, name, other, gen.ConvergentStrategy(rt, cfg.Strategy))
	}
	if cfg.Migration && rapid.Bool().Draw(rt, "migration") {
		w.addMigration()
	}
	if cfg.Warmup > 0 {
		n := rapid.IntRange(0, cfg.Warmup).Draw(rt, "warmupRounds")
		for i := 0; i < n; i++ {
			w.fairRound(fmt.Sprintf("warm-up %d", i+1))
		}
		if n > 0 && (cfg.StartEdit == 2 || (cfg.StartEdit == 1 && rapid.Bool().Draw(rt, "startEdit"))) {
			e := w.EDS[0]
			w.editTemplate(e, cfg.Letters[rapid.IntRange(0, len(cfg.Letters)-1).Draw(rt, "startLetter")])
			w.reconcile(sim.ActorEDS, e.Namespace, e.Name)
			w.reconcile(sim.ActorEDS, e.Namespace, e.Name)
		}
	}
	return w
}

func (w *World) addNode() string {
	w.next++
	name := fmt.Sprintf("n%d", w.next)
	var labels map[string]string
	var taints []corev1.Taint
	if w.cfg.PlainNodes {
		labels = map[string]string{"zone": gen.LabelVals[w.next%len(gen.LabelVals)], "tier": "a", "rank": fmt.Sprintf("%d", w.next%10)}
	} else {
		labels = gen.NodeLabels(w.rt, name)
		taints = gen.NodeTaints(w.rt, name)
	}
	w.C.AddNode(name, labels, taints)
	return name
}

// addMigration declares a migration from the DaemonSet "old-ds" for the first EDS: pods owned by it,
// and - to tell them apart - pods with the very same labels owned by another DaemonSet or by nobody.
func (w *World) addMigration() {
	w.Migrated = true
	k := w.EDS[0]
	_ = w.C.SetEDSAnnotation(k.Namespace, k.Name, oracle.AnnOldDaemonset, "old-ds")
	w.C.Add(&appsv1.DaemonSet{ObjectMeta: metav1.ObjectMeta{Namespace: k.Namespace, Name: "old-ds", UID: "old-ds-uid"}, Spec: appsv1.DaemonSetSpec{Selector: &metav1.LabelSelector{MatchLabels: map[string]string{"app": "agent"}}}})
	w.C.Add(&appsv1.DaemonSet{ObjectMeta: metav1.ObjectMeta{Namespace: "ns3", Name: "old-ds", UID: "namesake-uid"}, Spec: appsv1.DaemonSetSpec{Selector: &metav1.LabelSelector{MatchLabels: map[string]string{"app": "agent"}}}})
	ctrl := true
	mk := func(name, node, owner, uid string) {
		p := &corev1.Pod{ObjectMeta: metav1.ObjectMeta{Namespace: k.Namespace, Name: name, Labels: map[string]string{"app": "agent"}},
			Spec: corev1.PodSpec{NodeName: node, Containers: []corev1.Container{{Name: "agent", Image: "old:1"}}}, Status: corev1.PodStatus{Phase: corev1.PodRunning}}
		if owner != "" {
			p.OwnerReferences = []metav1.OwnerReference{{APIVersion: "apps/v1", Kind: "DaemonSet", Name: owner, UID: types.UID(uid), Controller: &ctrl}}
		}
		w.C.Add(p)
		w.C.Start(p.Namespace, p.Name)
	}
	for i, n := range w.C.Nodes() {
		switch rapid.SampledFrom([]string{"owned", "owned", "foreign-ds", "bare", "owned+foreign", "none"}).Draw(w.rt, "migration-"+n.Name) {
		case "owned":
			mk(fmt.Sprintf("m%02d-a-owned", i), n.Name, "old-ds", "old-ds-uid")
		case "foreign-ds":
			mk(fmt.Sprintf("m%02d-z-otherds", i), n.Name, "other-ds", "other-ds-uid")
		case "bare":
			mk(fmt.Sprintf("m%02d-z-bare", i), n.Name, "", "")
		case "owned+foreign":
			mk(fmt.Sprintf("m%02d-a-owned", i), n.Name, "old-ds", "old-ds-uid")
			mk(fmt.Sprintf("m%02d-z-otherds", i), n.Name, "other-ds", "other-ds-uid")
		}
	}
	// the namesake DaemonSet of another namespace has pods of its own (same labels, owner of the same name):
	// the migration exception is limited to the ExtendedDaemonSet's own namespace
	for i, n := range w.C.Nodes() {
		if i > 1 {
			break
		}
		p := &corev1.Pod{ObjectMeta: metav1.ObjectMeta{Namespace: "ns3", Name: fmt.Sprintf("unrelated-namesake-ds-%d", i), Labels: map[string]string{"app": "agent"},
			OwnerReferences: []metav1.OwnerReference{{APIVersion: "apps/v1", Kind: "DaemonSet", Name: "old-ds", UID: "namesake-uid", Controller: &ctrl}}},
			Spec: corev1.PodSpec{NodeName: n.Name, Containers: []corev1.Container{{Name: "agent", Image: "old:1"}}}, Status: corev1.PodStatus{Phase: corev1.PodRunning}}
		w.C.Add(p)
		w.C.Start(p.Namespace, p.Name)
	}
	w.Facts["migration-declared"]++
	w.C.Tracef("migration from DaemonSet old-ds declared (pods m*-owned are its own; m*-otherds / m*-bare carry the same labels but are not)")
}

func (w *World) addEDS(ns, name string, letter byte, strategy edsv1.ExtendedDaemonSetSpecStrategy) {
	e := &edsv1.ExtendedDaemonSet{
		ObjectMeta: metav1.ObjectMeta{Namespace: ns, Name: name},
		Spec:       edsv1.ExtendedDaemonSetSpec{Template: gen.LetterTemplate(letter), Strategy: strategy},
	}
	w.C.Add(e)
	w.C.Tracef("eds create %s/%s template=%c strategy=%s", ns, name, letter, renderStrategy(&strategy))
	w.EDS = append(w.EDS, types.NamespacedName{Namespace: ns, Name: name})
}

func renderStrategy(s *edsv1.ExtendedDaemonSetSpecStrategy) string {
	var b strings.Builder
	ru := s.RollingUpdate
	if ru.MaxUnavailable != nil {
		fmt.Fprintf(&b, "maxUnavailable=%s ", ru.MaxUnavailable.String())
	}
	if ru.MaxPodSchedulerFailure != nil {
		fmt.Fprintf(&b, "maxPodSchedulerFailure=%s ", ru.MaxPodSchedulerFailure.String())
	}
	if ru.SlowStartAdditiveIncrease != nil {
		fmt.Fprintf(&b, "increase=%s ", ru.SlowStartAdditiveIncrease.String())
	}
	if ru.SlowStartIntervalDuration != nil {
		fmt.Fprintf(&b, "interval=%s ", ru.SlowStartIntervalDuration.Duration)
	}
	if ru.MaxParallelPodCreation != nil {
		fmt.Fprintf(&b, "maxParallel=%d ", *ru.MaxParallelPodCreation)
	}
	if s.ReconcileFrequency != nil {
		fmt.Fprintf(&b, "freq=%s ", s.ReconcileFrequency.Duration)
	}
	if c := s.Canary; c != nil {
		fmt.Fprintf(&b, "canary{replicas=%s mode=%s", c.Replicas.String(), c.ValidationMode)
		if c.Duration != nil {
			fmt.Fprintf(&b, " duration=%s", c.Duration.Duration)
		}
		if c.NoRestartsDuration != nil {
			fmt.Fprintf(&b, " noRestarts=%s", c.NoRestartsDuration.Duration)
		}
		if c.AutoPause != nil && c.AutoPause.Enabled != nil {
			fmt.Fprintf(&b, " autoPause=%v/%d", *c.AutoPause.Enabled, *c.AutoPause.MaxRestarts)
			if c.AutoPause.MaxSlowStartDuration != nil {
				fmt.Fprintf(&b, "/slow=%s", c.AutoPause.MaxSlowStartDuration.Duration)
			}
		}
		if c.AutoFail != nil && c.AutoFail.Enabled != nil {
			fmt.Fprintf(&b, " autoFail=%v/%d", *c.AutoFail.Enabled, *c.AutoFail.MaxRestarts)
			if c.AutoFail.MaxRestartsDuration != nil {
				fmt.Fprintf(&b, "/span=%s", c.AutoFail.MaxRestartsDuration.Duration)
			}
			if c.AutoFail.CanaryTimeout != nil {
				fmt.Fprintf(&b, "/timeout=%s", c.AutoFail.CanaryTimeout.Duration)
			}
		}
		b.WriteString("}")
	}
	return strings.TrimSpace(b.String())
}

// fail records the violations and stops the case unless all of them are listed known findings.
func (w *World) fail(vs []mon.V) {
	if w.OnViolation != nil {
		w.OnViolation(vs)
		return
	}
	settle(w.rt, w.rec, vs, map[string]interface{}{"trace": append([]string(nil), w.C.Trace...)}, len(w.C.Trace), "--- trace ---\n"+strings.Join(w.C.Trace, "\n"))
}

// check runs the monitors over one record.
func (w *World) check(r *sim.Record, h *mon.History) {
	w.rec.Steps(1)
	for _, f := range mon.Facts(r) {
		w.Facts[f]++
	}
	if vs := mon.Check(r, w.cfg.Monitors, h); len(vs) > 0 {
		w.C.Tracef("MONITOR %s", vs[0].Sig)
		w.fail(vs)
	}
}

func (w *World) reconcile(actor, ns, name string) *sim.Record {
	w.Reconciles++
	if actor == sim.ActorERS {
		if rs := w.C.ERS(ns, name); rs != nil {
			if e := w.C.EDS(ns, oracle.OwnerEDSName(rs)); e != nil {
				role := oracle.RoleOf(e, rs.Name)
				w.RolesSynced[string(role)] = true
				w.RSSeen[ns+"/"+name] = true
				if role == oracle.RoleCanary {
					w.CanarySyncs++
				}
			}
		}
		for i := 0; i < w.cfg.Forks; i++ {
			f := w.C.Fork()
			fr := f.Reconcile(actor, ns, name)
			if vs := mon.Check(fr, w.cfg.Monitors, w.H.Fork()); len(vs) > 0 {
				w.C.Tracef("(on a fork of the store, map order %d) reconcile %s %s/%s", i, actor, ns, name)
				w.C.Tracef("MONITOR %s", vs[0].Sig)
				w.fail(vs)
			}
		}
	}
	if actor == sim.ActorERS {
		key := ns + "/" + name
		if e := w.C.EDS(ns, "foo"); e != nil && e.Spec.Strategy.ReconcileFrequency != nil {
			if last, ok := w.lastSyncAt[key]; ok && w.C.Now().Sub(last) < e.Spec.Strategy.ReconcileFrequency.Duration {
				w.CloseSyncs++
			}
		}
		w.lastSyncAt[key] = w.C.Now()
	}
	r := w.C.Reconcile(actor, ns, name)
	if actor == sim.ActorERS && r.Pre != nil {
		if rs := r.Pre.RSByKey(ns, name); rs != nil {
			if e := r.Pre.EDSByKey(ns, oracle.OwnerEDSName(rs)); e != nil && e.Status.Canary != nil {
				for _, c := range r.Calls {
					if c.Verb == "create" && c.Kind == "Pod" {
						w.CanaryCreates++
					}
				}
			}
		}
	}
	if actor == sim.ActorEDS && r.Err == nil && r.Pre != nil && r.Post != nil {
		clean := true
		for _, c := range r.Calls {
			if c.Fault != sim.FaultNone || c.Err != "" {
				clean = false
			}
		}
		pre, post := r.Pre.EDSByKey(ns, name), r.Post.EDSByKey(ns, name)
		if clean && pre != nil && post != nil && noCanaryInProgress(pre, r.Pre.RSByKey(ns, pre.Status.ActiveReplicaSet)) && noCanaryInProgress(post, r.Post.RSByKey(ns, post.Status.ActiveReplicaSet)) {
			if w.idleSeq == nil {
				w.idleSeq = map[string]int{}
			}
			w.idleSeq[ns+"/"+name]++
		}
	}
	w.check(r, w.H)
	if w.RetryFaulted && !w.retrying {
		// a reconcile that met a failing call is retried at once by the work queue (well inside reconcileFrequency)
		faulted := r.Err != nil
		for _, c := range r.Calls {
			if c.Fault != sim.FaultNone {
				faulted = true
			}
		}
		if faulted {
			w.retrying = true
			w.C.Advance(time.Second)
			w.C.Tracef("(retry of the reconcile that met a failure)")
			w.reconcile(actor, ns, name)
			w.retrying = false
		}
	}
	return r
}

func (w *World) rsOf(e types.NamespacedName) []*edsv1.ExtendedDaemonSetReplicaSet {
	var out []*edsv1.ExtendedDaemonSetReplicaSet
	for _, rs := range w.C.AllERS() {
		if rs.Namespace == e.Namespace && oracle.OwnerEDSName(rs) == e.Name {
			out = append(out, rs)
		}
	}
	return out
}

// fairRound: time passes beyond reconcileFrequency, every object is reconciled
// once in a generated order, the kubelet makes progress.
func (w *World) fairRound(label string) (creates, deletes int) {
	w.C.Tracef("-- fair round %s", label)
	w.C.Advance(11 * time.Second)
	type job struct{ actor, ns, name string }
	var jobs []job
	for _, e := range w.EDS {
		jobs = append(jobs, job{sim.ActorEDS, e.Namespace, e.Name}, job{sim.ActorPodTemplate, e.Namespace, e.Name})
		for _, rs := range w.rsOf(e) {
			jobs = append(jobs, job{sim.ActorERS, rs.Namespace, rs.Name})
		}
	}
	for _, s := range w.C.AllSettings() {
		jobs = append(jobs, job{sim.ActorSetting, s.Namespace, s.Name})
	}
	perm := jobs
	if w.Det {
		// deterministic mode (replayable scripts): rotate the sorted job list by the round number
		w.detRound++
		if len(jobs) > 0 {
			k := w.detRound % len(jobs)
			perm = append(append([]job{}, jobs[k:]...), jobs[:k]...)
		}
	} else {
		perm = rapid.Permutation(jobs).Draw(w.rt, "roundOrder")
	}
	for _, j := range perm {
		r := w.reconcile(j.actor, j.ns, j.name)
		for _, c := range r.Calls {
			if c.Kind == "Pod" && c.Verb == "create" {
				creates++
			}
			if c.Kind == "Pod" && c.Verb == "delete" {
				deletes++
			}
		}
	}
	// replica sets created during the round get their first sync in the next one
	w.C.KubeletProgress()
	return creates, deletes
}

func (w *World) pickEDS() types.NamespacedName {
	if len(w.EDS) == 1 {
		return w.EDS[0]
	}
	return w.EDS[rapid.IntRange(0, len(w.EDS)-1).Draw(w.rt, "eds")]
}

func (w *World) pickPod() *corev1.Pod {
	pods := w.C.Pods()
	if len(pods) == 0 {
		return nil
	}
	return pods[rapid.IntRange(0, len(pods)-1).Draw(w.rt, "pod")]
}

func (w *World) pickNode() *corev1.Node {
	nodes := w.C.Nodes()
	if len(nodes) == 0 {
		return nil
	}
	return nodes[rapid.IntRange(0, len(nodes)-1).Draw(w.rt, "node")]
}

var advanceSteps = []time.Duration{100 * time.Millisecond, 300 * time.Millisecond, 700 * time.Millisecond, time.Second, 4 * time.Second, 11 * time.Second, 31 * time.Second, 61 * time.Second, 3 * time.Minute, 11 * time.Minute}

var waitingReasons = []string{"ContainerCreating", "ErrImagePull", "ImagePullBackOff", "CreateContainerConfigError", "CrashLoopBackOff", "PodInitializing"}

var annotationKeys = []string{oracle.AnnRollingPaused, oracle.AnnRolloutFrozen, oracle.AnnCanaryPaused, oracle.AnnCanaryUnpaused}

// step draws and executes one action.
func (w *World) step() {
	var kinds []string
	for k, n := range w.cfg.Weights {
		for i := 0; i < n; i++ {
			kinds = append(kinds, k)
		}
	}
	sort.Strings(kinds)
	kind := rapid.SampledFrom(kinds).Draw(w.rt, "action")
	w.do(kind)
}

func (w *World) do(kind string) {
	switch kind {
	case "rec-eds":
		e := w.pickEDS()
		w.reconcile(sim.ActorEDS, e.Namespace, e.Name)
	case "rec-ers":
		all := w.C.AllERS()
		if len(all) == 0 {
			return
		}
		rs := all[rapid.IntRange(0, len(all)-1).Draw(w.rt, "rs")]
		w.reconcile(sim.ActorERS, rs.Namespace, rs.Name)
	case "rec-pt":
		e := w.pickEDS()
		w.reconcile(sim.ActorPodTemplate, e.Namespace, e.Name)
	case "round":
		w.fairRound("")
	case "advance":
		w.C.Advance(rapid.SampledFrom(advanceSteps).Draw(w.rt, "dt"))
	case "kubelet":
		w.C.Tracef("kubelet progress")
		w.C.KubeletProgress()
	case "pod-start":
		if p := w.pickPod(); p != nil {
			if p.Spec.NodeName == "" && sim.PinnedNode(p) != "" && w.C.Node(sim.PinnedNode(p)) != nil {
				w.C.Bind(p.Namespace, p.Name)
			}
			w.C.Start(p.Namespace, p.Name)
		}
	case "pod-unready":
		if p := w.pickPod(); p != nil {
			w.PodFaults++
			w.C.Unready(p.Namespace, p.Name)
		}
	case "pod-restart":
		if p := w.pickPod(); p != nil {
			w.PodFaults++
			w.C.Restart(p.Namespace, p.Name, rapid.IntRange(0, 1).Draw(w.rt, "container"), rapid.SampledFrom([]string{"Error", "OOMKilled", ""}).Draw(w.rt, "reason"))
		}
	case "pod-waiting":
		if p := w.pickPod(); p != nil {
			w.PodFaults++
			if p.Spec.NodeName == "" && sim.PinnedNode(p) != "" && w.C.Node(sim.PinnedNode(p)) != nil {
				w.C.Bind(p.Namespace, p.Name)
			}
			w.C.Waiting(p.Namespace, p.Name, 0, rapid.SampledFrom(waitingReasons).Draw(w.rt, "reason"))
		}
	case "pod-failed":
		if p := w.pickPod(); p != nil {
			w.PodFaults++
			w.C.SetPhase(p.Namespace, p.Name, corev1.PodFailed, rapid.SampledFrom([]string{"Evicted", "Error"}).Draw(w.rt, "reason"))
		}
	case "pod-unknown":
		if p := w.pickPod(); p != nil {
			w.PodFaults++
			w.C.SetPhase(p.Namespace, p.Name, corev1.PodUnknown, "NodeLost")
		}
	case "pod-finalize":
		if p := w.pickPod(); p != nil {
			w.C.Finalize(p.Namespace, p.Name)
		}
	case "pod-unschedulable":
		if p := w.pickPod(); p != nil {
			w.C.MarkUnschedulable(p.Namespace, p.Name)
		}
	case "pod-dup":
		// a second pod for a node, as a lagging cache or a racing controller instance would leave behind
		if p := w.pickPod(); p != nil && p.Labels[oracle.LabelEDSName] != "" {
			q := p.DeepCopy()
			q.Name = fmt.Sprintf("%s-dup%d", p.Labels[oracle.LabelRSName], len(w.C.Trace))
			q.UID, q.ResourceVersion, q.DeletionTimestamp, q.DeletionGracePeriodSeconds, q.Finalizers = "", "", nil, nil, nil
			q.CreationTimestamp = metav1.NewTime(w.C.Now().Add(-time.Duration(rapid.IntRange(0, 2).Draw(w.rt, "dupAge")) * time.Hour).Truncate(time.Second))
			if node := oracle.NodeOf(p); node != "" && rapid.Bool().Draw(w.rt, "dupUnscheduled") {
				q.Spec.NodeName = ""
				q.Spec.Affinity = &corev1.Affinity{NodeAffinity: &corev1.NodeAffinity{RequiredDuringSchedulingIgnoredDuringExecution: &corev1.NodeSelector{NodeSelectorTerms: []corev1.NodeSelectorTerm{{MatchFields: []corev1.NodeSelectorRequirement{{Key: "metadata.name", Operator: corev1.NodeSelectorOpIn, Values: []string{node}}}}}}}}
				q.Status = corev1.PodStatus{Phase: corev1.PodPending}
			}
			w.PodFaults++
			w.C.Tracef("pod duplicate %s of %s (node %s, created %s, scheduled=%v)", q.Name, p.Name, oracle.NodeOf(q), q.CreationTimestamp.Format("15:04:05"), q.Spec.NodeName != "")
			w.C.Add(q)
		}
	case "pod-userdelete":
		if p := w.pickPod(); p != nil {
			w.C.UserDeletePod(p.Namespace, p.Name)
		}
	case "edit-template":
		e := w.pickEDS()
		l := w.cfg.Letters[rapid.IntRange(0, len(w.cfg.Letters)-1).Draw(w.rt, "letter")]
		w.editTemplate(e, l)
	case "edit-strategy":
		// the user changes the numbers of the strategy in place (no template change): the canary size or the
		// rolling-update budget; selected canary nodes, counters and conditions survive the edit
		e := w.pickEDS()
		cur := w.C.EDS(e.Namespace, e.Name)
		if cur == nil {
			return
		}
		if cur.Spec.Strategy.Canary != nil && rapid.IntRange(0, 3).Draw(w.rt, "editWhat") > 0 {
			pool := []string{"1", "2", "3", "30%", "50%"}
			if w.cfg.Strategy.NoPercentRepl {
				pool = []string{"1", "2", "3"}
			}
			v := gen.IntOrPercent(w.rt, "newCanaryReplicas", pool)
			w.C.Tracef("eds %s/%s canary.replicas := %s", e.Namespace, e.Name, v.String())
			_ = w.C.EditEDS(e.Namespace, e.Name, func(x *edsv1.ExtendedDaemonSet) { x.Spec.Strategy.Canary.Replicas = v })
		} else {
			v := gen.IntOrPercent(w.rt, "newMaxUnavailable", []string{"1", "2", "3", "30%", "50%", "100%"})
			w.C.Tracef("eds %s/%s maxUnavailable := %s", e.Namespace, e.Name, v.String())
			_ = w.C.EditEDS(e.Namespace, e.Name, func(x *edsv1.ExtendedDaemonSet) { x.Spec.Strategy.RollingUpdate.MaxUnavailable = v })
		}
		w.Facts["strategy-edit"]++
	case "annotation":
		e := w.pickEDS()
		key := rapid.SampledFrom(annotationKeys).Draw(w.rt, "annKey")
		val := rapid.SampledFrom([]string{"true", "true", "false", "-", "yes"}).Draw(w.rt, "annVal")
		w.AnnotFlips++
		if w.annSetAt == nil {
			w.annSetAt = map[string]int{}
		}
		w.annSetAt[e.Namespace+"/"+e.Name+"/"+key] = w.idleSeq[e.Namespace+"/"+e.Name]
		_ = w.C.SetEDSAnnotation(e.Namespace, e.Name, key, val)
	case "ers-protect":
		// some other component puts a finalizer on a replica set (foreground deletion, a protection controller): when
		// the controller later deletes that set it stays around, terminating, until the finalizer is released
		if rss := w.rsOf(w.pickEDS()); len(rss) > 0 {
			rs := rss[rapid.IntRange(0, len(rss)-1).Draw(w.rt, "protectedRS")]
			w.C.Tracef("replica set %s/%s gets finalizer verif/protect", rs.Namespace, rs.Name)
			w.C.MutateERS(rs.Namespace, rs.Name, func(x *edsv1.ExtendedDaemonSetReplicaSet) {
				for _, f := range x.Finalizers {
					if f == "verif/protect" {
						return
					}
				}
				x.Finalizers = append(x.Finalizers, "verif/protect")
			})
		}
	case "ers-release":
		w.releaseReplicaSets()
	case "migration-toggle":
		// the user ends (or re-declares) the migration from the old DaemonSet: the annotation goes away while
		// pods of that DaemonSet may still be running
		e := w.EDS[0]
		if cur := w.C.EDS(e.Namespace, e.Name); cur != nil && w.Migrated {
			if _, on := cur.Annotations[oracle.AnnOldDaemonset]; on {
				_ = w.C.SetEDSAnnotation(e.Namespace, e.Name, oracle.AnnOldDaemonset, "-")
			} else {
				_ = w.C.SetEDSAnnotation(e.Namespace, e.Name, oracle.AnnOldDaemonset, "old-ds")
			}
			w.AnnotFlips++
		}
	case "eds-relabel":
		// metadata.labels of the ExtendedDaemonSet change (a chart version bump, a team label...)
		e := w.pickEDS()
		// ... or labels pasted from one of its own objects: the keys the controller reserves for its replica sets and
		// pods, with a stale or foreign value (the object's own name label must win on everything it creates)
		k := rapid.SampledFrom([]string{"team", "chart", "app.kubernetes.io/version", oracle.LabelEDSName, oracle.LabelRSName}).Draw(w.rt, "edsLabelKey")
		v := rapid.SampledFrom([]string{"-", "a", "b", "1.2.3"}).Draw(w.rt, "edsLabelVal")
		if k == oracle.LabelEDSName || k == oracle.LabelRSName {
			v = rapid.SampledFrom([]string{"-", "bar", "bar", "foo-stale"}).Draw(w.rt, "edsReservedLabelVal")
		}
		w.C.Tracef("eds %s/%s label %s=%s", e.Namespace, e.Name, k, v)
		_ = w.C.EditEDS(e.Namespace, e.Name, func(x *edsv1.ExtendedDaemonSet) {
			if x.Labels == nil {
				x.Labels = map[string]string{}
			}
			if v == "-" {
				delete(x.Labels, k)
			} else {
				x.Labels[k] = v
			}
		})
	case "node-annotate":
		// a resources override annotation on a node: for this EDS, for another one, malformed, or removed
		if n := w.pickNode(); n != nil {
			e := w.pickEDS()
			kind := rapid.SampledFrom([]string{"own", "own", "other", "malformed", "remove"}).Draw(w.rt, "nodeAnnKind")
			key := fmt.Sprintf("resources.extendeddaemonset.datadoghq.com/%s.%s.agent", e.Namespace, e.Name)
			val := rapid.SampledFrom([]string{`{"requests":{"cpu":"150m"}}`, `{"requests":{"cpu":"250m"},"limits":{"memory":"256Mi"}}`}).Draw(w.rt, "nodeAnnVal")
			switch kind {
			case "other":
				key = "resources.extendeddaemonset.datadoghq.com/elsewhere.other.agent"
			case "malformed":
				val = "{not json"
			}
			w.NodeChurn++
			w.C.Tracef("node annotate %s %s %s", n.Name, kind, key)
			w.C.MutateNode(n.Name, func(x *corev1.Node) {
				if x.Annotations == nil {
					x.Annotations = map[string]string{}
				}
				if kind == "remove" {
					delete(x.Annotations, key)
				} else {
					x.Annotations[key] = val
				}
			})
		}
	case "setting-toggle":
		// an ExtendedDaemonsetSetting for the first EDS appears, changes or disappears
		e := w.EDS[0]
		name := rapid.SampledFrom([]string{"set-a", "set-b"}).Draw(w.rt, "settingName")
		if cur := w.C.Setting(e.Namespace, name); cur != nil && rapid.Bool().Draw(w.rt, "settingRemove") {
			w.C.Tracef("setting %s/%s deleted", e.Namespace, name)
			w.C.DeleteSetting(e.Namespace, name)
		} else {
			sel := rapid.SampledFrom([]string{"zone=a", "zone=b", "tier=a", "all"}).Draw(w.rt, "settingSel")
			cpu := rapid.SampledFrom([]string{"111m", "222m"}).Draw(w.rt, "settingCPU")
			w.C.Tracef("setting %s/%s := selector %s cpu %s", e.Namespace, name, sel, cpu)
			obj := &edsv1.ExtendedDaemonsetSetting{ObjectMeta: metav1.ObjectMeta{Namespace: e.Namespace, Name: name},
				Spec: edsv1.ExtendedDaemonsetSettingSpec{Reference: &autoscalingv1.CrossVersionObjectReference{Kind: "ExtendedDaemonset", Name: e.Name}, NodeSelector: c18Selector(sel),
					Containers: []edsv1.ExtendedDaemonsetSettingContainerSpec{{Name: "agent", Resources: corev1.ResourceRequirements{Requests: corev1.ResourceList{corev1.ResourceCPU: resource.MustParse(cpu)}}}}}}
			if cur != nil {
				w.C.MutateSetting(e.Namespace, name, func(x *edsv1.ExtendedDaemonsetSetting) { x.Spec = obj.Spec })
			} else {
				w.C.Add(obj)
			}
		}
		w.NodeChurn++
	case "canary-valid":
		e := w.pickEDS()
		if x := w.C.EDS(e.Namespace, e.Name); x != nil && x.Status.Canary != nil {
			val := x.Status.Canary.ReplicaSet
			if rapid.IntRange(0, 3).Draw(w.rt, "validOther") == 0 {
				val = x.Status.ActiveReplicaSet
			}
			_ = w.C.SetEDSAnnotation(e.Namespace, e.Name, oracle.AnnCanaryValid, val)
		}
	case "node-add":
		if len(w.C.Nodes()) < w.cfg.MaxNodes+2 {
			w.NodeChurn++
			w.addNode()
		}
	case "node-remove":
		if n := w.pickNode(); n != nil && len(w.C.Nodes()) > 1 {
			w.NodeChurn++
			w.C.RemoveNode(n.Name)
		}
	case "node-relabel":
		if n := w.pickNode(); n != nil {
			w.NodeChurn++
			k := rapid.SampledFrom(gen.LabelKeys).Draw(w.rt, "lk")
			v := rapid.SampledFrom(append([]string{"-"}, gen.LabelVals...)).Draw(w.rt, "lv")
			w.C.Tracef("node relabel %s %s=%s", n.Name, k, v)
			w.C.MutateNode(n.Name, func(n *corev1.Node) {
				if n.Labels == nil {
					n.Labels = map[string]string{}
				}
				if v == "-" {
					delete(n.Labels, k)
				} else {
					n.Labels[k] = v
				}
			})
		}
	case "node-taint":
		if n := w.pickNode(); n != nil {
			w.NodeChurn++
			t := rapid.SampledFrom(gen.TaintPool).Draw(w.rt, "taint")
			w.C.Tracef("node taint %s %v", n.Name, t)
			w.C.MutateNode(n.Name, func(n *corev1.Node) { n.Spec.Taints = append(n.Spec.Taints, t) })
		}
	case "node-untaint":
		if n := w.pickNode(); n != nil {
			w.C.Tracef("node untaint %s", n.Name)
			w.C.MutateNode(n.Name, func(n *corev1.Node) { n.Spec.Taints = nil })
		}
	case "restart-controllers":
		w.C.Tracef("controllers restart")
		w.C.RestartControllers()
	case "gc":
		w.C.GC()
	default:
		panic("unknown action " + kind)
	}
}

func (w *World) editTemplate(e types.NamespacedName, l byte) {
	w.TemplateEdits++
	w.LettersSeen = append(w.LettersSeen, l)
	w.C.Tracef("eds %s/%s template := %c", e.Namespace, e.Name, l)
	_ = w.C.EditEDS(e.Namespace, e.Name, func(x *edsv1.ExtendedDaemonSet) { x.Spec.Template = gen.LetterTemplate(l) })
}

// releaseReplicaSets removes the protection finalizer everywhere; replica sets that were already deleted vanish.
func (w *World) releaseReplicaSets() {
	for _, rs := range w.C.AllERS() {
		has := false
		for _, f := range rs.Finalizers {
			if f == "verif/protect" {
				has = true
			}
		}
		if !has {
			continue
		}
		w.C.Tracef("replica set %s/%s finalizer released", rs.Namespace, rs.Name)
		if rs.DeletionTimestamp != nil {
			w.C.DeleteERS(rs.Namespace, rs.Name)
			continue
		}
		w.C.MutateERS(rs.Namespace, rs.Name, func(x *edsv1.ExtendedDaemonSetReplicaSet) {
			var keep []string
			for _, f := range x.Finalizers {
				if f != "verif/protect" {
					keep = append(keep, f)
				}
			}
			x.Finalizers = keep
		})
	}
}

// defaultWeights is a balanced mix for general histories.
func defaultWeights() map[string]int {
	return map[string]int{
		"rec-eds": 8, "rec-ers": 10, "rec-pt": 1, "round": 4, "advance": 5, "kubelet": 4,
		"pod-start": 3, "pod-unready": 2, "pod-restart": 2, "pod-waiting": 1, "pod-failed": 1, "pod-unknown": 1,
		"pod-finalize": 2, "pod-unschedulable": 1, "edit-template": 3, "annotation": 2,
		"node-add": 1, "node-remove": 1, "node-relabel": 1, "node-taint": 1, "node-untaint": 1,
		"restart-controllers": 1, "gc": 1, "eds-relabel": 1, "edit-strategy": 1,
	}
}

// fingerprint of a history = hash of its trace.
func (w *World) fp() uint64 { return evid.FP(strings.Join(w.C.Trace, "\n")) }

// sampleTrace renders a short prefix of the trace for the evidence file.
func (w *World) sampleTrace(max int) []string {
	t := w.C.Trace
	if len(t) > max {
		t = append(append([]string(nil), t[:max]...), fmt.Sprintf("... (%d more actions)", len(w.C.Trace)-max))
	}
	return t
}
