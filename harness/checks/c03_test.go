package checks

import (
	"fmt"
	"strings"
	"testing"
	"time"

	corev1 "k8s.io/api/core/v1"
	metav1 "k8s.io/apimachinery/pkg/apis/meta/v1"
	"pgregory.net/rapid"

	edsv1 "github.com/DataDog/extendeddaemonset/api/v1alpha1"
	"verifharness/evid"
	"verifharness/gen"
	"verifharness/mon"
	"verifharness/oracle"
	"verifharness/sim"
)

// nodeKinds of the C03 layout generator (the assignment the property quantifies over).
var c03Kinds = []string{"none", "new-available", "new-unavailable", "old-available", "old-available", "old-unavailable", "old-unavailable", "old-terminating", "old-terminating-unready", "new-terminating-unready", "old-stuck-unscheduled", "old-terminating-past-grace", "adopted-available", "adopted-unavailable", "old-failed", "old-failed-x2", "new-failed-x2", "old-available-skewed", "tainted-node", "tainted-node", "old-available-cordoned"}

func forksN() int {
	if thorough() {
		return 24
	}
	return 6
}

// TestC03Budget: one sync of the active replica set over a generated layout,
// executed on several forks of the store (Go map order), judged by the budget monitor.
func TestC03Budget(t *testing.T) {
	rec := evid.New("TestC03Budget", "C03", "layout = 1-12 nodes each untargeted (untolerated taint) or targeted and in {no pod, up-to-date available/unavailable, outdated available (Ready transition in the past or stamped 2s ahead by a skewed kubelet clock)/unavailable/terminating (Ready or not, inside the grace period), up-to-date terminating, stuck unscheduled >10min, terminating past grace, adopted old-DaemonSet pod available/unavailable (optionally with a namesake DaemonSet and its pods in another namespace), one or two pods in phase Failed (the second is kept by the failed-pod back-off)}; the outdated template plain or with its own matchFields exclusion on the node name; both node-assignment modes x maxUnavailable x maxPodSchedulerFailure (int or percent), one active sync on several store forks; non-trivial = at least one outdated-available and one outdated-unavailable pod and fewer deletions allowed than candidates; distinct by layout+strategy rendering")
	t.Cleanup(func() {
		if !t.Failed() {
			rec.Done()
		}
	})
	on := mon.Of("budget", "no-panic")
	rapid.Check(t, func(rt *rapid.T) {
		c := sim.New(sim.Options{AffinityMode: rapid.IntRange(0, 3).Draw(rt, "affinityMode") != 0})
		// the outdated template is plain (A) or carries its own matchFields requirement on the node name (H)
		old := rapid.SampledFrom([]byte{'A', 'A', 'H'}).Draw(rt, "oldTemplate")
		n := rapid.IntRange(1, 12).Draw(rt, "nodes")
		kinds := make([]string, n)
		migration := false
		for i := range kinds {
			kinds[i] = rapid.SampledFrom(c03Kinds).Draw(rt, fmt.Sprintf("node%d", i))
			if strings.HasPrefix(kinds[i], "adopted") {
				migration = true
			}
			var taints []corev1.Taint
			if kinds[i] == "old-available-cordoned" {
				// a cordoned / not-ready node carries taints every daemon pod tolerates by default: still targeted
				taints = []corev1.Taint{{Key: "node.kubernetes.io/unschedulable", Effect: corev1.TaintEffectNoSchedule}, {Key: "node.kubernetes.io/not-ready", Effect: corev1.TaintEffectNoExecute}}
			}
			if kinds[i] == "tainted-node" {
				// listed for the replica set but not targeted (untolerated taint, no pod): must not count in the percentage base
				taints = []corev1.Taint{{Key: "dedicated", Value: "gpu", Effect: corev1.TaintEffectNoSchedule}}
			}
			c.AddNode(fmt.Sprintf("n%02d", i), map[string]string{"zone": "a", "tier": "a"}, taints)
		}
		st := edsv1.ExtendedDaemonSetSpecStrategy{}
		st.RollingUpdate.MaxUnavailable = gen.IntOrPercent(rt, "maxUnavailable", []string{"1", "2", "3", "5", "10%", "25%", "30%", "50%", "100%"})
		st.RollingUpdate.MaxPodSchedulerFailure = gen.IntOrPercent(rt, "maxPodSchedulerFailure", []string{"0", "0", "1", "2", "20%", "100%"})
		var ann map[string]string
		if migration {
			ann = map[string]string{oracle.AnnOldDaemonset: "old-ds"}
		}
		p := prepare(c, "ns1", "foo", st, ann, string(old)+"B")
		if migration {
			p.addOldDaemonSet()
			// sometimes another namespace holds a DaemonSet of the same name with old pods on every node: not part of
			// the migration, its pods must neither be touched nor make the ExtendedDaemonSet's own pods "duplicates"
			if rapid.Bool().Draw(rt, "namesakeDaemonSetElsewhere") {
				var all []string
				for i := 0; i < n; i++ {
					all = append(all, fmt.Sprintf("n%02d", i))
				}
				p.addNamesakeDaemonSet("ns3", all)
			}
		}
		c.Advance(20 * time.Minute)
		oldAvail, oldUnavail := 0, 0
		for i, k := range kinds {
			node := fmt.Sprintf("n%02d", i)
			switch k {
			case "new-available":
				p.addPod(node, 'B', PSAvailable, time.Minute)
			case "new-unavailable":
				p.addPod(node, 'B', PSUnavailable, time.Minute)
			case "old-available":
				p.addPod(node, old, PSAvailable, 15*time.Minute)
				oldAvail++
			case "old-available-cordoned":
				p.addPod(node, old, PSAvailable, 15*time.Minute)
				oldAvail++
			case "old-available-skewed":
				// Ready, but the kubelet stamped the transition slightly ahead of the controller's clock: still an available pod
				p.addPod(node, old, PSAvailableSkew, 15*time.Minute)
				oldAvail++
			case "old-unavailable":
				p.addPod(node, old, PSUnavailable, 15*time.Minute)
				oldUnavail++
			case "old-terminating":
				p.addPod(node, old, PSTerminating, 15*time.Minute)
			case "old-terminating-unready":
				// deleted a few seconds ago, containers already stopped, still inside its grace period
				p.addPod(node, old, PSTerminatingUnready, 15*time.Minute)
			case "new-terminating-unready":
				p.addPod(node, 'B', PSTerminatingUnready, time.Minute)
			case "old-stuck-unscheduled":
				p.addPod(node, old, PSStuckUnscheduled, 15*time.Minute)
			case "old-terminating-past-grace":
				p.addPod(node, old, PSTerminatingPastGrace, 15*time.Minute)
			case "old-failed":
				p.addPod(node, old, PSFailed, 15*time.Minute)
			case "old-failed-x2":
				// two failed (evicted) pods piled up on one node: the clean-up takes one, the failed-pod back-off
				// keeps the other for now, so the rolling update sees an outdated pod in phase Failed
				p.addPod(node, old, PSFailed, 15*time.Minute)
				p.addPod(node, old, PSFailed, 14*time.Minute)
				oldUnavail++
			case "new-failed-x2":
				p.addPod(node, 'B', PSFailed, 2*time.Minute)
				p.addPod(node, 'B', PSFailed, time.Minute)
			case "adopted-available":
				p.addPod(node, 0, PSAvailable, 15*time.Minute)
				oldAvail++
			case "adopted-unavailable":
				p.addPod(node, 0, PSUnavailable, 15*time.Minute)
				oldUnavail++
			}
		}
		active := p.RS['B']
		if e := c.EDS("ns1", "foo"); e == nil || e.Status.ActiveReplicaSet != active || active == "" {
			rt.Fatalf("harness: preparation did not make the second replica set active: %+v", e)
		}
		maxU, _ := oracle.Resolve(st.RollingUpdate.MaxUnavailable, n)
		nontrivial := oldAvail >= 1 && oldUnavail >= 1 && maxU < oldAvail+oldUnavail
		layout := "old=" + string(old) + ":" + strings.Join(kinds, ",")
		var classes []string
		if migration {
			classes = append(classes, "migration")
		}
		if nontrivial {
			classes = append(classes, "budget-binding-with-both-kinds")
		}
		rec.Case(nontrivial, evid.FP(layout, st.RollingUpdate.MaxUnavailable.String(), st.RollingUpdate.MaxPodSchedulerFailure.String()), classes...)
		if nontrivial {
			rec.Sample(map[string]interface{}{"nodes": kinds, "maxUnavailable": st.RollingUpdate.MaxUnavailable.String(), "maxPodSchedulerFailure": st.RollingUpdate.MaxPodSchedulerFailure.String()})
		}
		for f := 0; f < forksN(); f++ {
			fc := c.Fork()
			r := fc.Reconcile(sim.ActorERS, "ns1", active)
			rec.Steps(1)
			if vs := mon.Check(r, on, nil); len(vs) > 0 {
				tr := map[string]interface{}{"nodes": kinds, "maxUnavailable": st.RollingUpdate.MaxUnavailable.String(), "maxPodSchedulerFailure": st.RollingUpdate.MaxPodSchedulerFailure.String(), "fork": f}
				for _, v := range vs {
					rec.Violation(v.Monitor, v.Sig, v.Detail, tr, n)
				}
				rt.Fatalf("%s\nlayout: %s", vs[0], layout)
			}
		}
	})
}

// TestC09Spacing: two sync requests of the active replica set around reconcileFrequency, the first
// at a generated fraction of a second (stored timestamps are truncated to seconds), work pending for both.
func TestC09Spacing(t *testing.T) {
	rec := evid.New("TestC09Spacing", "C09", "active replica set with pods to create and/or outdated pods to delete (mixed, only outdated, only missing; maxUnavailable 1-3; kubelet progress between the syncs or not); sync 1 at second fraction f in {0, .2, .5, .8, .95}, sync 2 after a gap of reconcileFrequency + d, d in {-1.8s ... +0.3s}; reconcileFrequency in {2s, 3s, 10s}; optionally one pod deletion or creation of the first sync fails (refused with a generic or typed error, or stored and answered with ServerTimeout) while its status write succeeds; oracle (rate monitor): two syncs that create or delete pods are at least reconcileFrequency - 1s apart when the first status write succeeded, and every sync respects the slow-start bound; non-trivial = the second request arrives less than reconcileFrequency after the first; distinct by (frequency, fraction, gap, layout)")
	t.Cleanup(func() {
		if !t.Failed() {
			rec.Done()
		}
	})
	on := mon.Of("rate", "budget", "no-panic")
	rapid.Check(t, func(rt *rapid.T) {
		freq := rapid.SampledFrom([]time.Duration{2 * time.Second, 3 * time.Second, 10 * time.Second}).Draw(rt, "reconcileFrequency")
		frac := rapid.SampledFrom([]time.Duration{0, 200 * time.Millisecond, 500 * time.Millisecond, 800 * time.Millisecond, 950 * time.Millisecond}).Draw(rt, "fraction")
		d := rapid.SampledFrom([]time.Duration{-1800 * time.Millisecond, -1400 * time.Millisecond, -1200 * time.Millisecond, -1050 * time.Millisecond, -900 * time.Millisecond, -500 * time.Millisecond, -100 * time.Millisecond, 0, 300 * time.Millisecond}).Draw(rt, "gapDelta")
		n := rapid.IntRange(3, 8).Draw(rt, "nodes")
		c := sim.New(sim.Options{})
		for i := 0; i < n; i++ {
			c.AddNode(fmt.Sprintf("n%02d", i), map[string]string{"zone": "a"}, nil)
		}
		st := edsv1.ExtendedDaemonSetSpecStrategy{ReconcileFrequency: &metav1.Duration{Duration: freq}}
		st.RollingUpdate.MaxUnavailable = gen.IntOrPercent(rt, "maxUnavailable", []string{"1", "2", "3"})
		st.RollingUpdate.SlowStartAdditiveIncrease = gen.ParseIntOrPercent("1")
		st.RollingUpdate.SlowStartIntervalDuration = &metav1.Duration{Duration: time.Hour}
		p := prepare(c, "ns1", "foo", st, nil, "AB")
		active := p.RS['B']
		// mixed: half of the nodes hold an outdated available pod, the others nothing (work for creation and deletion);
		// only-outdated: the first sync can only delete, a later one only create on the freed nodes; only-missing: only creations
		layoutKind := rapid.SampledFrom([]string{"mixed", "only-outdated", "only-missing"}).Draw(rt, "layout")
		kubeletBetween := rapid.Bool().Draw(rt, "kubeletBetweenSyncs")
		c.Advance(time.Hour + frac)
		withPod := map[string]int{"mixed": n / 2, "only-outdated": n, "only-missing": 0}[layoutKind]
		for i := 0; i < withPod; i++ {
			p.addPod(fmt.Sprintf("n%02d", i), 'A', PSAvailable, 30*time.Minute)
		}
		h := mon.NewHistory()
		var vs []mon.V
		// in the first sync one pod write may fail (the status write still succeeds: the spacing obligation stands)
		failWrite := rapid.SampledFrom([]string{"", "", "delete", "create"}).Draw(rt, "failingPodWrite")
		failKind := rapid.SampledFrom([]sim.FaultKind{sim.FaultReject, sim.FaultRejectTyped, sim.FaultLostAnswerTyped}).Draw(rt, "errorClass")
		hit := false
		c.Faults = func(call *sim.Call) sim.FaultKind {
			if !hit && failWrite != "" && call.Kind == "Pod" && call.Verb == failWrite {
				hit = true
				return failKind
			}
			return sim.FaultNone
		}
		r1 := c.Reconcile(sim.ActorERS, "ns1", active)
		c.Faults = nil
		vs = append(vs, mon.Check(r1, on, h)...)
		if kubeletBetween {
			c.KubeletProgress() // deleted pods vanish, created pods become Ready: the next sync finds new work
		}
		c.Advance(freq + d)
		r2 := c.Reconcile(sim.ActorERS, "ns1", active)
		vs = append(vs, mon.Check(r2, on, h)...)
		// and a third request, again early, to catch a gate that opens only every other time
		c.Advance(freq + d)
		r3 := c.Reconcile(sim.ActorERS, "ns1", active)
		vs = append(vs, mon.Check(r3, on, h)...)
		writes := func(r *sim.Record) int {
			k := 0
			for _, cl := range r.Calls {
				if cl.Kind == "Pod" && (cl.Verb == "create" || cl.Verb == "delete") {
					k++
				}
			}
			return k
		}
		nt := d < 0 && writes(r1) > 0
		rec.Case(nt, evid.FP(freq, frac, d, n, failWrite, failKind, layoutKind, kubeletBetween, st.RollingUpdate.MaxUnavailable.String()), fmt.Sprintf("second-sync-writes=%v", writes(r2) > 0), fmt.Sprintf("pod-write-failed-in-first-sync=%v", hit))
		rec.Steps(3)
		if nt {
			rec.Sample(map[string]interface{}{"reconcileFrequency": freq.String(), "fraction": frac.String(), "gap": (freq + d).String(), "writes": []int{writes(r1), writes(r2), writes(r3)}})
		}
		settle(rt, rec, vs, map[string]interface{}{"reconcileFrequency": freq.String(), "fraction": frac.String(), "gap": (freq + d).String(), "nodes": n, "layout": layoutKind, "kubeletBetweenSyncs": kubeletBetween, "failingPodWrite": failWrite, "maxUnavailable": st.RollingUpdate.MaxUnavailable.String()}, n, "")
	})
}
