package checks

import (
	"fmt"
	"strings"
	"testing"
	"time"

	corev1 "k8s.io/api/core/v1"
	metav1 "k8s.io/apimachinery/pkg/apis/meta/v1"
	"k8s.io/apimachinery/pkg/util/intstr"
	"pgregory.net/rapid"

	edsv1 "github.com/DataDog/extendeddaemonset/api/v1alpha1"
	"verifharness/evid"
	"verifharness/mon"
	"verifharness/oracle"
	"verifharness/sim"
)

type c06Container struct {
	Restarts    int32
	FinishedAgo time.Duration // lastState.terminated.finishedAt = now - FinishedAgo (only if Restarts > 0)
	Waiting     string        // waiting reason or ""
}

type c06Pod struct {
	Present    bool
	StartedAgo time.Duration
	Containers []c06Container
	Init       *c06Container // status of an init container (restarts and waiting reasons count like any container's)
}

type c06Case struct {
	PauseEnabled, FailEnabled bool
	P, F                      int32
	MaxSlowStart              time.Duration // 0 = unset
	MaxRestartsDuration       time.Duration // 0 = unset
	CanaryTimeout             time.Duration // 0 = unset
	Pods                      [3]c06Pod
	CanaryAge                 time.Duration // age of the Canary condition; <0 = condition absent (first sync)
	CanaryWasOff              bool          // the Canary condition is there with status False since CanaryAge: the set was a canary before, stopped being one (template reverted, or promoted and superseded) and is one again (same template applied again)
	PriorPaused, PriorFailed  bool
	PriorRestartSpan          time.Duration // <0: no PodRestarting condition; else lastUpdate-lastTransition
	PriorRestartAgo           time.Duration // now - lastUpdate
	AnnPaused, AnnUnpaused    string        // "", "true", "false"
	Steps                     []c06Step
	UserFailAt                int // 0: never; i: `kubectl-eds canary fail` lands between the read and the status write of the i-th sync
}

// c06Step mutates one pod between two syncs.
type c06Step struct {
	Pod     int
	Kind    string // restart, waiting:<reason>, ready, none
	Advance time.Duration
}

func (k c06Case) String() string {
	var b strings.Builder
	fmt.Fprintf(&b, "autoPause=%v/%d autoFail=%v/%d maxSlowStart=%s maxRestartsDuration=%s canaryTimeout=%s canaryAge=%s(off=%v) userFailAt=%d priorPaused=%v priorFailed=%v priorRestartSpan=%s(ago %s) ann[paused=%q unpaused=%q]", k.PauseEnabled, k.P, k.FailEnabled, k.F, k.MaxSlowStart, k.MaxRestartsDuration, k.CanaryTimeout, k.CanaryAge, k.CanaryWasOff, k.UserFailAt, k.PriorPaused, k.PriorFailed, k.PriorRestartSpan, k.PriorRestartAgo, k.AnnPaused, k.AnnUnpaused)
	for i, p := range k.Pods {
		if !p.Present {
			continue
		}
		fmt.Fprintf(&b, " pod%d{started %s ago", i, p.StartedAgo)
		for _, c := range p.Containers {
			fmt.Fprintf(&b, " [restarts=%d finished %s ago waiting=%q]", c.Restarts, c.FinishedAgo, c.Waiting)
		}
		if p.Init != nil {
			fmt.Fprintf(&b, " init[restarts=%d finished %s ago waiting=%q]", p.Init.Restarts, p.Init.FinishedAgo, p.Init.Waiting)
		}
		b.WriteString("}")
	}
	for _, s := range k.Steps {
		fmt.Fprintf(&b, " then(+%s pod%d %s)", s.Advance, s.Pod, s.Kind)
	}
	return b.String()
}

var c06Waiting = []string{"", "", "", "ErrImagePull", "ImagePullBackOff", "CreateContainerConfigError", "PostStartHookError", "ContainerCreating", "CrashLoopBackOff", "PodInitializing"}

func c06Draw(rt *rapid.T) c06Case {
	k := c06Case{}
	k.PauseEnabled = rapid.IntRange(0, 3).Draw(rt, "pauseEnabled") != 0
	k.FailEnabled = rapid.IntRange(0, 3).Draw(rt, "failEnabled") != 0
	k.P = rapid.Int32Range(0, 3).Draw(rt, "p")
	k.F = k.P + rapid.Int32Range(0, 3).Draw(rt, "fDelta")
	k.MaxSlowStart = rapid.SampledFrom([]time.Duration{0, 0, 30 * time.Second, 2 * time.Minute}).Draw(rt, "maxSlowStart")
	k.MaxRestartsDuration = rapid.SampledFrom([]time.Duration{0, 0, 20 * time.Second, 2 * time.Minute}).Draw(rt, "maxRestartsDuration")
	k.CanaryTimeout = rapid.SampledFrom([]time.Duration{0, 0, 11 * time.Minute, 30 * time.Minute}).Draw(rt, "canaryTimeout")
	counts := []int32{0, 0, k.P - 1, k.P, k.P + 1, k.F - 1, k.F, k.F + 1}
	for i := range k.Pods {
		p := &k.Pods[i]
		p.Present = rapid.IntRange(0, 3).Draw(rt, fmt.Sprintf("pod%d", i)) != 0
		if !p.Present {
			continue
		}
		// -1: the pod status carries no startTime (a kubelet always sets it with the container statuses, other
		// node agents such as virtual kubelets need not)
		starts := []time.Duration{time.Second, 10 * time.Minute, -1}
		if k.MaxSlowStart > 0 {
			starts = append(starts, k.MaxSlowStart-3*time.Second, k.MaxSlowStart, k.MaxSlowStart+3*time.Second)
		}
		p.StartedAgo = rapid.SampledFrom(starts).Draw(rt, fmt.Sprintf("pod%d-started", i))
		nc := rapid.IntRange(1, 2).Draw(rt, fmt.Sprintf("pod%d-nc", i))
		for j := 0; j < nc; j++ {
			c := c06Container{}
			c.Restarts = rapid.SampledFrom(counts).Draw(rt, fmt.Sprintf("pod%d-c%d-restarts", i, j))
			if c.Restarts < 0 {
				c.Restarts = 0
			}
			// -1: the status carries the restart counter but no last-termination record (the dead container was
			// garbage-collected, or the status was rebuilt)
			c.FinishedAgo = rapid.SampledFrom([]time.Duration{time.Second, 15 * time.Second, 90 * time.Second, 5 * time.Minute, -1}).Draw(rt, fmt.Sprintf("pod%d-c%d-finished", i, j))
			c.Waiting = rapid.SampledFrom(c06Waiting).Draw(rt, fmt.Sprintf("pod%d-c%d-waiting", i, j))
			p.Containers = append(p.Containers, c)
		}
		if rapid.IntRange(0, 3).Draw(rt, fmt.Sprintf("pod%d-init", i)) == 0 {
			c := c06Container{}
			c.Restarts = rapid.SampledFrom(counts).Draw(rt, fmt.Sprintf("pod%d-init-restarts", i))
			if c.Restarts < 0 {
				c.Restarts = 0
			}
			c.FinishedAgo = rapid.SampledFrom([]time.Duration{time.Second, 15 * time.Second, 90 * time.Second, 5 * time.Minute}).Draw(rt, fmt.Sprintf("pod%d-init-finished", i))
			c.Waiting = rapid.SampledFrom([]string{"", "", "ErrImagePull", "PodInitializing", "CrashLoopBackOff"}).Draw(rt, fmt.Sprintf("pod%d-init-waiting", i))
			p.Init = &c
		}
	}
	ages := []time.Duration{-1, 5 * time.Second, 5 * time.Minute}
	if k.CanaryTimeout > 0 {
		ages = append(ages, k.CanaryTimeout-3*time.Second, k.CanaryTimeout+3*time.Second)
	}
	k.CanaryAge = rapid.SampledFrom(ages).Draw(rt, "canaryAge")
	if k.CanaryAge >= 0 {
		k.CanaryWasOff = rapid.IntRange(0, 3).Draw(rt, "canaryWasOff") == 0
	}
	k.PriorPaused = rapid.IntRange(0, 4).Draw(rt, "priorPaused") == 0
	k.PriorFailed = rapid.IntRange(0, 5).Draw(rt, "priorFailed") == 0
	spans := []time.Duration{-1, -1, 0, 10 * time.Second}
	if k.MaxRestartsDuration > 0 {
		spans = append(spans, k.MaxRestartsDuration-3*time.Second, k.MaxRestartsDuration+3*time.Second)
	}
	k.PriorRestartSpan = rapid.SampledFrom(spans).Draw(rt, "priorRestartSpan")
	k.PriorRestartAgo = rapid.SampledFrom([]time.Duration{30 * time.Second, 10 * time.Minute}).Draw(rt, "priorRestartAgo")
	k.AnnPaused = rapid.SampledFrom([]string{"", "", "", "true", "false"}).Draw(rt, "annPaused")
	k.AnnUnpaused = rapid.SampledFrom([]string{"", "", "", "true", "false"}).Draw(rt, "annUnpaused")
	ns := rapid.IntRange(0, 3).Draw(rt, "nSteps")
	for i := 0; i < ns; i++ {
		kind := rapid.SampledFrom([]string{"restart", "restart", "waiting:ErrImagePull", "waiting:ContainerCreating", "ready", "none"}).Draw(rt, fmt.Sprintf("step%d-kind", i))
		k.Steps = append(k.Steps, c06Step{Pod: rapid.IntRange(0, 2).Draw(rt, fmt.Sprintf("step%d-pod", i)), Kind: kind,
			Advance: rapid.SampledFrom([]time.Duration{11 * time.Second, 45 * time.Second, 3 * time.Minute}).Draw(rt, fmt.Sprintf("step%d-adv", i))})
	}
	if rapid.IntRange(0, 5).Draw(rt, "userFailMidSync") == 0 {
		k.UserFailAt = rapid.IntRange(1, 1+len(k.Steps)).Draw(rt, "userFailAt")
	}
	return k
}

// runC06 prepares a canary, applies the case and runs 1+len(Steps) canary syncs through the real Reconcile.
func runC06(k c06Case) (vs []mon.V, evaluated int, err error) {
	vs, obs, err := runC06Order(k, nil)
	return vs, len(obs), err
}

// c06Obs is what one canary sync left in the replica-set status.
type c06Obs struct {
	Failed, Paused          bool
	RestartFirst, RestartAt string // PodRestarting lastTransitionTime / lastUpdateTime ("" = no condition)
}

// runC06Order is runC06 with status.canary.nodes permuted (the pods stay on their nodes): the list is a set,
// so the order in which the canary pods are evaluated must not matter.
func runC06Order(k c06Case, perm []int) (vs []mon.V, obs []c06Obs, err error) {
	evaluated := 0
	c := sim.New(sim.Options{})
	for i := 0; i < 4; i++ {
		c.AddNode(fmt.Sprintf("n%d", i), map[string]string{"zone": "a"}, nil)
	}
	three := intstr.FromInt(3)
	man := edsv1.ExtendedDaemonSetSpecStrategyCanaryValidationModeManual
	cn := &edsv1.ExtendedDaemonSetSpecStrategyCanary{Replicas: &three, ValidationMode: man,
		AutoPause: &edsv1.ExtendedDaemonSetSpecStrategyCanaryAutoPause{Enabled: &k.PauseEnabled, MaxRestarts: &k.P},
		AutoFail:  &edsv1.ExtendedDaemonSetSpecStrategyCanaryAutoFail{Enabled: &k.FailEnabled, MaxRestarts: &k.F}}
	if k.MaxSlowStart > 0 {
		cn.AutoPause.MaxSlowStartDuration = &metav1.Duration{Duration: k.MaxSlowStart}
	}
	if k.MaxRestartsDuration > 0 {
		cn.AutoFail.MaxRestartsDuration = &metav1.Duration{Duration: k.MaxRestartsDuration}
	}
	if k.CanaryTimeout > 0 {
		cn.AutoFail.CanaryTimeout = &metav1.Duration{Duration: k.CanaryTimeout}
	}
	st := edsv1.ExtendedDaemonSetSpecStrategy{Canary: cn, ReconcileFrequency: &metav1.Duration{Duration: 10 * time.Second}}
	p := prepare(c, "ns1", "foo", st, nil, "AC") // template C has two containers
	e := c.EDS("ns1", "foo")
	crs := p.RS['C']
	if e == nil || e.Status.Canary == nil || e.Status.Canary.ReplicaSet != crs || len(e.Status.Canary.Nodes) != 3 {
		return nil, nil, fmt.Errorf("harness: canary not set up: %+v", e.Status)
	}
	c.Advance(time.Hour)
	now := c.Now()
	nodes := append([]string(nil), e.Status.Canary.Nodes...)
	if perm != nil {
		c.MutateEDS("ns1", "foo", func(x *edsv1.ExtendedDaemonSet) {
			for i, j := range perm {
				x.Status.Canary.Nodes[i] = nodes[j]
			}
		})
	}
	podNames := [3]string{}
	for i, kp := range k.Pods {
		if !kp.Present {
			continue
		}
		age := kp.StartedAgo
		if age < 0 {
			age = time.Second
		}
		pod := p.addPod(nodes[i], 'C', PSUnavailable, age)
		podNames[i] = pod.Name
		c.MutatePod(pod.Namespace, pod.Name, func(x *corev1.Pod) {
			started := metav1.NewTime(now.Add(-age))
			x.Status.StartTime = &started
			if kp.StartedAgo < 0 {
				x.Status.StartTime = nil
			}
			x.Status.ContainerStatuses = nil
			allRunning := true
			for j, kc := range kp.Containers {
				cs := corev1.ContainerStatus{Name: x.Spec.Containers[j%len(x.Spec.Containers)].Name, RestartCount: kc.Restarts}
				if j >= len(x.Spec.Containers) {
					break
				}
				if kc.Restarts > 0 && kc.FinishedAgo >= 0 {
					cs.LastTerminationState = corev1.ContainerState{Terminated: &corev1.ContainerStateTerminated{ExitCode: 1, Reason: "Error", FinishedAt: metav1.NewTime(now.Add(-kc.FinishedAgo))}}
				}
				if kc.Waiting != "" {
					cs.State = corev1.ContainerState{Waiting: &corev1.ContainerStateWaiting{Reason: kc.Waiting}}
					allRunning = false
				} else {
					cs.State = corev1.ContainerState{Running: &corev1.ContainerStateRunning{StartedAt: started}}
					cs.Ready = true
				}
				x.Status.ContainerStatuses = append(x.Status.ContainerStatuses, cs)
			}
			if kc := kp.Init; kc != nil {
				cs := corev1.ContainerStatus{Name: "init", RestartCount: kc.Restarts}
				if kc.Restarts > 0 {
					cs.LastTerminationState = corev1.ContainerState{Terminated: &corev1.ContainerStateTerminated{ExitCode: 1, Reason: "Error", FinishedAt: metav1.NewTime(now.Add(-kc.FinishedAgo))}}
				}
				if kc.Waiting != "" {
					cs.State = corev1.ContainerState{Waiting: &corev1.ContainerStateWaiting{Reason: kc.Waiting}}
					allRunning = false
				} else {
					cs.State = corev1.ContainerState{Terminated: &corev1.ContainerStateTerminated{ExitCode: 0, Reason: "Completed", FinishedAt: started}}
					cs.Ready = true
				}
				x.Status.InitContainerStatuses = []corev1.ContainerStatus{cs}
			}
			if allRunning {
				for ci := range x.Status.Conditions {
					if x.Status.Conditions[ci].Type == corev1.PodReady {
						x.Status.Conditions[ci].Status = corev1.ConditionTrue
					}
				}
			}
		})
	}
	c.MutateERS("ns1", crs, func(rs *edsv1.ExtendedDaemonSetReplicaSet) {
		rs.Status.Conditions = nil
		add := func(t edsv1.ExtendedDaemonSetReplicaSetConditionType, transition, update time.Time, reason string) {
			rs.Status.Conditions = append(rs.Status.Conditions, edsv1.ExtendedDaemonSetReplicaSetCondition{Type: t, Status: corev1.ConditionTrue, LastTransitionTime: metav1.NewTime(transition), LastUpdateTime: metav1.NewTime(update), Reason: reason})
		}
		if k.CanaryAge >= 0 {
			add(edsv1.ConditionTypeCanary, now.Add(-k.CanaryAge), now.Add(-k.CanaryAge), "")
			if k.CanaryWasOff {
				rs.Status.Conditions[len(rs.Status.Conditions)-1].Status = corev1.ConditionFalse
			}
		}
		if k.PriorPaused {
			add(edsv1.ConditionTypeCanaryPaused, now.Add(-time.Minute), now.Add(-time.Minute), "CrashLoopBackOff")
		}
		if k.PriorFailed {
			add(edsv1.ConditionTypeCanaryFailed, now.Add(-time.Minute), now.Add(-time.Minute), "CrashLoopBackOff")
		}
		if k.PriorRestartSpan >= 0 {
			add(edsv1.ConditionTypePodRestarting, now.Add(-k.PriorRestartAgo-k.PriorRestartSpan), now.Add(-k.PriorRestartAgo), "")
		}
	})
	_ = c.EditEDS("ns1", "foo", func(x *edsv1.ExtendedDaemonSet) {
		if x.Annotations == nil {
			x.Annotations = map[string]string{}
		}
		if k.AnnPaused != "" {
			x.Annotations[oracle.AnnCanaryPaused] = k.AnnPaused
		}
		if k.AnnUnpaused != "" {
			x.Annotations[oracle.AnnCanaryUnpaused] = k.AnnUnpaused
		}
	})
	on := mon.Of("canary-verdict", "no-panic", "paused-frozen", "condition-clock")
	userFailed := false
	sync := func() {
		evaluated++
		hit := false
		if k.UserFailAt == evaluated {
			// the user's mark (what pkg/plugin/canary/fail.go writes) lands after the sync has read the replica set and
			// right before it writes its status: whatever the sync does - conflict and retry, or a write that keeps the
			// mark - Canary-Failed is true afterwards and stays true
			c.Faults = func(call *sim.Call) sim.FaultKind {
				if !hit && call.Actor == sim.ActorERS && (call.Verb == "status-update" || call.Verb == "status-patch") && call.Name == crs {
					hit = true
					c.Tracef("user fails canary %s (inside the sync)", crs)
					c.MutateERS("ns1", crs, func(rs *edsv1.ExtendedDaemonSetReplicaSet) {
						now := metav1.NewTime(c.Now())
						if cd := oracle.RSCond(&rs.Status, edsv1.ConditionTypeCanaryFailed); cd != nil {
							cd.Status, cd.LastTransitionTime, cd.LastUpdateTime, cd.Reason = corev1.ConditionTrue, now, now, "Manually failed"
						} else {
							rs.Status.Conditions = append(rs.Status.Conditions, edsv1.ExtendedDaemonSetReplicaSetCondition{Type: edsv1.ConditionTypeCanaryFailed, Status: corev1.ConditionTrue, LastTransitionTime: now, LastUpdateTime: now, Reason: "Manually failed"})
						}
					})
				}
				return sim.FaultNone
			}
		}
		r := c.Reconcile(sim.ActorERS, "ns1", crs)
		c.Faults = nil
		if hit {
			userFailed = true // this record's verdict is the user's, not the sync's: only stickiness is judged below
		} else {
			vs = append(vs, mon.Check(r, on, nil)...)
		}
		if rs := c.ERS("ns1", crs); userFailed && rs != nil && !oracle.RSCondTrue(&rs.Status, edsv1.ConditionTypeCanaryFailed) {
			vs = append(vs, mon.V{Property: "C06", Monitor: "sticky", Sig: "C06/sticky/user-fail-lost", Detail: fmt.Sprintf("the user marked canary %s failed during sync %d; after sync %d Canary-Failed is not true any more", crs, k.UserFailAt, evaluated)})
		}
		o := c06Obs{}
		if rs := c.ERS("ns1", crs); rs != nil {
			o.Failed = oracle.RSCondTrue(&rs.Status, edsv1.ConditionTypeCanaryFailed)
			o.Paused = oracle.RSCondTrue(&rs.Status, edsv1.ConditionTypeCanaryPaused)
			if rc := oracle.RSCond(&rs.Status, edsv1.ConditionTypePodRestarting); rc != nil {
				o.RestartFirst, o.RestartAt = rc.LastTransitionTime.UTC().Format("15:04:05"), rc.LastUpdateTime.UTC().Format("15:04:05")
			}
		}
		obs = append(obs, o)
	}
	sync()
	for _, s := range k.Steps {
		if len(vs) > 0 {
			break
		}
		c.Advance(s.Advance)
		name := podNames[s.Pod]
		if name != "" && c.Pod("ns1", name) != nil {
			switch {
			case s.Kind == "restart":
				c.Restart("ns1", name, 0, "Error")
			case strings.HasPrefix(s.Kind, "waiting:"):
				c.Waiting("ns1", name, 0, strings.TrimPrefix(s.Kind, "waiting:"))
			case s.Kind == "ready":
				c.Start("ns1", name)
			}
		}
		sync()
	}
	_ = evaluated
	return vs, obs, nil
}

// TestC06Order: metamorphic relation - status.canary.nodes is a set, so evaluating the same canary pods in
// another order must give the same Canary-Failed / Canary-Paused verdicts and the same restart timeline
// (first and latest observed restart) after every sync.
func TestC06Order(t *testing.T) {
	rec := evid.New("TestC06Order", "C06", "the cases of TestC06Verdict with at least two canary pods, run twice through the real Reconcile: once as is and once with status.canary.nodes in a generated other order (pods stay on their nodes); oracle: after every one of the 1-4 syncs Canary-Failed, Canary-Paused (when not failed) and the PodRestarting first/latest times are equal in both runs; non-trivial = two pods with restarts at different times; distinct by case rendering + permutation")
	t.Cleanup(func() {
		if !t.Failed() {
			rec.Done()
		}
	})
	perms := [][]int{{1, 0, 2}, {0, 2, 1}, {2, 1, 0}, {1, 2, 0}, {2, 0, 1}}
	rapid.Check(t, func(rt *rapid.T) {
		k := c06Draw(rt)
		perm := rapid.SampledFrom(perms).Draw(rt, "order")
		// the order test needs at least two canary pods
		pods := 0
		for i := range k.Pods {
			if k.Pods[i].Present {
				pods++
			}
		}
		if pods < 2 {
			k.Pods[0].Present, k.Pods[1].Present = true, true
			for _, i := range []int{0, 1} {
				if len(k.Pods[i].Containers) == 0 {
					k.Pods[i].StartedAgo = 10 * time.Minute
					k.Pods[i].Containers = []c06Container{{Restarts: 1, FinishedAgo: []time.Duration{15 * time.Second, 5 * time.Minute}[i]}}
				}
			}
			pods = 2
		}
		times := map[time.Duration]bool{}
		for i := range k.Pods {
			if !k.Pods[i].Present {
				continue
			}
			for _, cc := range k.Pods[i].Containers {
				if cc.Restarts > 0 {
					times[cc.FinishedAgo] = true
				}
			}
		}
		nt := len(times) >= 2
		rec.Case(nt, evid.FP(k.String(), perm), fmt.Sprintf("pods=%d", pods), fmt.Sprintf("syncs=%d", 1+len(k.Steps)))
		if nt {
			rec.Sample(map[string]interface{}{"case": k.String(), "order": perm})
		}
		_, a, err := runC06Order(k, nil)
		if err != nil {
			rt.Fatalf("%v", err)
		}
		_, b, err := runC06Order(k, perm)
		if err != nil {
			rt.Fatalf("%v", err)
		}
		rec.Steps(len(a) + len(b))
		var vs []mon.V
		for i := 0; i < len(a) && i < len(b); i++ {
			x, y := a[i], b[i]
			switch {
			case x.Failed != y.Failed:
				vs = append(vs, mon.V{Property: "C06", Monitor: "order-invariance", Sig: "C06/order-invariance/canary-failed-depends-on-node-order", Detail: fmt.Sprintf("after sync %d Canary-Failed is %v with status.canary.nodes as selected and %v in order %v (same pods)", i+1, x.Failed, y.Failed, perm)})
			case !x.Failed && x.Paused != y.Paused:
				vs = append(vs, mon.V{Property: "C06", Monitor: "order-invariance", Sig: "C06/order-invariance/canary-paused-depends-on-node-order", Detail: fmt.Sprintf("after sync %d Canary-Paused is %v with status.canary.nodes as selected and %v in order %v (same pods)", i+1, x.Paused, y.Paused, perm)})
			case x.RestartFirst != y.RestartFirst || x.RestartAt != y.RestartAt:
				vs = append(vs, mon.V{Property: "C06", Monitor: "order-invariance", Sig: "C06/order-invariance/restart-timeline-depends-on-node-order", Detail: fmt.Sprintf("after sync %d the PodRestarting condition records first/latest restart %s/%s with status.canary.nodes as selected and %s/%s in order %v (same pods)", i+1, x.RestartFirst, x.RestartAt, y.RestartFirst, y.RestartAt, perm)})
			}
			if len(vs) > 0 {
				break
			}
		}
		settle(rt, rec, vs, map[string]interface{}{"case": k.String(), "order": perm}, 1+len(k.Steps), "case: "+k.String())
	})
}

func TestC06Verdict(t *testing.T) {
	rec := evid.New("TestC06Verdict", "C06", "canary of three nodes with 0-3 up-to-date canary pods (1-2 containers, sometimes an init container status; restart counts at, below and above both thresholds; last-termination times; waiting reasons inside/outside the cannot-start set and ContainerCreating; start time around maxSlowStartDuration) x autoPause/autoFail enabled x thresholds x maxSlowStartDuration/maxRestartsDuration/canaryTimeout set or unset x prior Canary (True, or False since then: a set that was a canary before and is one again)/Canary-Paused/Canary-Failed/PodRestarting conditions with ages around the limits x pause/unpause annotations, then 1-4 canary syncs through the real Reconcile with pod changes in between (stickiness, restart timeline), in one case out of six with `kubectl-eds canary fail` landing between the read and the status write of one of these syncs (the mark must survive that sync and every later one); oracle = three-valued reference verdict; non-trivial = at least one pod and (a restart count within 1 of a threshold, a cannot-start/creating reason, or a prior condition); distinct by case rendering")
	t.Cleanup(func() {
		if !t.Failed() {
			rec.Done()
		}
	})
	rapid.Check(t, func(rt *rapid.T) {
		k := c06Draw(rt)
		pods, near, waiting := 0, false, false
		for _, p := range k.Pods {
			if !p.Present {
				continue
			}
			pods++
			for _, cc := range p.Containers {
				for _, th := range []int32{k.P, k.F} {
					if d := cc.Restarts - th; d >= -1 && d <= 1 {
						near = true
					}
				}
				if cc.Waiting != "" && cc.Waiting != "CrashLoopBackOff" && cc.Waiting != "PodInitializing" {
					waiting = true
				}
			}
		}
		prior := k.PriorPaused || k.PriorFailed || k.PriorRestartSpan >= 0 || k.CanaryAge >= 0
		nt := pods > 0 && (near || waiting || prior)
		var classes []string
		classes = append(classes, fmt.Sprintf("pods=%d", pods))
		if k.AnnUnpaused == "true" {
			classes = append(classes, "unpaused-annotation")
		}
		if k.PriorFailed {
			classes = append(classes, "prior-failed")
		}
		if len(k.Steps) > 0 {
			classes = append(classes, "multi-sync")
		}
		rec.Case(nt, evid.FP(k.String()), classes...)
		if nt {
			rec.Sample(k.String())
		}
		vs, n, err := runC06(k)
		if err != nil {
			rt.Fatalf("%v", err)
		}
		rec.Steps(n)
		settle(rt, rec, vs, map[string]interface{}{"case": k.String()}, 1+len(k.Steps), "case: "+k.String())
	})
}

// TestC06Timeline: model-based check of the restart timeline the canary keeps in its PodRestarting condition
// ("the first and the latest observed restart"). Canary pods restart, disappear and come back between syncs;
// the model keeps the newest restart any sync has seen so far.
func TestC06Timeline(t *testing.T) {
	rec := evid.New("TestC06Timeline", "C06", "canary on three nodes (two containers per pod), auto-fail thresholds out of reach; 3-8 events from {container restart on pod i, pod i removed, pod i re-created, time passes}, one canary sync after each; model: latest = newest restart seen by any sync so far, first = a restart time seen by the first sync that saw one; oracle after every sync: PodRestarting exists iff a restart was seen, lastUpdateTime = latest (never moves back), lastTransitionTime = first (never changes); non-trivial = a pod disappeared after its restart had been recorded; distinct by event list")
	t.Cleanup(func() {
		if !t.Failed() {
			rec.Done()
		}
	})
	rapid.Check(t, func(rt *rapid.T) {
		c := sim.New(sim.Options{})
		for i := 0; i < 4; i++ {
			c.AddNode(fmt.Sprintf("n%d", i), map[string]string{"zone": "a"}, nil)
		}
		three := intstr.FromInt(3)
		yes, no := true, false
		big := int32(50)
		cn := &edsv1.ExtendedDaemonSetSpecStrategyCanary{Replicas: &three, ValidationMode: edsv1.ExtendedDaemonSetSpecStrategyCanaryValidationModeManual,
			AutoPause: &edsv1.ExtendedDaemonSetSpecStrategyCanaryAutoPause{Enabled: &no, MaxRestarts: &big},
			AutoFail:  &edsv1.ExtendedDaemonSetSpecStrategyCanaryAutoFail{Enabled: &yes, MaxRestarts: &big}}
		st := edsv1.ExtendedDaemonSetSpecStrategy{Canary: cn, ReconcileFrequency: &metav1.Duration{Duration: 10 * time.Second}}
		p := prepare(c, "ns1", "foo", st, nil, "AC") // template C: two containers
		e := c.EDS("ns1", "foo")
		crs := p.RS['C']
		if e == nil || e.Status.Canary == nil || e.Status.Canary.ReplicaSet != crs || len(e.Status.Canary.Nodes) != 3 {
			rt.Fatalf("harness: canary not set up: %+v", e)
		}
		c.Advance(time.Hour)
		nodes := append([]string(nil), e.Status.Canary.Nodes...)
		pods := [3]string{}
		for i := range nodes {
			pods[i] = p.addPod(nodes[i], 'C', PSAvailable, time.Minute).Name
		}
		var latest, firstMin, firstMax time.Time
		seen := false
		var events []string
		var vs []mon.V
		removedAfterRecorded := false
		recordedBy := map[string]bool{} // pods whose restart a sync has recorded
		sync := func() {
			c.Advance(11 * time.Second)
			// what this sync can observe
			var lo, hi time.Time
			for _, name := range pods {
				pod := c.Pod("ns1", name)
				if pod == nil || pod.DeletionTimestamp != nil {
					continue
				}
				for _, cs := range pod.Status.ContainerStatuses {
					if cs.RestartCount > 0 && cs.LastTerminationState.Terminated != nil {
						ft := cs.LastTerminationState.Terminated.FinishedAt.Time
						if hi.IsZero() || ft.After(hi) {
							hi = ft
						}
						if lo.IsZero() || ft.Before(lo) {
							lo = ft
						}
						recordedBy[name] = true
					}
				}
			}
			if !hi.IsZero() {
				if !seen {
					seen, firstMin, firstMax = true, lo, hi
				}
				if hi.After(latest) {
					latest = hi
				}
			}
			r := c.Reconcile(sim.ActorERS, "ns1", crs)
			vs = append(vs, mon.Check(r, mon.Of("no-panic"), nil)...)
			rs := c.ERS("ns1", crs)
			if rs == nil || r.Err != nil {
				return
			}
			rc := oracle.RSCond(&rs.Status, edsv1.ConditionTypePodRestarting)
			sec := func(x time.Time) string { return x.UTC().Truncate(time.Second).Format("15:04:05") }
			switch {
			case !seen && rc != nil:
				vs = append(vs, mon.V{Property: "C06", Monitor: "restart-timeline", Sig: "C06/restart-timeline/condition-without-restart", Detail: "a PodRestarting condition exists although no sync has seen a restarted canary pod"})
			case seen && rc == nil:
				vs = append(vs, mon.V{Property: "C06", Monitor: "restart-timeline", Sig: "C06/restart-timeline/restart-not-recorded", Detail: "a sync saw a restarted canary pod but the replica set has no PodRestarting condition"})
			case seen:
				if sec(rc.LastUpdateTime.Time) != sec(latest) {
					sig := "latest-differs"
					if rc.LastUpdateTime.Time.Before(latest.Truncate(time.Second)) {
						sig = "latest-moved-back-or-missed"
					}
					vs = append(vs, mon.V{Property: "C06", Monitor: "restart-timeline", Sig: "C06/restart-timeline/" + sig, Detail: fmt.Sprintf("PodRestarting.lastUpdateTime=%s, the newest restart any sync has observed is %s (events: %s)", sec(rc.LastUpdateTime.Time), sec(latest), strings.Join(events, ", "))})
				}
				if ft := rc.LastTransitionTime.Time; ft.Before(firstMin.Truncate(time.Second)) || ft.After(firstMax) {
					vs = append(vs, mon.V{Property: "C06", Monitor: "restart-timeline", Sig: "C06/restart-timeline/first-changed", Detail: fmt.Sprintf("PodRestarting.lastTransitionTime=%s, the first sync that saw restarts saw them between %s and %s (events: %s)", sec(ft), sec(firstMin), sec(firstMax), strings.Join(events, ", "))})
				}
			}
		}
		sync()
		n := rapid.IntRange(3, 8).Draw(rt, "events")
		for i := 0; i < n && len(vs) == 0; i++ {
			kind := rapid.SampledFrom([]string{"restart", "restart", "restart", "remove", "remove", "recreate", "wait"}).Draw(rt, fmt.Sprintf("event%d", i))
			idx := rapid.IntRange(0, 2).Draw(rt, fmt.Sprintf("event%d-pod", i))
			name := pods[idx]
			switch kind {
			case "restart":
				c.Advance(rapid.SampledFrom([]time.Duration{2 * time.Second, 40 * time.Second, 4 * time.Minute}).Draw(rt, fmt.Sprintf("event%d-after", i)))
				if c.Pod("ns1", name) != nil {
					// either container may be the one that restarts (the other one never did)
					c.Restart("ns1", name, rapid.IntRange(0, 1).Draw(rt, fmt.Sprintf("event%d-container", i)), "Error")
				}
			case "remove":
				if c.Pod("ns1", name) != nil {
					if recordedBy[name] {
						removedAfterRecorded = true
					}
					c.ForceRemovePod("ns1", name)
				}
			case "recreate":
				if c.Pod("ns1", name) == nil {
					// whatever the canary created meanwhile for that node goes away too: the node gets one fresh healthy pod
					for _, q := range c.Pods() {
						if oracle.NodeOf(q) == nodes[idx] && q.Labels[oracle.LabelRSName] == crs {
							c.ForceRemovePod(q.Namespace, q.Name)
						}
					}
					pods[idx] = p.addPod(nodes[idx], 'C', PSAvailable, time.Second).Name
				}
			case "wait":
				c.Advance(3 * time.Minute)
			}
			events = append(events, fmt.Sprintf("%s pod%d", kind, idx))
			sync()
		}
		rec.Case(removedAfterRecorded, evid.FP(strings.Join(events, ",")), fmt.Sprintf("restart-seen=%v", seen))
		rec.Steps(len(events) + 1)
		if removedAfterRecorded {
			rec.Sample(events)
		}
		settle(rt, rec, vs, map[string]interface{}{"events": events}, len(events), "events: "+strings.Join(events, ", "))
	})
}
