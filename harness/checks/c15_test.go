package checks

import (
	"fmt"
	"sort"
	"strings"
	"testing"
	"time"

	corev1 "k8s.io/api/core/v1"
	metav1 "k8s.io/apimachinery/pkg/apis/meta/v1"
	"pgregory.net/rapid"

	edsv1 "github.com/DataDog/extendeddaemonset/api/v1alpha1"
	"verifharness/evid"
	"verifharness/gen"
	"verifharness/mon"
	"verifharness/oracle"
	"verifharness/sim"
)

type c15Node struct {
	Name     string
	Zone     string // canary nodeSelector key
	Rack     string // anti-affinity key 1 ("" = label absent)
	Tier     string // anti-affinity key 2
	Tainted  bool   // carries dedicated=gpu:NoSchedule (template B may or may not tolerate it)
	NotReady bool   // carries node.kubernetes.io/not-ready:NoExecute (every daemon pod tolerates it by default): still a valid canary node
	Restarts int    // restart count of the daemon pods on it (their sum when there are two)
	// TwoPods: the node holds two daemon pods of the ExtendedDaemonSet (a crash-looping pod next to its successor);
	// the restarts belong to the one that is listed first, the second one never restarted
	TwoPods bool
	// Foreign: restart count of a pod of a namesake ExtendedDaemonSet (same name, another namespace) on this node;
	// it must not influence the choice (0 = no such pod)
	Foreign int
}

type c15Case struct {
	Nodes       []c15Node
	Replicas    string
	Selector    bool // canary.nodeSelector selects zone a ...
	SelForm     int  // ... written as 0 matchLabels{zone: a}, 1 zone In [a], 2 zone NotIn [b], 3 zone In [a] + tier Exists, 4 zone NotIn [b] + notthere DoesNotExist
	Keys        []string
	BTolerates  bool     // new template tolerates the taint
	BNotReadyNS bool     // new template carries its own toleration not-ready/Exists/NoSchedule (same key and operator as a default toleration, other effect): the default NoExecute toleration still applies
	BSelector   bool     // new template has nodeSelector tier=a
	BExclude    bool     // new template has a required affinity term with BOTH an expression (zone exists) and a field requirement (metadata.name NotIn [n00]): n00 is not eligible
	Prev        []string // previously selected names (may be stale / duplicated / nonexistent)
	PrevOtherRS bool     // the previous list was recorded for an earlier canary replica set (the template was edited again while the canary ran): the list stays, only the name changes
	F13Excluded bool
}

func (k c15Case) String() string {
	var ns []string
	for _, n := range k.Nodes {
		ns = append(ns, fmt.Sprintf("%s{zone=%s rack=%s tier=%s tainted=%v notReady=%v restarts=%d twoPods=%v namesakeRestarts=%d}", n.Name, n.Zone, n.Rack, n.Tier, n.Tainted, n.NotReady, n.Restarts, n.TwoPods, n.Foreign))
	}
	return fmt.Sprintf("replicas=%s selector=%v(form %d) keys=%v newTemplate{tolerates=%v selector=%v excludesN00=%v notReadyNoScheduleToleration=%v} prev=%v(of an earlier canary set: %v) nodes=[%s]", k.Replicas, k.Selector, k.SelForm, k.Keys, k.BTolerates, k.BSelector, k.BExclude, k.BNotReadyNS, k.Prev, k.PrevOtherRS, strings.Join(ns, " "))
}

func c15Template(k c15Case) corev1.PodTemplateSpec {
	t := letterTpl('B')
	if k.BTolerates {
		t.Spec.Tolerations = []corev1.Toleration{{Key: "dedicated", Operator: corev1.TolerationOpExists}}
	}
	if k.BSelector {
		t.Spec.NodeSelector = map[string]string{"tier": "a"}
	}
	if k.BNotReadyNS {
		t.Spec.Tolerations = append(t.Spec.Tolerations, corev1.Toleration{Key: "node.kubernetes.io/not-ready", Operator: corev1.TolerationOpExists, Effect: corev1.TaintEffectNoSchedule})
	}
	if k.BExclude {
		t.Spec.Affinity = &corev1.Affinity{NodeAffinity: &corev1.NodeAffinity{RequiredDuringSchedulingIgnoredDuringExecution: &corev1.NodeSelector{NodeSelectorTerms: []corev1.NodeSelectorTerm{{
			MatchExpressions: []corev1.NodeSelectorRequirement{{Key: "zone", Operator: corev1.NodeSelectorOpExists}},
			MatchFields:      []corev1.NodeSelectorRequirement{{Key: "metadata.name", Operator: corev1.NodeSelectorOpNotIn, Values: []string{"n00"}}},
		}}}}}
	}
	return t
}

func c15Draw(rt *rapid.T) c15Case {
	k := c15Case{}
	n := rapid.IntRange(0, 10).Draw(rt, "nodes")
	for i := 0; i < n; i++ {
		name := fmt.Sprintf("n%02d", i)
		k.Nodes = append(k.Nodes, c15Node{
			Name: name, Zone: rapid.SampledFrom([]string{"a", "a", "a", "b"}).Draw(rt, name+"-zone"),
			Rack:     rapid.SampledFrom([]string{"r1", "r1", "r2", "r3", ""}).Draw(rt, name+"-rack"),
			Tier:     rapid.SampledFrom([]string{"a", "a", "a", "b"}).Draw(rt, name+"-tier"),
			Tainted:  rapid.IntRange(0, 4).Draw(rt, name+"-tainted") == 0,
			NotReady: rapid.IntRange(0, 5).Draw(rt, name+"-notready") == 0,
			Restarts: rapid.SampledFrom([]int{0, 0, 0, 1, 2, 5}).Draw(rt, name+"-restarts"),
			TwoPods:  rapid.IntRange(0, 4).Draw(rt, name+"-twoPods") == 0,
			Foreign:  rapid.SampledFrom([]int{0, 0, 0, 0, 3, 9}).Draw(rt, name+"-foreignRestarts"),
		})
	}
	k.Replicas = rapid.SampledFrom([]string{"1", "2", "3", "4", "6", "20%", "30%", "50%", "100%"}).Draw(rt, "replicas")
	k.Selector = rapid.IntRange(0, 2).Draw(rt, "selector") == 0
	k.SelForm = rapid.IntRange(0, 4).Draw(rt, "selectorForm")
	switch rapid.IntRange(0, 3).Draw(rt, "keys") {
	case 1, 2:
		k.Keys = []string{"rack"}
	case 3:
		k.Keys = []string{"rack", "tier"}
	}
	k.BTolerates = rapid.Bool().Draw(rt, "bTolerates")
	k.BNotReadyNS = rapid.IntRange(0, 2).Draw(rt, "bNotReadyNoScheduleToleration") == 0
	k.BSelector = rapid.IntRange(0, 3).Draw(rt, "bSelector") == 0
	k.BExclude = rapid.IntRange(0, 3).Draw(rt, "bExcludesN00") == 0
	np := rapid.SampledFrom([]int{0, 0, 1, 2, 3}).Draw(rt, "nPrev")
	// distinct names: the list is only ever written by the controller, which never lists a node twice
	for _, i := range rapid.SliceOfNDistinct(rapid.IntRange(0, 11), np, np, func(i int) int { return i }).Draw(rt, "prev") {
		k.Prev = append(k.Prev, fmt.Sprintf("n%02d", i))
	}
	if np > 0 {
		k.PrevOtherRS = rapid.IntRange(0, 2).Draw(rt, "prevOfEarlierCanary") == 0
	}
	return k
}

// runC15 prepares the store, runs one EDS reconcile and judges the resulting list.
func runC15(k c15Case) (vs []mon.V, classes []string, err error) {
	c := sim.New(sim.Options{})
	for _, n := range k.Nodes {
		l := map[string]string{"zone": n.Zone, "tier": n.Tier}
		if n.Rack != "" {
			l["rack"] = n.Rack
		}
		var taints []corev1.Taint
		if n.Tainted {
			taints = []corev1.Taint{{Key: "dedicated", Value: "gpu", Effect: corev1.TaintEffectNoSchedule}}
		}
		if n.NotReady {
			taints = append(taints, corev1.Taint{Key: "node.kubernetes.io/not-ready", Effect: corev1.TaintEffectNoExecute})
		}
		c.AddNode(n.Name, l, taints)
	}
	st := edsv1.ExtendedDaemonSetSpecStrategy{}
	man := edsv1.ExtendedDaemonSetSpecStrategyCanaryValidationModeManual
	st.Canary = &edsv1.ExtendedDaemonSetSpecStrategyCanary{Replicas: gen.ParseIntOrPercent(k.Replicas), ValidationMode: man, NodeAntiAffinityKeys: k.Keys}
	if k.Selector {
		// the same node set (zones are a or b, every node has a tier label) in different spellings of the selector
		in := metav1.LabelSelectorRequirement{Key: "zone", Operator: metav1.LabelSelectorOpIn, Values: []string{"a"}}
		notIn := metav1.LabelSelectorRequirement{Key: "zone", Operator: metav1.LabelSelectorOpNotIn, Values: []string{"b"}}
		switch k.SelForm {
		case 1:
			st.Canary.NodeSelector = &metav1.LabelSelector{MatchExpressions: []metav1.LabelSelectorRequirement{in}}
		case 2:
			st.Canary.NodeSelector = &metav1.LabelSelector{MatchExpressions: []metav1.LabelSelectorRequirement{notIn}}
		case 3:
			st.Canary.NodeSelector = &metav1.LabelSelector{MatchExpressions: []metav1.LabelSelectorRequirement{in, {Key: "tier", Operator: metav1.LabelSelectorOpExists}}}
		case 4:
			st.Canary.NodeSelector = &metav1.LabelSelector{MatchExpressions: []metav1.LabelSelectorRequirement{notIn, {Key: "notthere", Operator: metav1.LabelSelectorOpDoesNotExist}}}
		default:
			st.Canary.NodeSelector = &metav1.LabelSelector{MatchLabels: map[string]string{"zone": "a"}}
		}
	}
	// the active template tolerates the taint so that every node is targeted and carries an active pod
	p := &Prep{C: c, NS: "ns1", Name: "foo", RS: map[byte]string{}}
	tplA := letterTpl('A')
	tplA.Spec.Tolerations = []corev1.Toleration{{Key: "dedicated", Operator: corev1.TolerationOpExists}}
	c.Add(&edsv1.ExtendedDaemonSet{ObjectMeta: metav1.ObjectMeta{Namespace: "ns1", Name: "foo"}, Spec: edsv1.ExtendedDaemonSetSpec{Template: tplA, Strategy: st}})
	for i := 0; i < 4; i++ {
		c.Reconcile(sim.ActorEDS, "ns1", "foo")
	}
	e := c.EDS("ns1", "foo")
	if e == nil || e.Status.ActiveReplicaSet == "" {
		return nil, nil, fmt.Errorf("harness: no active replica set")
	}
	active := e.Status.ActiveReplicaSet
	p.RS['A'] = active
	c.Advance(time.Hour)
	for _, n := range k.Nodes {
		pod := p.addPod(n.Name, 'A', PSAvailable, 30*time.Minute)
		if n.Restarts > 0 {
			c.MutatePod(pod.Namespace, pod.Name, func(x *corev1.Pod) {
				x.Status.ContainerStatuses[0].RestartCount = int32(n.Restarts)
				x.Status.ContainerStatuses[0].LastTerminationState = corev1.ContainerState{Terminated: &corev1.ContainerStateTerminated{ExitCode: 1, FinishedAt: metav1.NewTime(c.Now().Add(-10 * time.Minute))}}
			})
		}
		if n.TwoPods {
			p.addPod(n.Name, 'A', PSAvailable, time.Minute) // named (and listed) after the first one
		}
		if n.Foreign > 0 {
			fp := &corev1.Pod{ObjectMeta: metav1.ObjectMeta{Namespace: "ns2", Name: "foo-namesake-" + n.Name, Labels: map[string]string{oracle.LabelEDSName: "foo", oracle.LabelRSName: "foo-zzzzz"}},
				Spec:   corev1.PodSpec{NodeName: n.Name, Containers: []corev1.Container{{Name: "agent", Image: "img:A"}}},
				Status: corev1.PodStatus{Phase: corev1.PodRunning, ContainerStatuses: []corev1.ContainerStatus{{Name: "agent", RestartCount: int32(n.Foreign), Ready: true}}}}
			c.Add(fp)
		}
	}
	nn := int32(len(k.Nodes))
	c.MutateERS("ns1", active, func(rs *edsv1.ExtendedDaemonSetReplicaSet) {
		rs.Status.Desired, rs.Status.Current, rs.Status.Ready, rs.Status.Available = nn, nn, nn, nn
	})
	c.MutateEDS("ns1", "foo", func(x *edsv1.ExtendedDaemonSet) {
		x.Status.Desired, x.Status.Current, x.Status.Ready, x.Status.Available, x.Status.UpToDate = nn, nn, nn, nn, nn
	})
	tplB := c15Template(k)
	_ = c.EditEDS("ns1", "foo", func(x *edsv1.ExtendedDaemonSet) { x.Spec.Template = tplB })
	r0 := c.Reconcile(sim.ActorEDS, "ns1", "foo") // creates the canary replica set
	if r0.Err != nil || r0.Panic != nil {
		return nil, nil, fmt.Errorf("harness: %v %v", r0.Err, r0.Panic)
	}
	var target string
	for _, rs := range c.AllERS() {
		if rs.Name != active {
			target = rs.Name
		}
	}
	if len(k.Prev) > 0 {
		c.MutateEDS("ns1", "foo", func(x *edsv1.ExtendedDaemonSet) {
			x.Status.Canary = &edsv1.ExtendedDaemonSetStatusCanary{ReplicaSet: target, Nodes: append([]string(nil), k.Prev...)}
			if k.PrevOtherRS {
				x.Status.Canary.ReplicaSet = "foo-earliercanary"
			}
		})
	}
	rec := c.Reconcile(sim.ActorEDS, "ns1", "foo")
	vs = mon.Check(rec, mon.Of("no-panic", "canary-list-growth"), nil)
	post := c.EDS("ns1", "foo")

	// ---- reference
	byName := map[string]c15Node{}
	for _, n := range k.Nodes {
		byName[n.Name] = n
	}
	matchesSel := func(n c15Node) bool { return !k.Selector || n.Zone == "a" }
	valid := func(name string) bool {
		n, ok := byName[name]
		if !ok || !matchesSel(n) {
			return false
		}
		node := c.Node(name)
		return node != nil && oracle.Eligible(&tplB, node)
	}
	value := func(n c15Node) string {
		var parts []string
		for _, key := range k.Keys {
			switch key {
			case "rack":
				parts = append(parts, n.Rack)
			case "tier":
				parts = append(parts, n.Tier)
			}
		}
		return strings.Join(parts, "$")
	}
	var K []string
	seenK := map[string]bool{}
	stale, dup := false, false
	for _, name := range k.Prev {
		if seenK[name] {
			dup = true
			continue
		}
		if valid(name) {
			K = append(K, name)
			seenK[name] = true
		} else {
			stale = true
		}
	}
	want, _ := oracle.Resolve(st.Canary.Replicas, len(k.Nodes))
	values := map[string]bool{}
	for _, n := range k.Nodes {
		if matchesSel(n) {
			values[value(n)] = true
		}
	}
	cap := want
	if len(k.Keys) > 0 && len(values) > 0 {
		cap = (want + len(values) - 1) / len(values)
	}
	nValid := 0
	validByValue := map[string]int{}
	kByValue := map[string]int{}
	for _, n := range k.Nodes {
		if valid(n.Name) {
			nValid++
			validByValue[value(n)]++
		}
	}
	for _, name := range K {
		kByValue[value(byName[name])]++
	}
	feasible := 0
	if len(k.Keys) == 0 {
		feasible = nValid
	} else {
		for v, cnt := range validByValue {
			lim := cap
			if kByValue[v] > lim {
				lim = kByValue[v]
			}
			if cnt < lim {
				lim = cnt
			}
			feasible += lim
		}
	}
	if strings.HasSuffix(k.Replicas, "%") {
		classes = append(classes, "percent-replicas")
	}
	if stale {
		classes = append(classes, "stale-entry-in-previous-list")
	}
	if dup {
		classes = append(classes, "duplicate-in-previous-list")
	}
	if len(k.Keys) > 0 && len(values) >= 2 {
		classes = append(classes, "anti-affinity-2+-values")
	}
	distinctRestarts := map[int]bool{}
	for _, n := range k.Nodes {
		distinctRestarts[n.Restarts] = true
	}
	if len(distinctRestarts) > 1 {
		classes = append(classes, "restart-counts-differ")
	}
	for _, n := range k.Nodes {
		if n.TwoPods && n.Restarts > 0 {
			classes = append(classes, "node-with-two-daemon-pods")
			break
		}
	}
	if nValid < want {
		classes = append(classes, "not-enough-valid-nodes")
	}
	add := func(sig, detail string) {
		vs = append(vs, mon.V{Property: "C15", Monitor: "canary-selection", Sig: sig, Detail: detail + "\ncase: " + k.String()})
	}
	if rec.Panic != nil {
		return vs, classes, nil
	}
	var L []string
	if post.Status.Canary != nil {
		L = post.Status.Canary.Nodes
	}
	if rec.Err != nil {
		if !strings.Contains(rec.Err.Error(), "unable to select enough node") {
			return vs, classes, nil
		}
		if feasible >= want && want > 0 {
			add("C15/canary-selection/error-although-enough-valid-nodes", fmt.Sprintf("reconcile reported %q although %d valid nodes exist (%d selectable within the per-value quota %d) for replicas=%s (=%d)", rec.Err, nValid, feasible, cap, k.Replicas, want))
		}
		return vs, classes, nil
	}
	inL := map[string]bool{}
	for _, name := range L {
		if inL[name] {
			add("C15/canary-selection/duplicate", fmt.Sprintf("status.canary.nodes=%v lists %s twice", L, name))
		}
		inL[name] = true
		if !valid(name) {
			why := "ineligible-or-selector-mismatch"
			if _, ok := byName[name]; !ok {
				why = "absent"
			}
			kind := "invalid-node-selected"
			if oracle.Contains(k.Prev, name) {
				kind = "stale-entry-kept" // carried over from the previous list, not chosen by this reconcile
			}
			add("C15/canary-selection/"+kind+"/"+why, fmt.Sprintf("status.canary.nodes=%v lists %s which is not a valid canary node (%s) and no error was reported", L, name, why))
		}
	}
	for _, name := range K {
		if !inL[name] {
			add("C15/canary-selection/valid-previous-node-dropped", fmt.Sprintf("previously selected, still valid node %s missing from %v", name, L))
		}
	}
	if len(L) < want {
		add("C15/canary-selection/fewer-than-replicas-without-error", fmt.Sprintf("replicas=%s resolves to %d of %d targeted nodes but status.canary.nodes=%v and the reconcile reported no error", k.Replicas, want, len(k.Nodes), L))
	}
	bound := want
	if len(k.Prev) > bound {
		bound = len(k.Prev)
	}
	if len(L) > bound {
		add("C15/canary-selection/more-than-replicas", fmt.Sprintf("replicas=%s resolves to %d but status.canary.nodes=%v", k.Replicas, want, L))
	}
	lByValue := map[string]int{}
	for _, name := range L {
		// invalid (stale) entries do not count: they are not canary nodes in any useful sense
		if n, ok := byName[name]; ok && valid(name) {
			lByValue[value(n)]++
		}
	}
	newByValue := map[string]int{}
	for _, name := range L {
		if n, ok := byName[name]; ok && !oracle.Contains(k.Prev, name) {
			newByValue[value(n)]++
		}
	}
	if len(k.Keys) > 0 {
		for v, cnt := range lByValue {
			// only this reconcile's own choices are judged: entries carried over may exceed the quota
			if newByValue[v] > 0 && cnt > cap {
				add("C15/canary-selection/not-spread-over-anti-affinity-values", fmt.Sprintf("value %q of %v holds %d of the selected nodes %v, more than ceil(%d/%d)=%d", v, k.Keys, cnt, L, want, len(values), cap))
			}
		}
	}
	var newly []string
	for _, name := range L {
		if !oracle.Contains(k.Prev, name) {
			newly = append(newly, name)
		}
	}
	sort.Strings(newly)
	for _, l := range newly {
		ln, ok := byName[l]
		if !ok {
			continue
		}
		for _, cn := range k.Nodes {
			if inL[cn.Name] || !valid(cn.Name) || cn.Restarts >= ln.Restarts {
				continue
			}
			if len(k.Keys) > 0 && lByValue[value(cn)] >= cap {
				continue
			}
			add("C15/canary-selection/node-with-more-restarts-preferred", fmt.Sprintf("newly selected %s has %d restarts while valid unselected %s has %d (selected %v, per-value quota %d)", l, ln.Restarts, cn.Name, cn.Restarts, L, cap))
		}
	}
	return vs, classes, nil
}

func TestC15Selection(t *testing.T) {
	rec := evid.New("TestC15Selection", "C15", "node population (0-10 nodes; canary selector label, 1-2 anti-affinity labels, taint, not-ready:NoExecute taint (tolerated by default), restart count of the active pod) x replicas int/percent x canary nodeSelector x anti-affinity keys x new template (tolerates taint / has nodeSelector) x previously selected list (valid, stale, nonexistent; distinct; recorded for this canary replica set or for an earlier one of the same canary), one EDS reconcile; oracle = validity, stability, count, spread and least-restarts preference; non-trivial = percent replicas, or a stale/duplicate previous entry, or >=2 anti-affinity values, or differing restart counts; distinct by case rendering")
	t.Cleanup(func() {
		if !t.Failed() {
			rec.Done()
		}
	})
	rapid.Check(t, func(rt *rapid.T) {
		k := c15Draw(rt)
		vs, classes, err := runC15(k)
		if err != nil {
			rt.Fatalf("%v", err)
		}
		nt := false
		for _, cl := range classes {
			if cl != "not-enough-valid-nodes" {
				nt = true
			}
		}
		rec.Case(nt, evid.FP(k.String()), classes...)
		rec.Steps(1)
		if nt {
			rec.Sample(k)
		}
		settle(rt, rec, vs, map[string]interface{}{"case": k}, len(k.Nodes)+len(k.Prev), "")
	})
}

// TestC15KnownStale is the deterministic reproducer of the recorded finding
// "stale entry kept" (KNOWN_FINDINGS.txt): it must keep failing in exactly that
// way while the finding is open, and anything else it finds is a new violation.
func TestC15KnownStale(t *testing.T) {
	rec := evid.New("TestC15KnownStale", "C15", "fixed reproducers of the recorded stale-entry finding (node deleted / relabelled / tainted after selection)")
	cases := []c15Case{
		{Replicas: "1", Prev: []string{"n00"}},
		{Replicas: "1", Selector: true, Prev: []string{"n00"}, Nodes: []c15Node{{Name: "n00", Zone: "b", Rack: "r1", Tier: "a"}, {Name: "n01", Zone: "a", Rack: "r1", Tier: "a"}}},
		{Replicas: "1", Prev: []string{"n00"}, Nodes: []c15Node{{Name: "n00", Zone: "a", Rack: "r1", Tier: "a", Tainted: true}, {Name: "n01", Zone: "a", Rack: "r1", Tier: "a"}}},
	}
	for _, k := range cases {
		vs, _, err := runC15(k)
		if err != nil {
			t.Fatal(err)
		}
		rec.Case(true, evid.FP(k.String()), "known-finding-reproducer")
		rec.Sample(k)
		settle(t, rec, vs, map[string]interface{}{"case": k}, 1, "")
	}
	rec.Done()
}

// TestC15KnownPercentInflated: deterministic reproducer of the recorded finding
// "percent base inflated": the canary replica set syncs before the active one.
func TestC15KnownPercentInflated(t *testing.T) {
	rec := evid.New("TestC15KnownPercentInflated", "C15", "fixed reproducer of the recorded finding: 4 nodes, replicas 50%, canary set synced before the active set")
	w := &World{rec: rec, cfg: WorldCfg{Monitors: mon.Of("canary-list-growth", "no-panic"), Property: "C15"}, H: mon.NewHistory(), RSSeen: map[string]bool{}, RolesSynced: map[string]bool{}, Facts: map[string]int{}, lastSyncAt: map[string]time.Time{}, Det: true}
	var viol []mon.V
	w.OnViolation = func(vs []mon.V) { viol = append(viol, vs...) }
	w.C = sim.New(sim.Options{})
	for i := 1; i <= 4; i++ {
		w.C.AddNode(fmt.Sprintf("n%d", i), map[string]string{"zone": "a"}, nil)
	}
	st := edsv1.ExtendedDaemonSetSpecStrategy{Canary: &edsv1.ExtendedDaemonSetSpecStrategyCanary{Replicas: gen.ParseIntOrPercent("50%"), ValidationMode: edsv1.ExtendedDaemonSetSpecStrategyCanaryValidationModeManual}}
	st.RollingUpdate.SlowStartAdditiveIncrease = gen.ParseIntOrPercent("10")
	w.C.Add(&edsv1.ExtendedDaemonSet{ObjectMeta: metav1.ObjectMeta{Namespace: "ns1", Name: "foo"}, Spec: edsv1.ExtendedDaemonSetSpec{Template: letterTpl('A'), Strategy: st}})
	k := sim.KeyOf("ns1", "foo")
	w.EDS = append(w.EDS, k)
	for i := 0; i < 6; i++ {
		w.fairRound("deploy")
	}
	w.editTemplate(k, 'B')
	w.reconcile(sim.ActorEDS, "ns1", "foo") // creates the replica set for B
	w.reconcile(sim.ActorEDS, "ns1", "foo") // selects 50% of 4 = 2 canary nodes
	e := w.C.EDS("ns1", "foo")
	if e.Status.Canary == nil || len(e.Status.Canary.Nodes) != 2 {
		t.Fatalf("harness: expected two canary nodes, got %+v", e.Status.Canary)
	}
	w.C.Advance(11 * time.Second)
	w.reconcile(sim.ActorERS, "ns1", e.Status.Canary.ReplicaSet) // canary set first: desired=2 while the active set still says 4
	w.reconcile(sim.ActorEDS, "ns1", "foo")                      // status.desired = 4 + 2
	w.reconcile(sim.ActorEDS, "ns1", "foo")                      // 50% of 6 = 3: a third node is selected
	rec.Case(true, w.fp(), "known-finding-reproducer")
	rec.Sample(w.sampleTrace(40))
	settle(t, rec, viol, map[string]interface{}{"trace": w.C.Trace}, len(w.C.Trace), strings.Join(w.C.Trace, "\n"))
	rec.Extra("canary_nodes_after", w.C.EDS("ns1", "foo").Status.Canary.Nodes)
	rec.Done()
}
