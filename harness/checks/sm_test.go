package checks

import (
	"fmt"
	"sort"
	"strings"
	"testing"
	"time"

	corev1 "k8s.io/api/core/v1"
	apiequality "k8s.io/apimachinery/pkg/api/equality"
	metav1 "k8s.io/apimachinery/pkg/apis/meta/v1"
	"k8s.io/apimachinery/pkg/types"
	"pgregory.net/rapid"

	edsv1 "github.com/DataDog/extendeddaemonset/api/v1alpha1"
	"verifharness/evid"
	"verifharness/gen"
	"verifharness/mon"
	"verifharness/oracle"
	"verifharness/sim"
)

// smSpec is one family of generated histories with its monitors and its non-triviality rule.
type smSpec struct {
	Name       string
	Prop       string
	Rule       string
	Cfg        WorldCfg
	MinSteps   int
	MaxSteps   int
	Setup      func(w *World)
	After      func(w *World) // runs after the generated steps (stabilisation, final checks)
	NonTrivial func(w *World) bool
}

func weights(base map[string]int, over map[string]int) map[string]int {
	out := map[string]int{}
	for k, v := range base {
		out[k] = v
	}
	for k, v := range over {
		out[k] = v
	}
	return out
}

func runSM(t *testing.T, spec smSpec) {
	rec := evid.New(spec.Name, spec.Prop, spec.Rule)
	t.Cleanup(func() {
		if !t.Failed() {
			rec.Done()
		}
	})
	rapid.Check(t, func(rt *rapid.T) {
		cfg := spec.Cfg
		cfg.Property = spec.Prop
		w := newWorld(rt, rec, cfg)
		if spec.Setup != nil {
			spec.Setup(w)
		}
		maxSteps := spec.MaxSteps
		if thorough() {
			maxSteps *= 2
		}
		n := rapid.IntRange(spec.MinSteps, maxSteps).Draw(rt, "steps")
		for i := 0; i < n; i++ {
			w.step()
		}
		if spec.After != nil {
			spec.After(w)
		}
		nt := spec.NonTrivial(w)
		var classes []string
		for f := range w.Facts {
			classes = append(classes, f)
		}
		sort.Strings(classes)
		if w.TemplateEdits > 0 {
			classes = append(classes, "template-edited")
		}
		if w.NodeChurn > 0 {
			classes = append(classes, "node-churn")
		}
		if len(w.RSSeen) >= 2 {
			classes = append(classes, "2+-replica-sets-synced")
		}
		if w.C.Opts.AffinityMode {
			classes = append(classes, "affinity-mode")
		}
		if nt {
			classes = append(classes, "NONTRIVIAL")
		}
		rec.Case(nt, w.fp(), classes...)
		if nt && rec.WantSample() {
			rec.Sample(w.sampleTrace(40))
		}
	})
}

// ---------------------------------------------------------------- C01

func TestC01SM(t *testing.T) {
	runSM(t, smSpec{
		Name: "TestC01SM", Prop: "C01",
		Rule: "history of 10-45 generated actions (reconciles of the EDS and of each replica set in any order, kubelet/scheduler steps, pod failures incl. Failed/Unknown phases, duplicate pods, node add/remove/relabel/taint, template edits incl. eligibility-changing templates, canary strategy) over 1-6 nodes, every replica-set sync also run on store forks; monitors create-eligible, create-once, dup-resolution, ineligible-cleanup, unknown-untouched; non-trivial = at least two replica sets synced against the store and a sync read a node with several pods, a pod on an absent/unfit node, or a Failed/Unknown pod; distinct by action trace",
		Cfg: WorldCfg{MinNodes: 1, MaxNodes: 6, Letters: "ABDEFGH", Strategy: gen.StrategyOpts{Canary: 1}, Forks: 2, Affinity: 2, Warmup: 5, StartEdit: 1,
			Monitors: mon.Of("create-eligible", "create-once", "dup-resolution", "ineligible-cleanup", "unknown-untouched", "no-panic"),
			Weights:  weights(defaultWeights(), map[string]int{"pod-dup": 3, "pod-failed": 2, "pod-unknown": 2, "node-relabel": 2, "node-taint": 2, "node-remove": 2, "annotation": 1, "node-annotate": 2, "edit-strategy": 2})},
		MinSteps: 15, MaxSteps: 70,
		NonTrivial: func(w *World) bool {
			f := w.Facts
			return len(w.RSSeen) >= 2 && (f["node-with-2+-pods"] > 0 || f["pod-on-absent-node"] > 0 || f["pod-on-unfit-node"] > 0 || f["unknown-pod"] > 0 || f["failed-pod"] > 0)
		},
	})
}

// ---------------------------------------------------------------- C04

func TestC04SM(t *testing.T) {
	runSM(t, smSpec{
		Name: "TestC04SM", Prop: "C04",
		Rule: "history biased to canaries: canary strategy always present (replicas int or percent), template edits incl. a second edit while a canary runs and eligibility-changing templates, node churn, pause/unpause/valid annotations, every interleaving of the EDS reconcile with active/canary/leftover syncs (each also on store forks); monitors canary-confinement, canary-list-growth, canary-label; non-trivial = canary-role syncs >= 3, >= 2 different replica sets synced and >= 1 pod created while status.canary was set; distinct by action trace",
		Cfg: WorldCfg{MinNodes: 2, MaxNodes: 6, Letters: "ABCDEFGH", Strategy: gen.StrategyOpts{Canary: 2}, Forks: 2, Affinity: 2, Warmup: 5, StartEdit: 2,
			Monitors: mon.Of("canary-confinement", "canary-list-growth", "canary-label", "canary-verdict", "no-panic"),
			Weights:  weights(defaultWeights(), map[string]int{"edit-template": 4, "round": 6, "rec-ers": 12, "canary-valid": 1, "pod-dup": 1, "edit-strategy": 2})},
		MinSteps: 15, MaxSteps: 70,
		NonTrivial: func(w *World) bool { return w.CanarySyncs >= 3 && len(w.RSSeen) >= 2 && w.CanaryCreates >= 1 },
	})
}

// ---------------------------------------------------------------- C08

func TestC08SM(t *testing.T) {
	runSM(t, smSpec{
		Name: "TestC08SM", Prop: "C08",
		Rule: "history in which the four annotations (rolling-update-paused, rollout-frozen, canary-paused, canary-unpaused) are set, flipped and removed (values true/false/absent/garbage) over rollouts in progress (outdated pods - by a new template or by a node's resources override annotation -, missing, unavailable pods, joining nodes, with or without canary); monitors paused-frozen, promotion-rule and the status function (state/reason); then the annotations are removed and the history must converge (resume); non-trivial = an annotation was true during a sync that read work to do (outdated or missing pods); distinct by action trace",
		Cfg: WorldCfg{MinNodes: 2, MaxNodes: 6, Letters: "ABC", Strategy: gen.StrategyOpts{Canary: 1}, Forks: 1, Affinity: 2, PlainNodes: true, Warmup: 5, StartEdit: 1,
			Monitors: mon.Of("paused-frozen", "promotion-rule", "status-function", "canary-verdict", "condition-clock", "canary-latch", "no-panic"),
			Weights:  weights(defaultWeights(), map[string]int{"annotation": 8, "edit-template": 4, "node-add": 3, "round": 6, "pod-unknown": 0, "node-taint": 0, "node-relabel": 0, "node-annotate": 3})},
		MinSteps: 15, MaxSteps: 60,
		After: func(w *World) { w.stabilise("resume") },
		NonTrivial: func(w *World) bool {
			f := w.Facts
			return f["paused-with-outdated-pods"]+f["frozen-with-work"]+f["paused-with-missing-pods"]+f["canary-paused-with-missing-pods"] > 0
		},
	})
}

// ---------------------------------------------------------------- C09

func TestC09SM(t *testing.T) {
	runSM(t, smSpec{
		Name: "TestC09SM", Prop: "C09",
		Rule: "history with reconcile requests arriving at generated instants (sub-second to minutes apart) over 2-8 nodes with node additions and template edits; monitor rate (creates per sync <= slow-start bound; write-issuing syncs of one replica set >= reconcileFrequency-1s apart when the first status write succeeded) and budget; non-trivial = a sync read more missing pods than the bound allows (cap binding) or a sync request arrived less than reconcileFrequency after the previous one; distinct by action trace",
		Cfg: WorldCfg{MinNodes: 2, MaxNodes: 8, Letters: "AB", Strategy: gen.StrategyOpts{Canary: 0}, Forks: 1, Affinity: 2, PlainNodes: true, Warmup: 2,
			Monitors: mon.Of("rate", "budget", "condition-clock", "no-panic"),
			Weights:  map[string]int{"rec-eds": 6, "rec-ers": 20, "advance": 12, "kubelet": 5, "pod-start": 2, "edit-template": 2, "node-add": 3, "round": 2, "pod-finalize": 2, "pod-unready": 1, "annotation": 2, "edit-strategy": 1}},
		MinSteps: 15, MaxSteps: 70,
		NonTrivial: func(w *World) bool { return w.Facts["creation-cap-binding"] > 0 || w.CloseSyncs > 0 },
	})
}

// ---------------------------------------------------------------- C12

func addForeign(w *World) {
	// unrelated pods whose labels overlap: the EDS name label in a namespace without that EDS,
	// and unlabelled pods in the EDS's own namespace; plus a namesake DaemonSet elsewhere
	nodes := w.C.Nodes()
	for i, n := range nodes {
		if i > 2 {
			break
		}
		p := &corev1.Pod{ObjectMeta: metav1.ObjectMeta{Namespace: "ns3", Name: fmt.Sprintf("foreign-%d", i), Labels: map[string]string{oracle.LabelEDSName: "foo", oracle.LabelRSName: "foo-zzzzz", oracle.LabelCanary: "true"}},
			Spec: corev1.PodSpec{NodeName: n.Name, Containers: []corev1.Container{{Name: "x", Image: "x"}}}, Status: corev1.PodStatus{Phase: corev1.PodRunning}}
		w.C.Add(p)
		q := &corev1.Pod{ObjectMeta: metav1.ObjectMeta{Namespace: "ns1", Name: fmt.Sprintf("unrelated-%d", i), Labels: map[string]string{"app": "agent"}},
			Spec: corev1.PodSpec{NodeName: n.Name, Containers: []corev1.Container{{Name: "x", Image: "x"}}}, Status: corev1.PodStatus{Phase: corev1.PodRunning}}
		w.C.Add(q)
	}
	w.C.Tracef("foreign pods added: ns3/foreign-* (carry the name label of foo), ns1/unrelated-*")
}

func TestC12SM(t *testing.T) {
	runSM(t, smSpec{
		Name: "TestC12SM", Prop: "C12",
		Rule: "population of two ExtendedDaemonSets (same name in another namespace, or another name in the same namespace; own templates and strategies) plus foreign pods carrying a matching name label in a third namespace and unlabelled pods in the EDS namespace; optionally a declared migration from an old DaemonSet (own pods of that DaemonSet next to pods with the same labels owned by another DaemonSet or by nobody, and a namesake DaemonSet in another namespace); all reconciles interleaved through rollouts and canaries; monitor ownership (every write of a reconcile targets the reconciling EDS's own objects; active/canary replica set is an own one) and, at the end, status counters = own pods only; non-trivial = both EDS were reconciled and >= 2 replica sets synced; distinct by action trace",
		Cfg: WorldCfg{MinNodes: 2, MaxNodes: 5, Letters: "ABC", Strategy: gen.StrategyOpts{Canary: 1}, Forks: 0, Affinity: 2, PlainNodes: true, TwoEDS: true, Migration: true, Warmup: 4, StartEdit: 1,
			Monitors: mon.Of("ownership", "no-panic"),
			Weights:  weights(defaultWeights(), map[string]int{"round": 6, "edit-template": 4, "migration-toggle": 2})},
		MinSteps: 12, MaxSteps: 60,
		Setup: addForeign,
		After: func(w *World) {
			w.stabilise("own-counters")
			for _, k := range w.EDS {
				e := w.C.EDS(k.Namespace, k.Name)
				own := 0
				for _, p := range w.C.Pods() {
					if p.Namespace == k.Namespace && p.Labels[oracle.LabelEDSName] == k.Name {
						own++
					}
				}
				if e != nil && int(e.Status.Current) != own {
					w.fail([]mon.V{{Property: "C12", Monitor: "own-counters", Sig: "C12/own-counters/current-differs-from-own-pods", Detail: fmt.Sprintf("%s/%s reports current=%d at quiescence but owns %d pods", k.Namespace, k.Name, e.Status.Current, own)}})
				}
			}
			for _, p := range w.C.Pods() {
				if strings.HasPrefix(p.Name, "foreign-") && p.Labels[oracle.LabelCanary] != "true" {
					w.fail([]mon.V{{Property: "C12", Monitor: "ownership", Sig: "C12/ownership/foreign-pod-relabelled", Detail: "foreign pod " + p.Name + " lost its label"}})
				}
			}
			// no controller call ever wrote to a foreign / unrelated pod (the environment itself may remove them:
			// pod GC of Unknown pods, user deletions)
			for _, call := range w.C.Calls {
				if call.Write && call.Kind == "Pod" && call.Actor != "plugin" && (strings.HasPrefix(call.Name, "foreign-") || strings.HasPrefix(call.Name, "unrelated-")) {
					w.fail([]mon.V{{Property: "C12", Monitor: "ownership", Sig: "C12/ownership/foreign-pod-written", Detail: fmt.Sprintf("controller call %s touched a pod that does not belong to any ExtendedDaemonSet of the world", call.String())}})
				}
			}
		},
		NonTrivial: func(w *World) bool { return len(w.RSSeen) >= 2 },
	})
}

// ---------------------------------------------------------------- C13

func TestC13SM(t *testing.T) {
	runSM(t, smSpec{
		Name: "TestC13SM", Prop: "C13",
		Rule: "history over template-edit words on the alphabet A,B,C (A->B->A, A->B->C, edits during a canary), edits of the ExtendedDaemonSet's own metadata.labels, with every interleaving of EDS, replica-set and PodTemplate reconciles and pod/kubelet steps that shape replica-set statuses at clean-up time; monitors rs-identity (one replica set per template, template/hash triple, pod hash = creator's) and rs-gc (never the active or matching set, only all-zero status, failed canary kept two minutes), plus PodTemplate = spec.template after each PodTemplate reconcile; non-trivial = the word revisits a letter or has >= 3 edits; distinct by action trace",
		Cfg: WorldCfg{MinNodes: 1, MaxNodes: 4, Letters: "ABCIJ", Strategy: gen.StrategyOpts{Canary: 1}, Forks: 0, Affinity: 2, PlainNodes: true, Warmup: 4, StartEdit: 1,
			Monitors: mon.Of("rs-identity", "rs-gc", "no-panic"),
			Weights:  weights(defaultWeights(), map[string]int{"edit-template": 8, "rec-eds": 12, "rec-pt": 5, "round": 5, "node-taint": 0, "node-relabel": 0, "eds-relabel": 3, "ers-protect": 3, "ers-release": 1})},
		MinSteps: 15, MaxSteps: 70,
		After: func(w *World) {
			for _, k := range w.EDS {
				r := w.reconcile(sim.ActorPodTemplate, k.Namespace, k.Name)
				e := w.C.EDS(k.Namespace, k.Name)
				if r.Err != nil || e == nil {
					continue
				}
				var pt *corev1.PodTemplate
				for _, x := range r.Post.PodTemplates {
					if x.Namespace == k.Namespace && x.Name == k.Name {
						pt = x
					}
				}
				if pt == nil {
					w.fail([]mon.V{{Property: "C13", Monitor: "podtemplate", Sig: "C13/podtemplate/missing", Detail: "no PodTemplate after its reconcile"}})
				} else if !apiequality.Semantic.DeepEqual(pt.Template, e.Spec.Template) || pt.Annotations[oracle.AnnTemplateHash] != oracle.TemplateHash(&e.Spec.Template) {
					w.fail([]mon.V{{Property: "C13", Monitor: "podtemplate", Sig: "C13/podtemplate/differs-from-spec", Detail: fmt.Sprintf("PodTemplate %s/%s differs from spec.template or its hash (%s vs %s) after its reconcile", k.Namespace, k.Name, pt.Annotations[oracle.AnnTemplateHash], oracle.TemplateHash(&e.Spec.Template))}})
				}
			}
		},
		NonTrivial: func(w *World) bool {
			seen := map[byte]int{}
			revisit := false
			for i, l := range w.LettersSeen {
				if j, ok := seen[l]; ok && i-j > 1 {
					revisit = true
				}
				seen[l] = i
			}
			return revisit || w.TemplateEdits >= 3
		},
	})
}

// ---------------------------------------------------------------- C14

func TestC14SM(t *testing.T) {
	runSM(t, smSpec{
		Name: "TestC14SM", Prop: "C14",
		Rule: "general history (rollouts, canaries, pause/freeze annotations, pod failures, node churn) with monitors status-function (EDS status = documented function of the replica-set statuses read) and rs-status-order after every reconcile, then stabilisation and the quiescent check desired = #eligible nodes, current = #daemon pods, ready = available = #Ready pods, upToDate = #pods of the live template; non-trivial = >= 2 replica sets were synced or an annotation/canary fact changed state; distinct by action trace",
		Cfg: WorldCfg{MinNodes: 1, MaxNodes: 6, Letters: "ABCDG", Strategy: gen.StrategyOpts{Canary: 1}, Forks: 0, Affinity: 2, Warmup: 5, StartEdit: 1,
			Monitors: mon.Of("status-function", "rs-status-order", "no-panic"),
			Weights:  weights(defaultWeights(), map[string]int{"round": 6, "annotation": 4})},
		MinSteps: 12, MaxSteps: 60,
		After:      func(w *World) { w.stabilise("quiescent-status") },
		NonTrivial: func(w *World) bool { return len(w.RSSeen) >= 2 || w.AnnotFlips > 0 },
	})
}

// ---------------------------------------------------------------- C15

func TestC15SM(t *testing.T) {
	runSM(t, smSpec{
		Name: "TestC15SM", Prop: "C15",
		Rule: "history with a canary strategy (replicas int or percent) and node deletion, relabelling and tainting while the canary runs; monitors canary-nodes-valid and canary-list-growth after every EDS reconcile; non-trivial = a canary was in progress during >= 2 EDS reconciles and node churn happened; distinct by action trace",
		Cfg: WorldCfg{MinNodes: 2, MaxNodes: 7, Letters: "ABDGH", Strategy: gen.StrategyOpts{Canary: 2}, Forks: 0, Affinity: 2, Warmup: 4, StartEdit: 2,
			Monitors: mon.Of("canary-nodes-valid", "canary-list-growth", "no-panic"),
			Weights:  weights(defaultWeights(), map[string]int{"rec-eds": 14, "node-remove": 3, "node-relabel": 3, "node-taint": 3, "node-add": 2, "edit-template": 4, "edit-strategy": 3})},
		MinSteps: 12, MaxSteps: 60,
		NonTrivial: func(w *World) bool { return w.CanarySyncs >= 1 && w.NodeChurn > 0 },
	})
}

// ---------------------------------------------------------------- C02 (and the resume half of C08, the quiescent half of C14)

func TestC02SM(t *testing.T) {
	runSM(t, smSpec{
		Name: "TestC02SM", Prop: "C02",
		Rule: "history of 5-40 generated actions (template edits incl. several in a row and eligibility-changing templates, annotation flips, node add/remove/relabel/taint, resource-override annotations on nodes (own, foreign, malformed), ExtendedDaemonsetSettings appearing/changing/disappearing, pod restarts/failures/duplicates, partial rollouts because reconciles are individually scheduled, controller restarts) over 1-6 nodes and a strategy of the convergent sub-lattice with or without canary, followed by a stabilisation phase (annotations removed, a canary in progress resolved by validation, failure or waiting, API calls succeed, kubelet makes pods Ready, fair rounds in generated orders); oracle: within Rmax rounds a round issues no pod create/delete, every node eligible for the live template holds exactly one Ready pod with the live hash, no other daemon pod remains, the active set matches spec.template, and three further rounds issue nothing; non-trivial = a template change or node churn happened and stabilisation needed at least one pod create/delete; distinct by action trace",
		Cfg: WorldCfg{MinNodes: 1, MaxNodes: 6, Letters: "ABCDG", Strategy: gen.StrategyOpts{Canary: 1, FastRamp: true}, Forks: 0, Affinity: 2, Warmup: 5, StartEdit: 1,
			Monitors: mon.Of("no-panic"),
			Weights:  weights(defaultWeights(), map[string]int{"pod-dup": 1, "edit-template": 5, "round": 5, "canary-valid": 1, "node-annotate": 2, "setting-toggle": 2})},
		MinSteps: 5, MaxSteps: 40,
		After: func(w *World) { w.stabilise("converge") },
		NonTrivial: func(w *World) bool {
			return (w.TemplateEdits > 0 || w.NodeChurn > 0) && w.Facts["stabilisation-work"] > 0
		},
	})
}

// stabilise establishes the premises of C02 and checks convergence and the quiescent facts.
func (w *World) stabilise(label string) {
	w.C.Tracef("== stabilise (%s)", label)
	w.releaseReplicaSets()
	w.C.Faults = nil
	w.C.RestartControllers()
	for _, k := range w.EDS {
		id := k.Namespace + "/" + k.Name
		_ = w.C.EditEDS(k.Namespace, k.Name, func(e *edsv1.ExtendedDaemonSet) {
			for _, a := range annotationKeys {
				// the user takes back the pauses they asked for. A canary pause or unpause written before a reconcile
				// that found no canary in progress is not theirs to remove: the controller removes the canary
				// annotations when a canary is over, and the user relies on that
				if at, ok := w.annSetAt[id+"/"+a]; ok && (a == oracle.AnnCanaryPaused || a == oracle.AnnCanaryUnpaused) && at < w.idleSeq[id] {
					if _, there := e.Annotations[a]; there {
						w.C.Tracef("annotation %s=%s predates the end of the last canary: left to the controller", a, e.Annotations[a])
						w.Facts["stale-canary-annotation-left"]++
					}
					continue
				}
				delete(e.Annotations, a)
			}
			if _, kept := e.Annotations[oracle.AnnCanaryPaused]; !kept {
				delete(e.Annotations, oracle.AnnCanaryReason)
			}
		})
	}
	w.C.Tracef("pause/freeze annotations removed")
	// pod GC: pods in phase Unknown belong to lost nodes and are removed by the cluster, not by the controller
	for _, p := range w.C.Pods() {
		if p.Status.Phase == corev1.PodUnknown {
			w.C.ForceRemovePod(p.Namespace, p.Name)
		}
	}
	how := rapid.SampledFrom([]string{"validate", "fail", "wait"}).Draw(w.rt, "resolveCanaryBy")
	nodes := len(w.C.Nodes())
	rmax := 60 + 8*nodes
	quiet := 0
	work := 0
	for round := 1; ; round++ {
		if round > rmax {
			w.fail([]mon.V{{Property: "C02", Monitor: "convergence", Sig: "C02/convergence/no-fixpoint-within-bound", Detail: fmt.Sprintf("no quiet round within %d fair rounds after stabilisation (canary resolution: %s): %s", rmax, how, w.describe())}})
		}
		for _, k := range w.EDS {
			w.resolveCanary(k, how, round)
		}
		if round == 12 || round == 30 {
			// let any failed-pod back-off (max 15 min) and the 2-minute retention of failed canaries expire
			w.C.Advance(16 * time.Minute)
		}
		c, d := w.fairRound(fmt.Sprintf("stabilise %d", round))
		work += c + d
		if c+d > 0 {
			quiet = 0
			continue
		}
		if msg := w.fixpointOK(); msg != "" {
			quiet = 0
			if round == rmax {
				w.fail([]mon.V{{Property: "C02", Monitor: "convergence", Sig: "C02/convergence/quiet-but-not-converged", Detail: fmt.Sprintf("after %d rounds no pod is created or deleted any more but %s (canary resolution: %s); %s", round, msg, how, w.describe())}})
			}
			continue
		}
		quiet++
		if quiet >= 4 {
			break
		}
	}
	if work > 0 {
		w.Facts["stabilisation-work"]++
	}
	w.rec.Class(fmt.Sprintf("stabilised-by-%s", how), 1)
	// quiescent status facts (C14): counters equal what exists
	for _, k := range w.EDS {
		e := w.C.EDS(k.Namespace, k.Name)
		rs := w.C.ERS(k.Namespace, e.Status.ActiveReplicaSet)
		if rs == nil {
			continue
		}
		eligible, pods, ready, live := 0, 0, 0, 0
		for _, n := range w.C.Nodes() {
			if oracle.Eligible(&rs.Spec.Template, n) {
				eligible++
			}
		}
		for _, p := range w.C.Pods() {
			if p.Namespace != k.Namespace || p.Labels[oracle.LabelEDSName] != k.Name {
				continue
			}
			pods++
			if oracle.IsReady(p) {
				ready++
			}
			if p.Annotations[oracle.AnnTemplateHash] == rs.Spec.TemplateGeneration {
				live++
			}
		}
		s := e.Status
		if int(s.Desired) != eligible || int(s.Current) != pods || int(s.Ready) != ready || int(s.Available) != ready || int(s.UpToDate) != live {
			w.fail([]mon.V{{Property: "C14", Monitor: "quiescent-status", Sig: "C14/quiescent-status", Detail: fmt.Sprintf("%s/%s at quiescence: status desired=%d current=%d ready=%d available=%d upToDate=%d; cluster has %d eligible nodes, %d daemon pods, %d Ready, %d of the live template", k.Namespace, k.Name, s.Desired, s.Current, s.Ready, s.Available, s.UpToDate, eligible, pods, ready, live)}})
		}
		if s.Canary != nil {
			w.fail([]mon.V{{Property: "C02", Monitor: "convergence", Sig: "C02/convergence/canary-still-set-at-fixpoint", Detail: fmt.Sprintf("%s/%s converged but status.canary=%+v", k.Namespace, k.Name, *s.Canary)}})
		}
	}
}

// resolveCanary ends a canary in progress in the generated way.
func (w *World) resolveCanary(k types.NamespacedName, how string, round int) {
	e := w.C.EDS(k.Namespace, k.Name)
	if e == nil || e.Spec.Strategy.Canary == nil {
		return
	}
	// a canary is in progress when the replica set matching spec.template is not the active one
	// (status.canary may still be unset, e.g. while the reconcile reports "not enough nodes")
	crs := ""
	for _, rs := range w.rsOf(k) {
		if oracle.RSMatchesTemplate(rs, &e.Spec.Template) && rs.Name != e.Status.ActiveReplicaSet {
			crs = rs.Name
		}
	}
	if crs == "" {
		return
	}
	manual := e.Spec.Strategy.Canary.ValidationMode == edsv1.ExtendedDaemonSetSpecStrategyCanaryValidationModeManual
	if how == "wait" && manual {
		how = "validate"
	}
	switch how {
	case "validate":
		if e.Annotations[oracle.AnnCanaryValid] != crs {
			_ = w.C.SetEDSAnnotation(k.Namespace, k.Name, oracle.AnnCanaryValid, crs)
		}
	case "fail":
		rs := w.C.ERS(k.Namespace, crs)
		if rs != nil && !oracle.RSCondTrue(&rs.Status, edsv1.ConditionTypeCanaryFailed) {
			w.C.Tracef("user fails canary %s", crs)
			w.C.MutateERS(k.Namespace, crs, func(rs *edsv1.ExtendedDaemonSetReplicaSet) {
				now := metav1.NewTime(w.C.Now())
				if c := oracle.RSCond(&rs.Status, edsv1.ConditionTypeCanaryFailed); c != nil {
					c.Status, c.LastTransitionTime, c.LastUpdateTime, c.Reason = corev1.ConditionTrue, now, now, "Manually failed"
				} else {
					rs.Status.Conditions = append(rs.Status.Conditions, edsv1.ExtendedDaemonSetReplicaSetCondition{Type: edsv1.ConditionTypeCanaryFailed, Status: corev1.ConditionTrue, LastTransitionTime: now, LastUpdateTime: now, Reason: "Manually failed"})
				}
			})
		}
	case "wait":
		// a canary that cannot even start (fewer valid nodes than replicas: the reconcile reports an error, C15)
		// does not get anywhere by waiting: after a while the user validates the new version instead
		// (status.canary may also still name the replica set of an earlier canary: the reconcile fails before it writes)
		if (e.Status.Canary == nil || e.Status.Canary.ReplicaSet != crs) && round > 15 {
			if e.Annotations[oracle.AnnCanaryValid] != crs {
				w.C.Tracef("the canary has not started after %d rounds: the user validates %s", round, crs)
				_ = w.C.SetEDSAnnotation(k.Namespace, k.Name, oracle.AnnCanaryValid, crs)
			}
			return
		}
		// auto mode: the duration and the no-restart window elapse; an auto-paused canary needs the user (unpause)
		if round%5 == 1 {
			w.C.Advance(e.Spec.Strategy.Canary.Duration.Duration + 6*time.Minute)
		}
		rs := w.C.ERS(k.Namespace, crs)
		if rs != nil && oracle.RSCondTrue(&rs.Status, edsv1.ConditionTypeCanaryPaused) && e.Annotations[oracle.AnnCanaryUnpaused] != "true" {
			_ = w.C.SetEDSAnnotation(k.Namespace, k.Name, oracle.AnnCanaryUnpaused, "true")
		}
		if rs != nil && oracle.RSCondTrue(&rs.Status, edsv1.ConditionTypeCanaryFailed) {
			return
		}
	}
}

// fixpointOK returns "" when every EDS satisfies the fixpoint predicate of C02.
func (w *World) fixpointOK() string {
	for _, k := range w.EDS {
		e := w.C.EDS(k.Namespace, k.Name)
		if e == nil {
			continue
		}
		rs := w.C.ERS(k.Namespace, e.Status.ActiveReplicaSet)
		if rs == nil {
			return fmt.Sprintf("%s/%s has no active replica set", k.Namespace, k.Name)
		}
		if !oracle.RSMatchesTemplate(rs, &e.Spec.Template) {
			return fmt.Sprintf("%s/%s: the active replica set %s does not match spec.template", k.Namespace, k.Name, rs.Name)
		}
		byNode := map[string][]*corev1.Pod{}
		for _, p := range w.C.Pods() {
			if p.Namespace == k.Namespace && p.Labels[oracle.LabelEDSName] == k.Name {
				byNode[oracle.NodeOf(p)] = append(byNode[oracle.NodeOf(p)], p)
			}
		}
		for _, n := range w.C.Nodes() {
			pods := byNode[n.Name]
			delete(byNode, n.Name)
			if !oracle.Eligible(&rs.Spec.Template, n) {
				if len(pods) > 0 {
					return fmt.Sprintf("%s/%s: ineligible node %s still holds %d daemon pods", k.Namespace, k.Name, n.Name, len(pods))
				}
				continue
			}
			if len(pods) != 1 {
				return fmt.Sprintf("%s/%s: eligible node %s holds %d daemon pods", k.Namespace, k.Name, n.Name, len(pods))
			}
			p := pods[0]
			if !oracle.IsReady(p) || p.DeletionTimestamp != nil {
				return fmt.Sprintf("%s/%s: pod %s on %s is not Ready", k.Namespace, k.Name, p.Name, n.Name)
			}
			if p.Annotations[oracle.AnnTemplateHash] != rs.Spec.TemplateGeneration {
				return fmt.Sprintf("%s/%s: pod %s on %s is not built from the live template", k.Namespace, k.Name, p.Name, n.Name)
			}
		}
		for node, pods := range byNode {
			return fmt.Sprintf("%s/%s: %d daemon pods remain on absent node %q", k.Namespace, k.Name, len(pods), node)
		}
	}
	return ""
}

func (w *World) describe() string {
	var b strings.Builder
	for _, k := range w.EDS {
		e := w.C.EDS(k.Namespace, k.Name)
		if e == nil {
			continue
		}
		fmt.Fprintf(&b, "[%s/%s state=%s active=%s canary=%v desired=%d current=%d ready=%d upToDate=%d annotations=%v", k.Namespace, k.Name, e.Status.State, e.Status.ActiveReplicaSet, e.Status.Canary, e.Status.Desired, e.Status.Current, e.Status.Ready, e.Status.UpToDate, e.Annotations)
		for _, rs := range w.rsOf(k) {
			fmt.Fprintf(&b, " rs %s{%s d=%d c=%d r=%d}", rs.Name, rs.Status.Status, rs.Status.Desired, rs.Status.Current, rs.Status.Ready)
		}
		b.WriteString("] ")
	}
	for _, p := range w.C.Pods() {
		fmt.Fprintf(&b, "pod %s/%s@%s phase=%s ready=%v term=%v; ", p.Namespace, p.Name, oracle.NodeOf(p), p.Status.Phase, oracle.IsReady(p), p.DeletionTimestamp != nil)
	}
	if msg := w.fixpointOK(); msg != "" {
		b.WriteString("not a fixpoint: " + msg)
	}
	return b.String()
}
