package checks

import (
	"fmt"
	"strings"
	"testing"
	"time"

	corev1 "k8s.io/api/core/v1"
	apiequality "k8s.io/apimachinery/pkg/api/equality"
	metav1 "k8s.io/apimachinery/pkg/apis/meta/v1"
	"pgregory.net/rapid"

	edsv1 "github.com/DataDog/extendeddaemonset/api/v1alpha1"
	"verifharness/evid"
	"verifharness/gen"
	"verifharness/mon"
	"verifharness/oracle"
	"verifharness/sim"
)

type c07Cfg struct {
	Nodes      int
	Replicas   string
	Affinity   bool
	FailBy     string // command, restarts, timeout
	Paused     bool   // canary paused by annotation when it fails
	AfterDur   bool   // the canary duration has elapsed when it fails (auto mode)
	Fault      string // none, status-reject, status-lost, crash-between, spec-reject, spec-lost, crash-before-spec
	ExtraEdits bool   // a stray reconcile order: replica sets reconciled before the EDS after the failure
	Hold       string // "", "frozen", "rolling-paused": the replacement of the canary pods is held back for three minutes after the failure
	Unready    bool   // with Hold: the failed canary's pods stop being Ready while they wait
	// SelectorToo: the update that starts the canary changes spec.selector together with the template (to a selector
	// every node still matches); the rollback restores the template, the selector stays
	SelectorToo bool
}

var c07Faults = []string{"none", "status-reject", "status-conflict", "status-lost", "crash-between", "spec-reject", "spec-conflict", "spec-lost", "crash-before-status"}
var c07Routes = []string{"command", "restarts", "timeout", "command-mid-sync", "command-early"}

func (c c07Cfg) String() string {
	return fmt.Sprintf("nodes=%d replicas=%s affinity=%v failBy=%s paused=%v afterDuration=%v fault=%s rsFirst=%v hold=%q unready=%v selectorChangedWithTheTemplate=%v", c.Nodes, c.Replicas, c.Affinity, c.FailBy, c.Paused, c.AfterDur, c.Fault, c.ExtraEdits, c.Hold, c.Unready, c.SelectorToo)
}

func c07Run(rec *evid.Rec, f fataler, cfg c07Cfg) { c07RunFor(rec, f, cfg, "C07") }

// c07RunFor plays the failed-canary history for property prop: C07 judges the whole rollback, C05 only whether the
// failed replica set is ever promoted (promotion-rule and canary-latch monitors, and a rollback undone later).
func c07RunFor(rec *evid.Rec, f fataler, cfg c07Cfg, prop string) {
	var viol []mon.V
	monitors := mon.Of("rs-gc", "promotion-rule", "canary-confinement", "create-eligible", "no-panic", "status-function", "canary-latch")
	if prop == "C05" {
		monitors = mon.Of("promotion-rule", "canary-latch", "no-panic")
	}
	if prop == "C08" {
		monitors = mon.Of("paused-frozen", "canary-latch", "no-panic")
	}
	w := &World{rec: rec, cfg: WorldCfg{Monitors: monitors, Property: prop}, H: mon.NewHistory(), RSSeen: map[string]bool{}, RolesSynced: map[string]bool{}, Facts: map[string]int{}, lastSyncAt: map[string]time.Time{}, Det: true}
	w.OnViolation = func(vs []mon.V) { viol = append(viol, vs...) }
	w.C = sim.New(sim.Options{AffinityMode: cfg.Affinity})
	for i := 0; i < cfg.Nodes; i++ {
		w.C.AddNode(fmt.Sprintf("n%d", i+1), map[string]string{"zone": gen.LabelVals[i%3], "tier": "a"}, nil)
	}
	pe, fe := true, true
	pm, fm := int32(1), int32(2)
	cn := &edsv1.ExtendedDaemonSetSpecStrategyCanary{Replicas: gen.ParseIntOrPercent(cfg.Replicas),
		AutoPause: &edsv1.ExtendedDaemonSetSpecStrategyCanaryAutoPause{Enabled: &pe, MaxRestarts: &pm}, AutoFail: &edsv1.ExtendedDaemonSetSpecStrategyCanaryAutoFail{Enabled: &fe, MaxRestarts: &fm}}
	if cfg.FailBy == "timeout" || cfg.AfterDur {
		cn.ValidationMode = edsv1.ExtendedDaemonSetSpecStrategyCanaryValidationModeAuto
		cn.Duration = &metav1.Duration{Duration: 5 * time.Minute}
		cn.NoRestartsDuration = &metav1.Duration{}
		if cfg.FailBy == "timeout" {
			cn.AutoFail.CanaryTimeout = &metav1.Duration{Duration: 6 * time.Minute}
		}
	} else {
		cn.ValidationMode = edsv1.ExtendedDaemonSetSpecStrategyCanaryValidationModeManual
	}
	st := edsv1.ExtendedDaemonSetSpecStrategy{Canary: cn}
	st.RollingUpdate.SlowStartIntervalDuration = &metav1.Duration{Duration: 5 * time.Second}
	st.RollingUpdate.MaxUnavailable = gen.ParseIntOrPercent("2")
	w.C.Add(&edsv1.ExtendedDaemonSet{ObjectMeta: metav1.ObjectMeta{Namespace: "ns1", Name: "foo"}, Spec: edsv1.ExtendedDaemonSetSpec{Template: gen.LetterTemplate('A'), Strategy: st}})
	k := sim.KeyOf("ns1", "foo")
	w.EDS = append(w.EDS, k)
	stop := func() bool { return len(viol) > 0 }
	waitFor := func(cond func() bool, max int) bool {
		for i := 0; i < max && !stop() && !cond(); i++ {
			w.fairRound("c07")
		}
		return cond()
	}
	readyOf := func(rsName string) int {
		n := 0
		for _, p := range w.C.Pods() {
			if p.Labels[oracle.LabelRSName] == rsName && oracle.IsReady(p) {
				n++
			}
		}
		return n
	}
	if !waitFor(func() bool {
		e := w.C.EDS(k.Namespace, k.Name)
		return e != nil && e.Status.ActiveReplicaSet != "" && readyOf(e.Status.ActiveReplicaSet) == cfg.Nodes
	}, 15) {
		f.Fatalf("harness: first deployment did not complete: %s", strings.Join(w.C.Trace, "\n"))
		return
	}
	activeBefore := w.C.EDS(k.Namespace, k.Name).Status.ActiveReplicaSet
	activeTpl := w.C.ERS(k.Namespace, activeBefore).Spec.Template
	w.editTemplate(k, 'B')
	if cfg.SelectorToo {
		w.C.Tracef("eds %s/%s selector := tier=a", k.Namespace, k.Name)
		_ = w.C.EditEDS(k.Namespace, k.Name, func(x *edsv1.ExtendedDaemonSet) {
			x.Spec.Selector = &metav1.LabelSelector{MatchLabels: map[string]string{"tier": "a"}}
		})
	}
	early := cfg.FailBy == "command-early"
	if early {
		// route command-early: the user fails the canary as soon as the EDS controller has recorded it, before the
		// replica-set controller has synced the new set even once (its status carries no condition yet)
		for i := 0; i < 4 && !stop(); i++ {
			if e := w.C.EDS(k.Namespace, k.Name); e.Status.Canary != nil && len(e.Status.Canary.Nodes) > 0 && w.C.ERS(k.Namespace, e.Status.Canary.ReplicaSet) != nil {
				break
			}
			w.C.Advance(time.Second)
			w.reconcile(sim.ActorEDS, k.Namespace, k.Name)
		}
	}
	if e := w.C.EDS(k.Namespace, k.Name); early && e.Status.Canary != nil && len(e.Status.Canary.Nodes) > 0 && w.C.ERS(k.Namespace, e.Status.Canary.ReplicaSet) != nil {
		// recorded and not yet synced
	} else if !waitFor(func() bool {
		e := w.C.EDS(k.Namespace, k.Name)
		return e.Status.Canary != nil && len(e.Status.Canary.Nodes) > 0 && readyOf(e.Status.Canary.ReplicaSet) == len(e.Status.Canary.Nodes)
	}, 15) {
		// replicas larger than the cluster: the reconcile reports an error and no canary starts - nothing to roll back
		rec.Case(false, evid.FP(cfg.String()), "canary-did-not-start")
		return
	}
	e := w.C.EDS(k.Namespace, k.Name)
	crs := e.Status.Canary.ReplicaSet
	canaryNodes := append([]string(nil), e.Status.Canary.Nodes...)
	if cfg.FailBy == "timeout" {
		// the timeout lies behind the canary duration (validation demands it): an unpaused canary may be promoted
		// by elapsed time before it times out, and both are right. Only a paused canary reaches its timeout for sure.
		cfg.Paused = true
	}
	if cfg.Paused {
		_ = w.C.SetEDSAnnotation(k.Namespace, k.Name, oracle.AnnCanaryPaused, "true")
		if !early {
			w.fairRound("c07 paused")
		}
	}
	if cfg.AfterDur && cfg.FailBy != "timeout" {
		// the duration elapses while the canary is paused (otherwise it would simply be promoted)
		if !cfg.Paused {
			_ = w.C.SetEDSAnnotation(k.Namespace, k.Name, oracle.AnnCanaryPaused, "true")
			if !early {
				w.fairRound("c07 paused")
			}
		}
		w.C.Advance(6 * time.Minute)
	}
	// ---- the failure
	armed := false
	fired := ""
	failByUser := func() {
		w.C.Tracef("user fails canary %s", crs)
		w.C.MutateERS(k.Namespace, crs, func(rs *edsv1.ExtendedDaemonSetReplicaSet) {
			now := metav1.NewTime(w.C.Now())
			if c := oracle.RSCond(&rs.Status, edsv1.ConditionTypeCanaryFailed); c != nil {
				c.Status, c.LastTransitionTime, c.LastUpdateTime = corev1.ConditionTrue, now, now
			} else {
				rs.Status.Conditions = append(rs.Status.Conditions, edsv1.ExtendedDaemonSetReplicaSetCondition{Type: edsv1.ConditionTypeCanaryFailed, Status: corev1.ConditionTrue, LastTransitionTime: now, LastUpdateTime: now, Reason: "Manually failed"})
			}
		})
	}
	midSync, midDone := false, false
	w.C.Faults = func(call *sim.Call) sim.FaultKind {
		// route command-mid-sync: `kubectl-eds canary fail` lands after the canary replica set's reconcile has read
		// the object and right before it writes its status (the write must not erase the user's mark)
		if midSync && !midDone && call.Actor == sim.ActorERS && (call.Verb == "status-update" || call.Verb == "status-patch") && call.Name == crs {
			midDone = true
			failByUser()
			return sim.FaultNone
		}
		if !armed || fired != "" || call.Actor != sim.ActorEDS || call.Kind != "ExtendedDaemonSet" {
			return sim.FaultNone
		}
		kind := sim.FaultNone
		switch {
		case call.Verb == "status-update" && cfg.Fault == "status-reject":
			kind = sim.FaultReject
		case call.Verb == "status-update" && cfg.Fault == "status-conflict":
			kind = sim.FaultRejectTyped
		case call.Verb == "update" && cfg.Fault == "spec-conflict":
			kind = sim.FaultRejectTyped
		case call.Verb == "status-update" && cfg.Fault == "status-lost":
			kind = sim.FaultLostAnswer
		case call.Verb == "status-update" && cfg.Fault == "crash-between":
			kind = sim.FaultCrashAfter
		case call.Verb == "status-update" && cfg.Fault == "crash-before-status":
			kind = sim.FaultCrashBefore
		case call.Verb == "update" && cfg.Fault == "spec-reject":
			kind = sim.FaultReject
		case call.Verb == "update" && cfg.Fault == "spec-lost":
			kind = sim.FaultLostAnswer
		}
		if kind != sim.FaultNone {
			fired = call.String()
			w.C.Tracef("FAULT %s on %s", kind, call.String())
		}
		return kind
	}
	holdKey := map[string]string{"frozen": oracle.AnnRolloutFrozen, "rolling-paused": oracle.AnnRollingPaused}[cfg.Hold]
	if holdKey != "" {
		_ = w.C.SetEDSAnnotation(k.Namespace, k.Name, holdKey, "true")
	}
	failedAt := w.C.Now()
	switch cfg.FailBy {
	case "command", "command-early":
		failByUser()
	case "command-mid-sync":
		midSync = true
	case "restarts":
		for _, p := range w.C.Pods() {
			if p.Labels[oracle.LabelRSName] == crs {
				for i := 0; i < 4; i++ {
					w.C.Restart(p.Namespace, p.Name, 0, "Error")
				}
			}
		}
	case "timeout":
		w.C.Advance(7 * time.Minute)
	}
	armed = true
	if cfg.ExtraEdits {
		for _, rs := range w.rsOf(k) {
			w.C.Advance(11 * time.Second)
			w.reconcile(sim.ActorERS, rs.Namespace, rs.Name)
		}
	}
	isFailed := func() bool {
		rs := w.C.ERS(k.Namespace, crs)
		return rs != nil && oracle.RSCondTrue(&rs.Status, edsv1.ConditionTypeCanaryFailed)
	}
	if !waitFor(isFailed, 8) && w.C.ERS(k.Namespace, crs) != nil {
		if len(viol) == 0 {
			f.Fatalf("harness: the canary was never marked failed (%s): %s", cfg, strings.Join(w.C.Trace, "\n"))
		}
	}
	if rs := w.C.ERS(k.Namespace, crs); rs != nil {
		if c := oracle.RSCond(&rs.Status, edsv1.ConditionTypeCanaryFailed); c != nil && c.Status == corev1.ConditionTrue {
			failedAt = c.LastTransitionTime.Time
		}
	}
	retention := func() {
		// "deleted only once it reports no pods": in these scenarios every pod of the failed set sits, Running, on an
		// eligible former canary node - as long as one of them exists (not terminating) the set reports it and must stay
		if w.C.ERS(k.Namespace, crs) == nil {
			for _, p := range w.C.Pods() {
				if p.Labels[oracle.LabelRSName] == crs && p.DeletionTimestamp == nil && p.Status.Phase == corev1.PodRunning {
					viol = append(viol, mon.V{Property: "C07", Monitor: "rollback", Sig: "C07/rollback/failed-set-deleted-while-its-pods-run", Detail: fmt.Sprintf("failed replica set %s was deleted while its pod %s still runs on %s", crs, p.Name, oracle.NodeOf(p))})
					break
				}
			}
		}
		// while younger than two minutes the failed replica set must still exist
		if w.C.Now().Before(failedAt.Add(2*time.Minute-time.Second)) && w.C.ERS(k.Namespace, crs) == nil {
			viol = append(viol, mon.V{Property: "C07", Monitor: "rollback", Sig: "C07/rollback/failed-set-gone-before-two-minutes", Detail: fmt.Sprintf("failed replica set %s no longer exists %s after it failed", crs, w.C.Now().Sub(failedAt))})
		}
	}
	heldPods := 0
	if holdKey != "" {
		// the active replica set may not replace the canary pods yet: they stay (possibly not Ready) past the
		// two-minute retention, and the failed set must be kept as long as it reports them (rs-gc monitor)
		if cfg.Unready {
			for _, p := range w.C.Pods() {
				if p.Labels[oracle.LabelRSName] == crs {
					w.C.Break(p.Namespace, p.Name)
				}
			}
		}
		for i := 0; i < 16 && !stop(); i++ {
			w.fairRound("c07 held")
			retention()
		}
		for _, p := range w.C.Pods() {
			if p.Labels[oracle.LabelRSName] == crs && p.DeletionTimestamp == nil {
				heldPods++
			}
		}
		_ = w.C.SetEDSAnnotation(k.Namespace, k.Name, holdKey, "false")
	}
	// ---- bounded rounds, then the rollback must be complete
	rolledBack := func() string {
		cur := w.C.EDS(k.Namespace, k.Name)
		if cur.Status.ActiveReplicaSet != activeBefore {
			return fmt.Sprintf("status.activeReplicaSet changed from %s to %s", activeBefore, cur.Status.ActiveReplicaSet)
		}
		if !apiequality.Semantic.DeepEqual(cur.Spec.Template, activeTpl) {
			return "spec.template is not the active replica set's template"
		}
		if cur.Status.Canary != nil {
			return fmt.Sprintf("status.canary is still %+v", *cur.Status.Canary)
		}
		for _, n := range canaryNodes {
			var pods []*corev1.Pod
			for _, p := range w.C.Pods() {
				if oracle.NodeOf(p) == n {
					pods = append(pods, p)
				}
			}
			if len(pods) != 1 || pods[0].Labels[oracle.LabelRSName] != activeBefore || !oracle.IsReady(pods[0]) {
				return fmt.Sprintf("former canary node %s does not run exactly one Ready pod of the active template", n)
			}
		}
		return ""
	}
	ok := false
	for i := 0; i < 25 && !stop(); i++ {
		w.fairRound("c07 rollback")
		retention()
		if rolledBack() == "" {
			ok = true
			break
		}
	}
	if !ok && !stop() {
		viol = append(viol, mon.V{Property: "C07", Monitor: "rollback", Sig: "C07/rollback/not-completed/fault=" + cfg.Fault, Detail: fmt.Sprintf("25 rounds after the canary failed (%s) the rollback is not complete: %s (fault: %s %s)", cfg.FailBy, rolledBack(), cfg.Fault, fired)})
	}
	// eventually the failed set is collected (it reports no pods) - not a safety matter, but part of the statement's life cycle
	if ok && !stop() {
		w.C.Advance(3 * time.Minute)
		for i := 0; i < 6 && !stop() && w.C.ERS(k.Namespace, crs) != nil; i++ {
			w.fairRound("c07 retention")
		}
		if msg := rolledBack(); msg != "" && !stop() {
			viol = append(viol, mon.V{Property: "C07", Monitor: "rollback", Sig: "C07/rollback/undone-later", Detail: "the rollback was complete and later: " + msg})
		}
	}
	if e := w.C.EDS(k.Namespace, k.Name); e != nil && crs != "" && e.Status.ActiveReplicaSet == crs && !stop() {
		viol = append(viol, mon.V{Property: "C05", Monitor: "failed-stays", Sig: "C05/failed-stays/failed-canary-became-active", Detail: fmt.Sprintf("replica set %s was marked failed (%s) and never validated, yet it is the active replica set at the end of the history", crs, cfg.FailBy)})
	}
	window := cfg.Fault != "none" && fired != ""
	var classes []string
	classes = append(classes, "route-"+cfg.FailBy, "fault-"+cfg.Fault)
	if cfg.Paused {
		classes = append(classes, "paused")
	}
	if cfg.AfterDur {
		classes = append(classes, "after-duration")
	}
	if cfg.Hold != "" {
		classes = append(classes, "hold-"+cfg.Hold, fmt.Sprintf("held-canary-pods-after-3min=%v", heldPods > 0))
	}
	nt := len(canaryNodes) > 0 && (cfg.Fault == "none" || window)
	rec.Case(nt, evid.FP(cfg.String()), classes...)
	rec.Steps(1)
	if nt && rec.WantSample() {
		rec.Sample(map[string]interface{}{"config": cfg, "fault_hit": fired, "canary_nodes": canaryNodes})
	}
	if prop == "C08" {
		var keep []mon.V
		for _, v := range viol {
			if v.Monitor != "rollback" && v.Monitor != "failed-stays" {
				keep = append(keep, v)
			}
		}
		viol = keep
	}
	if prop == "C05" {
		var keep []mon.V
		for _, v := range viol {
			if v.Monitor != "rollback" || v.Sig == "C07/rollback/undone-later" {
				keep = append(keep, v)
			}
		}
		viol = keep
	}
	settle(f, rec, viol, map[string]interface{}{"config": cfg, "trace": w.C.Trace}, len(w.C.Trace), "config: "+cfg.String()+"\n--- trace ---\n"+strings.Join(w.C.Trace, "\n"))
}

// TestC05FailedStays: C05 over histories. A canary that was marked failed is never made active afterwards, whatever
// happens to the rollback's two writes and whichever controller runs first: complete product of failure route x
// fault position x paused x duration elapsed x reconcile order on a 3-node cluster.
func TestC05FailedStays(t *testing.T) {
	rec := evid.New("TestC05FailedStays", "C05", "complete product {5 failure routes: kubectl-eds canary fail, restart storm, canaryTimeout, canary fail landing inside the canary replica set's own sync, canary fail before the new set was ever synced} x {9 fault positions/kinds of the rollback's two-write window} x {paused or not} x {canary duration elapsed or not} x {replica sets or EDS reconciled first} on a 3-node cluster with one canary node, then 25 fair rounds with advancing time; oracle after every reconcile: promotion-rule (the active replica set changes only as the statement allows, judged on the state read), canary-latch (a sync of a replica set that is neither active nor canary leaves Canary-Failed / Canary-Paused as they were: they are what keeps a failed canary from being promoted by elapsed time) and, at the end, the failed replica set never became active; non-trivial = a canary pod existed at failure time and (no fault requested or the fault hit the window); distinct by configuration")
	failed := false
	ff := &firstFail{t: t, failed: &failed}
	shard, shards := envInt("VERIF_SHARD", 0), envInt("VERIF_SHARDS", 1)
	i := 0
	for _, route := range c07Routes {
		for _, fault := range c07Faults {
			for _, paused := range []bool{false, true} {
				for _, after := range []bool{false, true} {
					for _, rsFirst := range []bool{false, true} {
						i++
						if i%shards != shard {
							continue
						}
						c07RunFor(rec, ff, c07Cfg{Nodes: 3, Replicas: "1", FailBy: route, Paused: paused, AfterDur: after, Fault: fault, ExtraEdits: rsFirst}, "C05")
					}
				}
			}
		}
	}
	rec.Exhaustive(true)
	if !failed {
		rec.Done()
	}
}

func TestC07Rollback(t *testing.T) {
	rec := evid.New("TestC07Rollback", "C07", "history: first deployment, template change (one time in four together with a change of spec.selector that every node still matches), canary up on its nodes, optional pause, optional elapsed duration, optionally rollout-frozen / rolling-update-paused for three minutes from the failure on (canary pods optionally not Ready meanwhile), then the canary fails by {kubectl-eds canary fail, restart storm -> auto-fail, canaryTimeout, canary fail landing between the read and the status write of the canary replica set's own sync, canary fail before the replica-set controller has synced the new set at all}; the rollback reconcile meets a fault of the two-write window {none, status write rejected (generic error or Conflict), status applied/answer lost, stop between the writes, spec write rejected (generic error or Conflict), spec applied/answer lost, stop before the status write}; then fair rounds with advancing time; oracle: within 25 rounds spec.template = active template, status.canary nil, status.activeReplicaSet unchanged, every former canary node runs one Ready pod of the active template; the failed set exists for >= 2 minutes and is deleted only with an all-zero status (rs-gc monitor); non-trivial = a canary pod existed at failure time and (no fault requested or the fault hit the window); distinct by configuration")
	t.Cleanup(func() {
		if !t.Failed() {
			rec.Done()
		}
	})
	rapid.Check(t, func(rt *rapid.T) {
		cfg := c07Cfg{Nodes: rapid.IntRange(2, 5).Draw(rt, "nodes"), Replicas: rapid.SampledFrom([]string{"1", "2", "50%"}).Draw(rt, "replicas"), Affinity: rapid.Bool().Draw(rt, "affinity"),
			FailBy: rapid.SampledFrom(c07Routes).Draw(rt, "failBy"), Paused: rapid.Bool().Draw(rt, "paused"), AfterDur: rapid.Bool().Draw(rt, "afterDuration"),
			Fault: rapid.SampledFrom(c07Faults).Draw(rt, "fault"), ExtraEdits: rapid.Bool().Draw(rt, "rsFirst"),
			Hold: rapid.SampledFrom([]string{"", "", "frozen", "rolling-paused"}).Draw(rt, "hold"), Unready: rapid.Bool().Draw(rt, "unready"),
			SelectorToo: rapid.IntRange(0, 3).Draw(rt, "selectorChangedWithTheTemplate") == 0}
		c07Run(rec, rt, cfg)
	})
}

// TestC07Window enumerates failure route x fault position x paused x after-duration completely (fixed size).
func TestC07Window(t *testing.T) {
	rec := evid.New("TestC07Window", "C07", "complete product {5 failure routes} x {9 fault positions/kinds of the rollback's two-write window} x {paused or not} x {duration elapsed or not} x {replica sets or EDS reconciled first} x {no hold, rollout frozen, rolling update paused for three minutes with the canary pods not Ready} on a 3-node cluster with one canary node; oracle and non-triviality as TestC07Rollback")
	failed := false
	ff := &firstFail{t: t, failed: &failed}
	shard, shards := envInt("VERIF_SHARD", 0), envInt("VERIF_SHARDS", 1)
	i := 0
	for _, route := range c07Routes {
		for _, fault := range c07Faults {
			for _, paused := range []bool{false, true} {
				for _, after := range []bool{false, true} {
					for _, rsFirst := range []bool{false, true} {
						for _, hold := range []string{"", "frozen", "rolling-paused"} {
							i++
							if i%shards != shard {
								continue
							}
							c07Run(rec, ff, c07Cfg{Nodes: 3, Replicas: "1", FailBy: route, Paused: paused, AfterDur: after, Fault: fault, ExtraEdits: rsFirst, Hold: hold, Unready: hold != ""})
						}
					}
				}
			}
		}
	}
	rec.Exhaustive(true)
	if !failed {
		rec.Done()
	}
}

// TestC08FailedCanaryHeld: C08 after a canary failure. The rollout is frozen or the rolling update paused from the
// failure on; the failed canary's pods are then outdated pods like any other: nobody deletes them while the hold lasts
// (frozen: nobody creates either), whichever replica set is being synced - the active one, or the failed set that is
// neither active nor canary any more. Complete product of failure route x pause x elapsed duration x reconcile order
// x hold x readiness of the held pods.
func TestC08FailedCanaryHeld(t *testing.T) {
	rec := evid.New("TestC08FailedCanaryHeld", "C08", "complete product {5 failure routes} x {paused or not} x {canary duration elapsed or not} x {replica sets or EDS reconciled first} x {rollout frozen, rolling update paused - set at the failure and kept for three minutes} x {held canary pods Ready or not} x {no fault, spec write of the rollback rejected} on a 3-node cluster with one canary node; monitors paused-frozen (no update deletion while paused, no creation or deletion while frozen - by the active set, the canary, or a set that is neither) and canary-latch after every reconcile; non-trivial = a canary pod existed at failure time; distinct by configuration")
	failed := false
	ff := &firstFail{t: t, failed: &failed}
	shard, shards := envInt("VERIF_SHARD", 0), envInt("VERIF_SHARDS", 1)
	i := 0
	for _, route := range c07Routes {
		for _, fault := range []string{"none", "spec-reject"} {
			for _, paused := range []bool{false, true} {
				for _, after := range []bool{false, true} {
					for _, rsFirst := range []bool{false, true} {
						for _, hold := range []string{"frozen", "rolling-paused"} {
							for _, unready := range []bool{false, true} {
								i++
								if i%shards != shard {
									continue
								}
								c07RunFor(rec, ff, c07Cfg{Nodes: 3, Replicas: "1", FailBy: route, Paused: paused, AfterDur: after, Fault: fault, ExtraEdits: rsFirst, Hold: hold, Unready: unready}, "C08")
							}
						}
					}
				}
			}
		}
	}
	rec.Exhaustive(true)
	if !failed {
		rec.Done()
	}
}
