package checks

import (
	"fmt"
	"strings"
	"testing"
	"time"

	metav1 "k8s.io/apimachinery/pkg/apis/meta/v1"
	"pgregory.net/rapid"

	edsv1 "github.com/DataDog/extendeddaemonset/api/v1alpha1"
	"verifharness/evid"
	"verifharness/gen"
	"verifharness/mon"
	"verifharness/oracle"
	"verifharness/sim"
)

// TestC13Revert: template A, then B, then A again, while A's replica set is held by a finalizer: after the
// controller collected it, it still exists (terminating) when the template comes back. One replica set per
// template while one exists: the terminating one is re-used, no second one is created for the same template.
func TestC13Revert(t *testing.T) {
	rec := evid.New("TestC13Revert", "C13", "1-3 nodes, no canary or a manual canary validated by the user; template X rolled out, its replica set given a finalizer by another component, template Y rolled out (the controller collects X's empty set, which stays terminating), then the template goes back to X before / after the finalizer is released, optionally via a third template; one creation of a replica set optionally refused or stored-but-answered-with-an-error (generic or typed); monitors rs-identity (no second replica set for a template while one exists, template = hash = pod hash), rs-gc, status function after every reconcile; non-trivial = X's replica set was terminating when X came back; distinct by configuration")
	t.Cleanup(func() {
		if !t.Failed() {
			rec.Done()
		}
	})
	rapid.Check(t, func(rt *rapid.T) {
		nodes := rapid.IntRange(1, 3).Draw(rt, "nodes")
		canary := rapid.Bool().Draw(rt, "manualCanary")
		letters := rapid.SampledFrom([]string{"ABA", "ACA", "BAB", "ABCA", "IJI"}).Draw(rt, "templates")
		release := rapid.SampledFrom([]string{"after-revert", "after-revert", "before-revert", "never"}).Draw(rt, "finalizerReleased")
		// the answer to one creation of a replica set may be an error: refused (generic error or AlreadyExists), or
		// stored and answered with an error all the same (generic, or ServerTimeout as for a write whose answer timed out)
		rsCreateAnswer := rapid.SampledFrom([]sim.FaultKind{sim.FaultNone, sim.FaultNone, sim.FaultReject, sim.FaultRejectTyped, sim.FaultLostAnswer, sim.FaultLostAnswerTyped}).Draw(rt, "oneReplicaSetCreateAnswer")
		faultedCreate := rapid.IntRange(1, 3).Draw(rt, "faultedReplicaSetCreate")
		cfgDesc := fmt.Sprintf("nodes=%d manualCanary=%v templates=%s release=%s replicaSetCreate#%d=%s", nodes, canary, letters, release, faultedCreate, rsCreateAnswer)
		var viol []mon.V
		w := &World{rec: rec, cfg: WorldCfg{Monitors: mon.Of("rs-identity", "rs-gc", "status-function", "promotion-rule", "no-panic"), Property: "C13"}, H: mon.NewHistory(), RSSeen: map[string]bool{}, RolesSynced: map[string]bool{}, Facts: map[string]int{}, lastSyncAt: map[string]time.Time{}, Det: true}
		w.OnViolation = func(vs []mon.V) { viol = append(viol, vs...) }
		w.C = sim.New(sim.Options{})
		rsCreates := 0
		w.C.Faults = func(call *sim.Call) sim.FaultKind {
			if call.Kind == "ExtendedDaemonSetReplicaSet" && call.Verb == "create" {
				rsCreates++
				if rsCreates == faultedCreate {
					return rsCreateAnswer
				}
			}
			return sim.FaultNone
		}
		for i := 0; i < nodes; i++ {
			w.C.AddNode(fmt.Sprintf("n%d", i+1), map[string]string{"zone": "a", "tier": "a"}, nil)
		}
		st := edsv1.ExtendedDaemonSetSpecStrategy{}
		st.RollingUpdate.SlowStartIntervalDuration = &metav1.Duration{Duration: 5 * time.Second}
		st.RollingUpdate.MaxUnavailable = gen.ParseIntOrPercent("100%")
		if canary {
			st.Canary = &edsv1.ExtendedDaemonSetSpecStrategyCanary{Replicas: gen.ParseIntOrPercent("1"), ValidationMode: edsv1.ExtendedDaemonSetSpecStrategyCanaryValidationModeManual}
		}
		w.C.Add(&edsv1.ExtendedDaemonSet{ObjectMeta: metav1.ObjectMeta{Namespace: "ns1", Name: "foo"}, Spec: edsv1.ExtendedDaemonSetSpec{Template: gen.LetterTemplate(letters[0]), Strategy: st}})
		k := sim.KeyOf("ns1", "foo")
		w.EDS = append(w.EDS, k)
		stop := func() bool { return len(viol) > 0 }
		rsFor := func(l byte) *edsv1.ExtendedDaemonSetReplicaSet {
			tpl := gen.LetterTemplate(l)
			for _, rs := range w.rsOf(k) {
				if oracle.RSMatchesTemplate(rs, &tpl) {
					return rs
				}
			}
			return nil
		}
		rolledOut := func(l byte) bool {
			e := w.C.EDS(k.Namespace, k.Name)
			rs := rsFor(l)
			if e == nil || rs == nil || e.Status.ActiveReplicaSet != rs.Name {
				return false
			}
			n := 0
			for _, p := range w.C.Pods() {
				if p.Labels[oracle.LabelRSName] == rs.Name && oracle.IsReady(p) && p.DeletionTimestamp == nil {
					n++
				}
			}
			return n == nodes && len(w.C.Pods()) == nodes
		}
		rollOut := func(l byte) bool {
			for i := 0; i < 30 && !stop() && !rolledOut(l); i++ {
				if canary {
					// the user validates the canary of the current template as soon as its replica set exists
					if rs := rsFor(l); rs != nil {
						if e := w.C.EDS(k.Namespace, k.Name); e != nil && e.Status.ActiveReplicaSet != rs.Name && e.Annotations[oracle.AnnCanaryValid] != rs.Name {
							_ = w.C.SetEDSAnnotation(k.Namespace, k.Name, oracle.AnnCanaryValid, rs.Name)
						}
					}
				}
				w.fairRound("c13 roll-out " + string(l))
				w.C.GC() // the cluster's garbage collector removes pods whose owning replica set is gone
			}
			return rolledOut(l)
		}
		if !rollOut(letters[0]) {
			if !stop() {
				rt.Fatalf("harness: first roll-out did not complete (%s): %s", cfgDesc, strings.Join(w.C.Trace, "\n"))
			}
			settle(rt, rec, viol, map[string]interface{}{"config": cfgDesc, "trace": w.C.Trace}, len(w.C.Trace), cfgDesc)
			return
		}
		first := rsFor(letters[0])
		w.C.Tracef("replica set %s gets finalizer verif/protect", first.Name)
		w.C.MutateERS(first.Namespace, first.Name, func(x *edsv1.ExtendedDaemonSetReplicaSet) { x.Finalizers = append(x.Finalizers, "verif/protect") })
		terminatingAtRevert := false
		for i := 1; i < len(letters) && !stop(); i++ {
			l := letters[i]
			last := i == len(letters)-1
			if last {
				if release == "before-revert" {
					w.releaseReplicaSets()
				}
				if rs := w.C.ERS(first.Namespace, first.Name); rs != nil && rs.DeletionTimestamp != nil {
					terminatingAtRevert = true
				}
			}
			w.editTemplate(k, l)
			if last {
				// a few reconciles with the terminating set still there, then the finalizer goes
				for r := 0; r < 3 && !stop(); r++ {
					w.fairRound("c13 reverted")
				}
				if release == "after-revert" {
					w.releaseReplicaSets()
				}
			}
			if !rollOut(l) && !stop() && !(last && release == "never") {
				viol = append(viol, mon.V{Property: "C13", Monitor: "revert", Sig: "C13/revert/roll-out-not-completed", Detail: fmt.Sprintf("template %c was not rolled out within 30 rounds (%s)", l, cfgDesc)})
			}
		}
		rec.Case(terminatingAtRevert, evid.FP(cfgDesc), fmt.Sprintf("terminating-at-revert=%v", terminatingAtRevert), "release-"+release)
		rec.Steps(1)
		if terminatingAtRevert {
			rec.Sample(cfgDesc)
		}
		settle(rt, rec, viol, map[string]interface{}{"config": cfgDesc, "trace": w.C.Trace}, len(w.C.Trace), "config: "+cfgDesc+"\n--- trace ---\n"+strings.Join(w.C.Trace, "\n"))
	})
}

// TestC13StatusWriteFaults: the replica set recorded as active in the STORED status is never collected, whatever
// happens to the status write of the reconcile that replaces it. Template X is deployed (its replica set may still
// report no pods: the template is changed before the replica-set controller synced, or no node is eligible), the
// template changes to Y and the n-th status write of the ExtendedDaemonSet controller is refused (generic error or
// Conflict) or stored and answered with an error; rs-gc and rs-identity after every reconcile, and at the end the
// stored status names an existing replica set.
func TestC13StatusWriteFaults(t *testing.T) {
	rec := evid.New("TestC13StatusWriteFaults", "C13", "0-2 nodes, no canary or a manual canary validated by the user; template X deployed with the replica-set controller run or not run before the change (X's set may report an all-zero status), template changed to Y, the 1st-6th EDS status write from then on refused (generic error / Conflict) or stored-but-answered-with-an-error (generic / ServerTimeout), the failed reconcile retried one second later as a work queue does; then fair rounds; monitors rs-gc (a Delete never hits the set the stored status names as active after the reconcile), rs-identity, promotion-rule after every reconcile; end check: status.activeReplicaSet names an existing replica set that matches spec.template; non-trivial = the fault hit a status write that changes status.activeReplicaSet; distinct by configuration")
	t.Cleanup(func() {
		if !t.Failed() {
			rec.Done()
		}
	})
	rapid.Check(t, func(rt *rapid.T) {
		nodes := rapid.IntRange(0, 2).Draw(rt, "nodes")
		canary := rapid.Bool().Draw(rt, "manualCanary")
		synced := rapid.Bool().Draw(rt, "replicaSetSyncedBeforeTheChange")
		nth := rapid.IntRange(1, 6).Draw(rt, "faultedStatusWrite")
		kind := rapid.SampledFrom([]sim.FaultKind{sim.FaultReject, sim.FaultRejectTyped, sim.FaultRejectTyped, sim.FaultLostAnswer, sim.FaultLostAnswerTyped}).Draw(rt, "answer")
		desc := fmt.Sprintf("nodes=%d manualCanary=%v replicaSetSyncedBeforeTheChange=%v statusWrite#%d=%s", nodes, canary, synced, nth, kind)
		var viol []mon.V
		w := &World{rec: rec, cfg: WorldCfg{Monitors: mon.Of("rs-identity", "rs-gc", "promotion-rule", "no-panic"), Property: "C13"}, H: mon.NewHistory(), RSSeen: map[string]bool{}, RolesSynced: map[string]bool{}, Facts: map[string]int{}, lastSyncAt: map[string]time.Time{}, Det: true, RetryFaulted: true}
		w.OnViolation = func(vs []mon.V) { viol = append(viol, vs...) }
		w.C = sim.New(sim.Options{})
		for i := 0; i < nodes; i++ {
			w.C.AddNode(fmt.Sprintf("n%d", i+1), map[string]string{"zone": "a", "tier": "a"}, nil)
		}
		st := edsv1.ExtendedDaemonSetSpecStrategy{}
		st.RollingUpdate.MaxUnavailable = gen.ParseIntOrPercent("100%")
		if canary {
			st.Canary = &edsv1.ExtendedDaemonSetSpecStrategyCanary{Replicas: gen.ParseIntOrPercent("1"), ValidationMode: edsv1.ExtendedDaemonSetSpecStrategyCanaryValidationModeManual}
		}
		w.C.Add(&edsv1.ExtendedDaemonSet{ObjectMeta: metav1.ObjectMeta{Namespace: "ns1", Name: "foo"}, Spec: edsv1.ExtendedDaemonSetSpec{Template: gen.LetterTemplate('A'), Strategy: st}})
		k := sim.KeyOf("ns1", "foo")
		w.EDS = append(w.EDS, k)
		stop := func() bool { return len(viol) > 0 }
		// X becomes active: EDS reconciles only (the replica-set controller has not run yet), or full rounds
		for i := 0; i < 6 && !stop(); i++ {
			if e := w.C.EDS(k.Namespace, k.Name); e != nil && e.Status.ActiveReplicaSet != "" {
				break
			}
			w.C.Advance(time.Second)
			w.reconcile(sim.ActorEDS, k.Namespace, k.Name)
		}
		if synced {
			for i := 0; i < 3 && !stop(); i++ {
				w.fairRound("c13 x deployed")
			}
		}
		activeX := w.C.EDS(k.Namespace, k.Name).Status.ActiveReplicaSet
		w.editTemplate(k, 'B')
		writes, hit, changedActive := 0, false, false
		w.C.Faults = func(call *sim.Call) sim.FaultKind {
			if call.Actor == sim.ActorEDS && call.Kind == "ExtendedDaemonSet" && call.Verb == "status-update" {
				writes++
				if writes == nth {
					hit = true
					if e, ok := call.Obj.(*edsv1.ExtendedDaemonSet); ok && e.Status.ActiveReplicaSet != activeX {
						changedActive = true
					}
					w.C.Tracef("FAULT %s on %s", kind, call.String())
					return kind
				}
			}
			return sim.FaultNone
		}
		for i := 0; i < 12 && !stop(); i++ {
			if canary {
				e := w.C.EDS(k.Namespace, k.Name)
				for _, rs := range w.rsOf(k) {
					if oracle.RSMatchesTemplate(rs, &e.Spec.Template) && rs.Name != e.Status.ActiveReplicaSet && e.Annotations[oracle.AnnCanaryValid] != rs.Name {
						_ = w.C.SetEDSAnnotation(k.Namespace, k.Name, oracle.AnnCanaryValid, rs.Name)
					}
				}
			}
			w.fairRound("c13 y")
			w.C.GC()
		}
		w.C.Faults = nil
		if !stop() {
			e := w.C.EDS(k.Namespace, k.Name)
			rs := w.C.ERS(k.Namespace, e.Status.ActiveReplicaSet)
			if rs == nil {
				viol = append(viol, mon.V{Property: "C13", Monitor: "revert", Sig: "C13/status-write-faults/recorded-active-set-gone", Detail: fmt.Sprintf("status.activeReplicaSet=%q names no existing replica set (%s)", e.Status.ActiveReplicaSet, desc)})
			} else if !oracle.RSMatchesTemplate(rs, &e.Spec.Template) {
				viol = append(viol, mon.V{Property: "C13", Monitor: "revert", Sig: "C13/status-write-faults/new-template-not-active", Detail: fmt.Sprintf("twelve rounds after the change the active replica set %s is not the one of spec.template (%s)", rs.Name, desc)})
			}
		}
		nt := hit && changedActive
		rec.Case(nt, evid.FP(desc), fmt.Sprintf("fault-hit=%v", hit), fmt.Sprintf("answer=%s", kind))
		rec.Steps(1)
		if nt && rec.WantSample() {
			rec.Sample(desc)
		}
		settle(rt, rec, viol, map[string]interface{}{"config": desc, "trace": w.C.Trace}, len(w.C.Trace), "config: "+desc+"\n--- trace ---\n"+strings.Join(w.C.Trace, "\n"))
	})
}
