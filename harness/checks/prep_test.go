package checks

import (
	"fmt"
	"strings"
	"time"

	appsv1 "k8s.io/api/apps/v1"
	corev1 "k8s.io/api/core/v1"
	metav1 "k8s.io/apimachinery/pkg/apis/meta/v1"
	"k8s.io/apimachinery/pkg/types"
	"k8s.io/apimachinery/pkg/util/intstr"

	edsv1 "github.com/DataDog/extendeddaemonset/api/v1alpha1"
	"verifharness/gen"
	"verifharness/oracle"
	"verifharness/sim"
)

// Prep is a store prepared with the real reconcilers: an EDS whose replica
// sets for a word of template letters exist (created by the EDS reconciler
// itself), the last letter being spec.template.
type Prep struct {
	C    *sim.Cluster
	NS   string
	Name string
	RS   map[byte]string // letter -> replica set name
}

// prepare creates the EDS with the first letter, reconciles until the replica
// set exists and is active, then walks the remaining letters. Without a canary
// strategy every new letter becomes active at once; with one, later letters
// stay canaries (callers then adjust status as they need).
// prepTolerations, when > 0, gives every template that prepare() applies that many extra tolerations. Slices
// decoded from the API (JSON) then have spare capacity for certain lengths, which is what it takes for an
// append on a shared object to write in place.
var prepTolerations int

func withTolerations(tpl corev1.PodTemplateSpec, n int) corev1.PodTemplateSpec {
	for i := 0; i < n; i++ {
		tpl.Spec.Tolerations = append(tpl.Spec.Tolerations, corev1.Toleration{Key: fmt.Sprintf("example.com/taint-%02d", i), Operator: corev1.TolerationOpExists, Effect: corev1.TaintEffectNoSchedule})
	}
	return tpl
}

func prepare(c *sim.Cluster, ns, name string, strategy edsv1.ExtendedDaemonSetSpecStrategy, ann map[string]string, word string) *Prep {
	p := &Prep{C: c, NS: ns, Name: name, RS: map[byte]string{}}
	e := &edsv1.ExtendedDaemonSet{
		ObjectMeta: metav1.ObjectMeta{Namespace: ns, Name: name, Annotations: ann},
		Spec:       edsv1.ExtendedDaemonSetSpec{Template: withTolerations(gen.LetterTemplate(word[0]), prepTolerations), Strategy: strategy},
	}
	c.Add(e)
	for i := 0; i < len(word); i++ {
		if i > 0 {
			l := word[i]
			_ = c.EditEDS(ns, name, func(x *edsv1.ExtendedDaemonSet) {
				x.Spec.Template = withTolerations(gen.LetterTemplate(l), prepTolerations)
			})
		}
		for k := 0; k < 4; k++ {
			c.Reconcile(sim.ActorEDS, ns, name)
		}
		cur := c.EDS(ns, name)
		for _, rs := range c.AllERS() {
			if rs.Namespace == ns && oracle.OwnerEDSName(rs) == name && oracle.RSMatchesTemplate(rs, &cur.Spec.Template) {
				p.RS[word[i]] = rs.Name
			}
		}
	}
	return p
}

// PodState is the per-node situation the function-level checks enumerate.
type PodState int

// Pod states.
const (
	PSNone PodState = iota
	PSAvailable
	PSUnavailable
	PSTerminating
	PSStuckUnscheduled // affinity-pinned, never bound, older than ten minutes
	PSTerminatingPastGrace
	PSPendingFresh // pinned or bound, no status yet
	PSFailed
	PSUnknown
	PSTerminatingUnready // terminating inside its grace period, not Ready any more
	PSAvailableSkew      // Ready, the Ready transition stamped two seconds ahead of the controller's clock (kubelet clock skew, second truncation)
)

func (s PodState) String() string {
	return [...]string{"none", "available", "unavailable", "terminating", "stuck-unscheduled", "terminating-past-grace", "pending", "failed", "unknown", "terminating-unready", "available-skewed"}[s]
}

var podSeq int

// addPod places a pod of the replica set of a letter ("" hash owner for an old
// DaemonSet pod when letter == 0) on a node in the given state. age = how long ago it was created.
func (p *Prep) addPod(node string, letter byte, st PodState, age time.Duration) *corev1.Pod {
	podSeq++
	now := p.C.Now()
	rsName := p.RS[letter]
	rs := p.C.ERS(p.NS, rsName)
	pod := &corev1.Pod{ObjectMeta: metav1.ObjectMeta{Namespace: p.NS, Name: fmt.Sprintf("%s-p%04d", rsName, podSeq), CreationTimestamp: metav1.NewTime(now.Add(-age).Truncate(time.Second))}}
	if letter != 0 {
		// the replica set of an older letter may already have been collected (all-zero status): its pods
		// then still carry its name and hash, as pods of a deleted replica set do until the GC removes them
		tplv := withTolerations(gen.LetterTemplate(letter), prepTolerations)
		tpl := &tplv
		hash := oracle.TemplateHash(tpl)
		uid := types.UID("gone-uid-" + string(letter))
		if rs != nil {
			tpl, hash, uid = rs.Spec.Template.DeepCopy(), rs.Spec.TemplateGeneration, rs.UID
		} else {
			rsName = p.Name + "-gone" + strings.ToLower(string(letter))
			pod.Name = fmt.Sprintf("%s-p%04d", rsName, podSeq)
		}
		pod.Labels = map[string]string{}
		for k, v := range tpl.Labels {
			pod.Labels[k] = v
		}
		pod.Labels[oracle.LabelEDSName], pod.Labels[oracle.LabelRSName] = p.Name, rsName
		pod.Annotations = map[string]string{}
		for k, v := range tpl.Annotations {
			pod.Annotations[k] = v
		}
		pod.Annotations[oracle.AnnTemplateHash] = hash
		pod.Spec = tpl.Spec
		ctrl := true
		pod.OwnerReferences = []metav1.OwnerReference{{APIVersion: "datadoghq.com/v1alpha1", Kind: "ExtendedDaemonSetReplicaSet", Name: rsName, UID: uid, Controller: &ctrl}}
	} else {
		pod.Name = fmt.Sprintf("oldds-p%04d", podSeq)
		pod.Labels = map[string]string{"app": "old-agent"}
		pod.Spec = corev1.PodSpec{Containers: []corev1.Container{{Name: "agent", Image: "old:1"}}}
		ctrl := true
		pod.OwnerReferences = []metav1.OwnerReference{{APIVersion: "apps/v1", Kind: "DaemonSet", Name: "old-ds", UID: "old-ds-uid", Controller: &ctrl}}
	}
	pod.Spec.Tolerations = append(pod.Spec.Tolerations, oracle.DefaultTolerations...)
	bound := true
	switch st {
	case PSStuckUnscheduled:
		bound = false
	}
	if bound {
		pod.Spec.NodeName = node
	} else {
		pod.Spec.Affinity = &corev1.Affinity{NodeAffinity: &corev1.NodeAffinity{RequiredDuringSchedulingIgnoredDuringExecution: &corev1.NodeSelector{NodeSelectorTerms: []corev1.NodeSelectorTerm{{MatchFields: []corev1.NodeSelectorRequirement{{Key: "metadata.name", Operator: corev1.NodeSelectorOpIn, Values: []string{node}}}}}}}}
	}
	started := metav1.NewTime(now.Add(-age).Truncate(time.Second))
	ready := func(b bool) {
		pod.Status.Phase = corev1.PodRunning
		pod.Status.StartTime = &started
		cs := corev1.ConditionFalse
		if b {
			cs = corev1.ConditionTrue
		}
		pod.Status.Conditions = []corev1.PodCondition{{Type: corev1.PodScheduled, Status: corev1.ConditionTrue}, {Type: corev1.PodReady, Status: cs, LastTransitionTime: started}}
		for _, c := range pod.Spec.Containers {
			pod.Status.ContainerStatuses = append(pod.Status.ContainerStatuses, corev1.ContainerStatus{Name: c.Name, Ready: b, State: corev1.ContainerState{Running: &corev1.ContainerStateRunning{StartedAt: started}}})
		}
	}
	grace := int64(30)
	switch st {
	case PSAvailable:
		ready(true)
	case PSAvailableSkew:
		ready(true)
		for i := range pod.Status.Conditions {
			if pod.Status.Conditions[i].Type == corev1.PodReady {
				pod.Status.Conditions[i].LastTransitionTime = metav1.NewTime(now.Add(2 * time.Second).Truncate(time.Second))
			}
		}
	case PSUnavailable:
		ready(false)
	case PSTerminating:
		ready(true)
		// as the API server writes it: request time + grace period, i.e. still in the future
		ts := metav1.NewTime(now.Add(time.Duration(grace)*time.Second - 5*time.Second))
		pod.DeletionTimestamp, pod.DeletionGracePeriodSeconds = &ts, &grace
		pod.Finalizers = []string{"verif/keep"} // the tracker refuses a deletionTimestamp without finalizer
	case PSTerminatingUnready:
		ready(false)
		ts := metav1.NewTime(now.Add(time.Duration(grace)*time.Second - 3*time.Second))
		pod.DeletionTimestamp, pod.DeletionGracePeriodSeconds = &ts, &grace
		pod.Finalizers = []string{"verif/keep"}
	case PSTerminatingPastGrace:
		ready(false)
		ts := metav1.NewTime(now.Add(-5 * time.Minute))
		pod.DeletionTimestamp, pod.DeletionGracePeriodSeconds = &ts, &grace
		pod.Finalizers = []string{"verif/keep"}
	case PSStuckUnscheduled:
		pod.Status.Phase = corev1.PodPending
		pod.Status.Conditions = []corev1.PodCondition{{Type: corev1.PodScheduled, Status: corev1.ConditionFalse, Reason: corev1.PodReasonUnschedulable}}
	case PSPendingFresh:
		pod.Status.Phase = corev1.PodPending
	case PSFailed:
		ready(false)
		pod.Status.Phase = corev1.PodFailed
		pod.Status.Reason = "Evicted"
	case PSUnknown:
		ready(false)
		pod.Status.Phase = corev1.PodUnknown
	}
	p.C.Add(pod)
	return pod
}

// addOldDaemonSet declares the migration: the DaemonSet object named by the annotation.
func (p *Prep) addOldDaemonSet() {
	ds := &appsv1.DaemonSet{ObjectMeta: metav1.ObjectMeta{Namespace: p.NS, Name: "old-ds", UID: "old-ds-uid"},
		Spec: appsv1.DaemonSetSpec{Selector: &metav1.LabelSelector{MatchLabels: map[string]string{"app": "old-agent"}}}}
	p.C.Add(ds)
}

// addNamesakeDaemonSet puts a DaemonSet of the same name, with the same selector and one old Running pod per given
// node, into another namespace: none of it belongs to the migration the ExtendedDaemonSet declared.
func (p *Prep) addNamesakeDaemonSet(ns string, nodes []string) {
	p.C.Add(&appsv1.DaemonSet{ObjectMeta: metav1.ObjectMeta{Namespace: ns, Name: "old-ds", UID: "namesake-ds-uid"},
		Spec: appsv1.DaemonSetSpec{Selector: &metav1.LabelSelector{MatchLabels: map[string]string{"app": "old-agent"}}}})
	now := p.C.Now()
	started := metav1.NewTime(now.Add(-3 * time.Hour).Truncate(time.Second))
	ctrl := true
	for i, node := range nodes {
		pod := &corev1.Pod{ObjectMeta: metav1.ObjectMeta{Namespace: ns, Name: fmt.Sprintf("oldds-namesake-%02d", i), CreationTimestamp: started, Labels: map[string]string{"app": "old-agent"},
			OwnerReferences: []metav1.OwnerReference{{APIVersion: "apps/v1", Kind: "DaemonSet", Name: "old-ds", UID: "namesake-ds-uid", Controller: &ctrl}}},
			Spec: corev1.PodSpec{NodeName: node, Containers: []corev1.Container{{Name: "agent", Image: "old:1"}}, Tolerations: oracle.DefaultTolerations}}
		pod.Status.Phase = corev1.PodRunning
		pod.Status.StartTime = &started
		pod.Status.Conditions = []corev1.PodCondition{{Type: corev1.PodScheduled, Status: corev1.ConditionTrue}, {Type: corev1.PodReady, Status: corev1.ConditionTrue, LastTransitionTime: started}}
		pod.Status.ContainerStatuses = []corev1.ContainerStatus{{Name: "agent", Ready: true, State: corev1.ContainerState{Running: &corev1.ContainerStateRunning{StartedAt: started}}}}
		p.C.Add(pod)
	}
}

func intstrOf(i int) intstr.IntOrString { return intstr.FromInt(i) }
