package checks

import (
	"os"
	"strconv"
	"testing"

	"verifharness/evid"
)

// tier and scale come from the driver.
var (
	tier  = envOr("VERIF_TIER", "quick")
	scale = envInt("VERIF_SCALE", 1)
)

func envOr(k, d string) string {
	if v := os.Getenv(k); v != "" {
		return v
	}
	return d
}

func envInt(k string, d int) int {
	if v := os.Getenv(k); v != "" {
		if n, err := strconv.Atoi(v); err == nil {
			return n
		}
	}
	return d
}

func thorough() bool { return tier == "thorough" }

func TestMain(m *testing.M) {
	code := m.Run()
	evid.FlushAll()
	os.Exit(code)
}
