package checks

import (
	"os"
	"strconv"
	"strings"
	"testing"

	"verifharness/evid"
	"verifharness/mon"
)

// tier and scale come from the driver.
var (
	tier  = envOr("VERIF_TIER", "quick")
	scale = envInt("VERIF_SCALE", 1)
)

func envOr(k, d string) string {
	if v := os.Getenv(k); v != "" {
		return v
	}
	return d
}

func envInt(k string, d int) int {
	if v := os.Getenv(k); v != "" {
		if n, err := strconv.Atoi(v); err == nil {
			return n
		}
	}
	return d
}

func thorough() bool { return tier == "thorough" }

// knownSigs: signatures listed as `known:` in /verif/KNOWN_FINDINGS.txt (handed over by
// the driver). A violation with such a signature is recorded (the driver prints the
// KNOWN-FINDING line) but does not stop the search, so exploration continues behind it.
var knownSigs = func() map[string]bool {
	m := map[string]bool{}
	for _, l := range strings.Split(os.Getenv("VERIF_KNOWN"), "\n") {
		if l = strings.TrimSpace(l); l != "" {
			m[l] = true
		}
	}
	return m
}()

type fataler interface {
	Fatalf(format string, args ...any)
}

// settle records every violation; it stops the case only for one that is not a listed known finding.
func settle(f fataler, rec *evid.Rec, vs []mon.V, trace interface{}, size int, ctx string) {
	var fresh *mon.V
	for i, v := range vs {
		rec.Violation(v.Monitor, v.Sig, v.Detail, trace, size)
		if knownSigs[v.Sig] {
			rec.Class("known-finding:"+v.Sig, 1)
		} else if fresh == nil {
			fresh = &vs[i]
		}
	}
	if fresh != nil {
		f.Fatalf("%s\n%s", fresh.String(), ctx)
	}
}

func TestMain(m *testing.M) {
	code := m.Run()
	evid.FlushAll()
	os.Exit(code)
}
