package checks

import (
	"fmt"
	"sort"
	"testing"

	metav1 "k8s.io/apimachinery/pkg/apis/meta/v1"
	"pgregory.net/rapid"

	"github.com/DataDog/extendeddaemonset/pkg/controller/utils"
	"verifharness/evid"
)

// refSanitize is the reference: every character outside [a-zA-Z0-9_] becomes '_'
// (the Prometheus label-name alphabet), written independently of the code under test.
func refSanitize(s string) string {
	b := []byte(s)
	out := make([]rune, 0, len(b))
	for _, r := range s {
		if (r >= 'a' && r <= 'z') || (r >= 'A' && r <= 'Z') || (r >= '0' && r <= '9') || r == '_' {
			out = append(out, r)
		} else {
			out = append(out, '_')
		}
	}
	return string(out)
}

type kvPair struct{ K, V string }

func sortedPairs(p []kvPair) []kvPair {
	sort.Slice(p, func(i, j int) bool {
		if p[i].K != p[j].K {
			return p[i].K < p[j].K
		}
		return p[i].V < p[j].V
	})
	return p
}

// checkInfoLabels is the oracle of the label half of C20. It returns "" or a description.
func checkInfoLabels(labels map[string]string) (sig, detail string) {
	keys, vals := utils.BuildInfoLabels(&metav1.ObjectMeta{Labels: labels})
	if len(keys) != len(vals) || len(keys) != len(labels) {
		return "C20/info-labels/length", fmt.Sprintf("labels=%q keys=%q values=%q", labels, keys, vals)
	}
	if !sort.StringsAreSorted(keys) {
		return "C20/info-labels/keys-not-sorted", fmt.Sprintf("labels=%q keys=%q", labels, keys)
	}
	var want, got []kvPair
	for k, v := range labels {
		want = append(want, kvPair{refSanitize(k), v})
	}
	for i := range keys {
		got = append(got, kvPair{keys[i], vals[i]})
	}
	sortedPairs(want)
	sortedPairs(got)
	for i := range want {
		if want[i] != got[i] {
			return "C20/info-labels/value-not-of-its-key", fmt.Sprintf("labels=%q: want pairs %q, got keys=%q values=%q", labels, want, keys, vals)
		}
	}
	return "", ""
}

var labelKeyGen = rapid.OneOf(
	rapid.SampledFrom([]string{
		"extendeddaemonset.datadoghq.com/name", "app.kubernetes.io/name", "app", "tier", "a.b", "a_b", "a-b", "a/b",
		"kubernetes.io/os", "x", "team-name", "team.name", "team_name", "0", "_",
	}),
	rapid.StringMatching(`[a-zA-Z0-9]([a-zA-Z0-9._/-]{0,12}[a-zA-Z0-9])?`),
)

var labelValGen = rapid.OneOf(rapid.SampledFrom([]string{"", "a", "b", "true", "foo-bar", "1"}), rapid.StringMatching(`[a-zA-Z0-9._-]{0,8}`))

func TestC20Labels(t *testing.T) {
	rec := evid.New("TestC20Labels", "C20", "label map drawn from kubernetes-style keys (dots, slashes, dashes, keys colliding after sanitising, empty map/values); non-trivial = at least one key the sanitiser changes; distinct by sorted (key,value) rendering")
	t.Cleanup(func() {
		if !t.Failed() {
			rec.Done()
		}
	})
	rapid.Check(t, func(rt *rapid.T) {
		labels := rapid.MapOfN(labelKeyGen, labelValGen, 0, 6).Draw(rt, "labels")
		nontrivial, collide := false, false
		seen := map[string]bool{}
		for k := range labels {
			if refSanitize(k) != k {
				nontrivial = true
			}
			if seen[refSanitize(k)] {
				collide = true
			}
			seen[refSanitize(k)] = true
		}
		var classes []string
		if len(labels) == 0 {
			classes = append(classes, "empty-map")
		}
		if nontrivial {
			classes = append(classes, "sanitiser-changes-a-key")
		}
		if collide {
			classes = append(classes, "keys-collide-after-sanitising")
		}
		var pairs []kvPair
		for k, v := range labels {
			pairs = append(pairs, kvPair{k, v})
		}
		sortedPairs(pairs)
		rec.Case(nontrivial, evid.FP(pairs), classes...)
		if nontrivial {
			rec.Sample(map[string]interface{}{"labels": labels})
		}
		if sig, detail := checkInfoLabels(labels); sig != "" {
			rec.Violation("info-labels", sig, detail, map[string]interface{}{"labels": labels}, len(labels))
			rt.Fatalf("%s: %s", sig, detail)
		}
	})
}

// FuzzC20Labels: coverage-guided variant; the bytes are split into up to four key/value pairs.
func FuzzC20Labels(f *testing.F) {
	f.Add("extendeddaemonset.datadoghq.com/name", "foo", "a.b", "1", "a_b", "2")
	f.Add("app", "x", "", "", "", "")
	f.Fuzz(func(t *testing.T, k1, v1, k2, v2, k3, v3 string) {
		labels := map[string]string{}
		for _, p := range [][2]string{{k1, v1}, {k2, v2}, {k3, v3}} {
			if p[0] != "" {
				labels[p[0]] = p[1]
			}
		}
		if sig, detail := checkInfoLabels(labels); sig != "" {
			t.Fatalf("%s: %s", sig, detail)
		}
	})
}
