package checks

import (
	"encoding/json"
	"fmt"
	"testing"
	"time"

	corev1 "k8s.io/api/core/v1"
	metav1 "k8s.io/apimachinery/pkg/apis/meta/v1"
	"k8s.io/apimachinery/pkg/util/intstr"
	"pgregory.net/rapid"

	edsv1 "github.com/DataDog/extendeddaemonset/api/v1alpha1"
	"verifharness/evid"
	"verifharness/gen"
	"verifharness/mon"
	"verifharness/oracle"
	"verifharness/sim"
)

type c14RS struct {
	Desired, Current, Ready, Available, Ignored int32
	Paused, Failed                              string // "", "True", "False"
	PausedReason                                string
	// Terminating: the replica set is being deleted by someone (deletionTimestamp set, kept by a finalizer such as
	// foregroundDeletion while its pods go away): it still exists and still reports pods
	Terminating bool
}

type c14Case struct {
	Strategy    bool // canary strategy present
	RS          []c14RS
	ActiveIdx   int // which replica set status.activeReplicaSet names
	Annotations map[string]string
	PrevCanary  bool // status.canary already set before the reconcile
	Valid       bool // canary-valid names the matching set
	// PrevCond: the ExtendedDaemonSet status already carries Canary-Paused / Canary-Failed conditions from an earlier
	// situation ("", "True" or "False"), a true one with another reason and naming another replica set
	PrevPausedCond, PrevFailedCond string
}

func (k c14Case) String() string { b, _ := json.Marshal(k); return string(b) }

// TestC14StatusFunction: the status function alone, over generated replica-set statuses.
func TestC14StatusFunction(t *testing.T) {
	rec := evid.New("TestC14StatusFunction", "C14", "1-3 replica sets of one ExtendedDaemonSet (created by the real reconciler for templates A,B,C) with generated counters (incl. leftover sets with non-zero counters, and sets that are being deleted under a finalizer), Canary-Paused / Canary-Failed conditions (absent, True, False, with reasons), which of them is recorded active, pause/freeze/canary annotations (true/false/absent), canary strategy present or absent, status.canary already set or not, Canary-Paused / Canary-Failed conditions left in the ExtendedDaemonSet status by an earlier situation (absent, True with another reason and replica set, False); EDS reconciles; oracle: stored status = reference status function of what was read (sums, desired/upToDate/ignored from active and canary set, state, reason, conditions - a true Canary-Paused condition with the current pause reason and naming the current canary set -, canary block); non-trivial = >= 2 replica sets with non-zero counters or a canary fact/annotation that changes state/reason/conditions; distinct by case rendering")
	t.Cleanup(func() {
		if !t.Failed() {
			rec.Done()
		}
	})
	condVals := []string{"", "", "True", "False"}
	rapid.Check(t, func(rt *rapid.T) {
		k := c14Case{Strategy: rapid.IntRange(0, 3).Draw(rt, "strategy") != 0, Annotations: map[string]string{}}
		n := rapid.IntRange(1, 3).Draw(rt, "nRS")
		for i := 0; i < n; i++ {
			cnt := func(name string) int32 {
				return rapid.SampledFrom([]int32{0, 0, 1, 2, 3, 7}).Draw(rt, fmt.Sprintf("rs%d-%s", i, name))
			}
			k.RS = append(k.RS, c14RS{Desired: cnt("desired"), Current: cnt("current"), Ready: cnt("ready"), Available: cnt("available"), Ignored: rapid.SampledFrom([]int32{0, 0, 1}).Draw(rt, fmt.Sprintf("rs%d-ignored", i)),
				Paused: rapid.SampledFrom(condVals).Draw(rt, fmt.Sprintf("rs%d-paused", i)), Failed: rapid.SampledFrom(condVals).Draw(rt, fmt.Sprintf("rs%d-failed", i)),
				PausedReason: rapid.SampledFrom([]string{"", "CrashLoopBackOff", "ImagePullBackOff"}).Draw(rt, fmt.Sprintf("rs%d-reason", i)),
				Terminating:  rapid.IntRange(0, 4).Draw(rt, fmt.Sprintf("rs%d-terminating", i)) == 0})
		}
		k.ActiveIdx = rapid.IntRange(0, n-1).Draw(rt, "active")
		for _, a := range []string{oracle.AnnRollingPaused, oracle.AnnRolloutFrozen, oracle.AnnCanaryPaused, oracle.AnnCanaryUnpaused} {
			if v := rapid.SampledFrom([]string{"", "", "true", "false"}).Draw(rt, "ann-"+a); v != "" {
				k.Annotations[a] = v
			}
		}
		if rapid.IntRange(0, 2).Draw(rt, "reasonAnn") == 0 {
			k.Annotations[oracle.AnnCanaryReason] = "OOMKilled"
		}
		k.PrevCanary = rapid.Bool().Draw(rt, "prevCanary")
		k.Valid = rapid.IntRange(0, 4).Draw(rt, "valid") == 0
		k.PrevPausedCond = rapid.SampledFrom(condVals).Draw(rt, "prevPausedCond")
		k.PrevFailedCond = rapid.SampledFrom(condVals).Draw(rt, "prevFailedCond")

		c := sim.New(sim.Options{})
		for i := 0; i < 3; i++ {
			c.AddNode(fmt.Sprintf("n%d", i), map[string]string{"zone": "a"}, nil)
		}
		st := edsv1.ExtendedDaemonSetSpecStrategy{}
		if k.Strategy {
			one := intstr.FromInt(1)
			st.Canary = &edsv1.ExtendedDaemonSetSpecStrategyCanary{Replicas: &one, ValidationMode: edsv1.ExtendedDaemonSetSpecStrategyCanaryValidationModeManual}
		}
		word := "ABC"[:n]
		// the first replica set comes from the real reconciler; the others are copies of it for the other
		// templates (a leftover set with an all-zero status would be collected before we could shape it)
		p := prepare(c, "ns1", "foo", edsv1.ExtendedDaemonSetSpecStrategy{}, nil, "A")
		first := c.ERS("ns1", p.RS['A'])
		if first == nil {
			rt.Fatalf("harness: no replica set for the first template")
		}
		for i := 1; i < n; i++ {
			x := first.DeepCopy()
			x.Name, x.UID, x.ResourceVersion = fmt.Sprintf("foo-copy%c", word[i]), "", ""
			x.Spec.Template = letterTplFull(word[i])
			h := oracle.TemplateHash(&x.Spec.Template)
			x.Annotations = map[string]string{oracle.AnnTemplateHash: h}
			x.Spec.TemplateGeneration = h
			c.Add(x)
			p.RS[word[i]] = x.Name
		}
		_ = c.EditEDS("ns1", "foo", func(x *edsv1.ExtendedDaemonSet) { x.Spec.Template = letterTplFull(word[n-1]) })
		now := c.Now()
		for i := 0; i < n; i++ {
			rs := k.RS[i]
			c.MutateERS("ns1", p.RS[word[i]], func(x *edsv1.ExtendedDaemonSetReplicaSet) {
				x.Status.Desired, x.Status.Current, x.Status.Ready, x.Status.Available, x.Status.IgnoredUnresponsiveNodes = rs.Desired, rs.Current, rs.Ready, rs.Available, rs.Ignored
				x.Status.Conditions = nil
				if rs.Terminating {
					ts := metav1.NewTime(now.Add(-5 * time.Second))
					x.DeletionTimestamp = &ts
					x.Finalizers = []string{"foregroundDeletion"}
				}
				if rs.Paused != "" {
					x.Status.Conditions = append(x.Status.Conditions, edsv1.ExtendedDaemonSetReplicaSetCondition{Type: edsv1.ConditionTypeCanaryPaused, Status: corev1.ConditionStatus(rs.Paused), Reason: rs.PausedReason, LastTransitionTime: metav1.NewTime(now), LastUpdateTime: metav1.NewTime(now)})
				}
				if rs.Failed != "" {
					x.Status.Conditions = append(x.Status.Conditions, edsv1.ExtendedDaemonSetReplicaSetCondition{Type: edsv1.ConditionTypeCanaryFailed, Status: corev1.ConditionStatus(rs.Failed), LastTransitionTime: metav1.NewTime(now), LastUpdateTime: metav1.NewTime(now)})
				}
			})
		}
		matching := p.RS[word[n-1]]
		_ = c.EditEDS("ns1", "foo", func(x *edsv1.ExtendedDaemonSet) {
			x.Spec.Strategy.Canary = st.Canary
			x.Annotations = map[string]string{}
			for ak, av := range k.Annotations {
				x.Annotations[ak] = av
			}
			if k.Valid {
				x.Annotations[oracle.AnnCanaryValid] = matching
			}
		})
		c.MutateEDS("ns1", "foo", func(x *edsv1.ExtendedDaemonSet) {
			x.Status.ActiveReplicaSet = p.RS[word[k.ActiveIdx]]
			x.Status.Canary = nil
			if k.PrevCanary && k.Strategy {
				x.Status.Canary = &edsv1.ExtendedDaemonSetStatusCanary{ReplicaSet: matching, Nodes: []string{"n0"}}
			}
			x.Status.Conditions = nil
			old := metav1.NewTime(now.Add(-10 * time.Minute))
			if k.PrevPausedCond != "" {
				x.Status.Conditions = append(x.Status.Conditions, edsv1.ExtendedDaemonSetCondition{Type: edsv1.ConditionTypeEDSCanaryPaused, Status: corev1.ConditionStatus(k.PrevPausedCond), Reason: "StaleReason", Message: "canary paused with ers: foo-stale", LastTransitionTime: old, LastUpdateTime: old})
			}
			if k.PrevFailedCond != "" {
				x.Status.Conditions = append(x.Status.Conditions, edsv1.ExtendedDaemonSetCondition{Type: edsv1.ConditionTypeEDSCanaryFailed, Status: corev1.ConditionStatus(k.PrevFailedCond), Reason: "CanaryFailed", Message: "canary failed with ers: foo-stale", LastTransitionTime: old, LastUpdateTime: old})
			}
		})
		c.Advance(time.Minute)
		// the spec changed (canary block): the first reconcile may only default it
		var vs []mon.V
		for i := 0; i < 2; i++ {
			r := c.Reconcile(sim.ActorEDS, "ns1", "foo")
			vs = append(vs, mon.Check(r, mon.Of("status-function", "no-panic", "promotion-rule"), nil)...)
		}
		nonzero := 0
		for _, rs := range k.RS {
			if rs.Desired+rs.Current+rs.Ready+rs.Available > 0 {
				nonzero++
			}
		}
		facts := len(k.Annotations) > 0
		for _, rs := range k.RS {
			if rs.Paused == "True" || rs.Failed == "True" {
				facts = true
			}
		}
		nt := nonzero >= 2 || (facts && k.Strategy)
		var classes []string
		if k.Strategy {
			classes = append(classes, "canary-strategy")
		}
		if k.ActiveIdx != n-1 {
			classes = append(classes, "active-differs-from-matching")
		}
		for _, rs := range k.RS {
			if rs.Terminating && rs.Desired+rs.Current+rs.Ready+rs.Available > 0 {
				classes = append(classes, "terminating-set-with-pods")
				break
			}
		}
		rec.Case(nt, evid.FP(k.String()), classes...)
		rec.Steps(2)
		if nt {
			rec.Sample(k)
		}
		settle(rt, rec, vs, map[string]interface{}{"case": k}, n, "case: "+k.String())
	})
}

func letterTplFull(l byte) corev1.PodTemplateSpec { return gen.LetterTemplate(l) }
