//go:build verif_par

package checks

import (
	"fmt"
	"testing"
	"time"

	"github.com/go-logr/logr"
	corev1 "k8s.io/api/core/v1"
	apiequality "k8s.io/apimachinery/pkg/api/equality"
	metav1 "k8s.io/apimachinery/pkg/apis/meta/v1"
	"pgregory.net/rapid"

	ersctrl "github.com/DataDog/extendeddaemonset/controllers/extendeddaemonsetreplicaset"
	"github.com/DataDog/extendeddaemonset/controllers/extendeddaemonsetreplicaset/strategy"
	podutils "github.com/DataDog/extendeddaemonset/pkg/controller/utils/pod"
	"verifharness/evid"
	"verifharness/mon"
	"verifharness/oracle"
	"verifharness/sim"
)

// TestC10ThroughCreatePods: the pod the replica-set controller really stores for a node - built by its parallel
// creation helper - is the pod CreatePodFromDaemonSetReplicaSet builds from the same inputs (which TestC10CreatedPod
// judges field by field), and the comparison keeps it. The inputs of TestC10CreatedPod, with the applicable setting
// sometimes being deleted under a finalizer (it still exists and still applies).
func TestC10ThroughCreatePods(t *testing.T) {
	rec := evid.New("TestC10ThroughCreatePods", "C10", "the inputs of TestC10CreatedPod (template x node with override annotations x optional valid setting x both node-assignment modes), the setting in one case out of three being deleted under a finalizer (deletionTimestamp set, still listed); the pod is created through the controller's parallel creation helper against the simulated API and read back; oracle: it equals, name and server-set fields aside, the pod CreatePodFromDaemonSetReplicaSet builds from the same inputs, and the exported ManageDeployment with an unlimited budget keeps it; non-trivial = an applicable setting or an override annotation; distinct by JSON of the inputs")
	t.Cleanup(func() {
		if !t.Failed() {
			rec.Done()
		}
	})
	rapid.Check(t, func(rt *rapid.T) {
		k := c10Draw(rt)
		terminating := false
		if k.Setting != nil && rapid.IntRange(0, 2).Draw(rt, "settingTerminating") == 0 {
			ts := metav1.NewTime(time.Unix(1700000000, 0))
			k.Setting.DeletionTimestamp, k.Setting.Finalizers = &ts, []string{"verif/keep"}
			terminating = true
		}
		var vs []mon.V
		add := func(sig, detail string) {
			vs = append(vs, mon.V{Property: "C10", Monitor: "created-pod", Sig: sig, Detail: detail + "\ncase: " + k.Desc})
		}
		c := sim.New(sim.Options{AffinityMode: k.Affinity})
		node := c.AddNode("n1", k.NodeLabels, nil)
		if len(k.NodeAnn) > 0 {
			c.MutateNode("n1", func(x *corev1.Node) { x.Annotations = k.NodeAnn })
			node = c.Node("n1")
		}
		rs := c10RS(k.Template)
		c.Add(rs.DeepCopy())
		want, werr := podutils.CreatePodFromDaemonSetReplicaSet(sim.Scheme, rs, node, k.Setting, k.Affinity)
		errs := ersctrl.CreatePodsForVerif(logr.Discard(), c.ClientFor(sim.ActorERS), sim.Scheme, k.Affinity, rs, []*strategy.NodeItem{strategy.NewNodeItem(node, k.Setting)})
		pods := c.Pods()
		nt := k.Setting != nil || len(k.NodeAnn) > 0
		rec.Case(nt, evid.FP(fmt.Sprintf("%v|%v|%v|%v|%v|%v", k.Template, k.NodeLabels, k.NodeAnn, k.Setting, k.Affinity, terminating)), fmt.Sprintf("setting-terminating=%v", terminating))
		rec.Steps(1)
		if nt && rec.WantSample() {
			rec.Sample(map[string]interface{}{"what": k.Desc, "settingTerminating": terminating, "affinityMode": k.Affinity})
		}
		switch {
		case want == nil:
			// nothing to compare with (TestC10CreatedPod reports a nil pod)
		case len(pods) != 1:
			if werr == nil && len(errs) == 0 {
				add("C10/through-create-pods/count", fmt.Sprintf("%d pods stored for one node, no error reported", len(pods)))
			}
		default:
			got := pods[0]
			if !apiequality.Semantic.DeepEqual(got.Spec, want.Spec) {
				add("C10/through-create-pods/spec-differs", fmt.Sprintf("the stored pod's spec differs from the one built from the same inputs (setting terminating: %v): resources %v vs %v, affinity %v vs %v", terminating, got.Spec.Containers[0].Resources, want.Spec.Containers[0].Resources, got.Spec.Affinity, want.Spec.Affinity))
			}
			if !apiequality.Semantic.DeepEqual(got.Labels, want.Labels) || !apiequality.Semantic.DeepEqual(got.Annotations, want.Annotations) {
				add("C10/through-create-pods/metadata-differs", fmt.Sprintf("labels %v vs %v; annotations %v vs %v (setting terminating: %v)", got.Labels, want.Labels, got.Annotations, want.Annotations, terminating))
			}
			if len(vs) == 0 {
				if out, err := c10Outdated(c, rs, node, k.Setting, got); err == nil && out {
					add("C10/through-create-pods/fresh-pod-outdated", fmt.Sprintf("the pod just stored for node %s is judged outdated for the inputs it was built from (setting terminating: %v)", oracle.NodeOf(got), terminating))
				}
			}
		}
		settle(rt, rec, vs, map[string]interface{}{"case": k.Desc, "settingTerminating": terminating}, 1, "")
	})
}
