// Package oracle holds the reference predicates the checks judge the
// controller against. They are written from the property statements and the
// Kubernetes API documentation and never call repository code.
package oracle

import (
	"crypto/md5"
	"encoding/hex"
	"encoding/json"
	"math"
	"math/big"
	"sort"
	"strconv"
	"strings"
	"time"

	corev1 "k8s.io/api/core/v1"
	"k8s.io/apimachinery/pkg/util/intstr"

	edsv1 "github.com/DataDog/extendeddaemonset/api/v1alpha1"
)

// Label / annotation keys (API constants, restated).
const (
	LabelEDSName      = "extendeddaemonset.datadoghq.com/name"
	LabelRSName       = "extendeddaemonsetreplicaset.datadoghq.com/name"
	LabelCanary       = "extendeddaemonsetreplicaset.datadoghq.com/canary"
	LabelSettingName  = "extendeddaemonsetsetting.datadoghq.com/name"
	LabelSettingNS    = "extendeddaemonsetsetting.datadoghq.com/namespace"
	AnnTemplateHash   = "extendeddaemonset.datadoghq.com/templatehash"
	AnnNodeHash       = "extendeddaemonset.datadoghq.com/nodehash"
	AnnCanaryValid    = "extendeddaemonset.datadoghq.com/canary-valid"
	AnnCanaryPaused   = "extendeddaemonset.datadoghq.com/canary-paused"
	AnnCanaryReason   = "extendeddaemonset.datadoghq.com/canary-paused-reason"
	AnnCanaryUnpaused = "extendeddaemonset.datadoghq.com/canary-unpaused"
	AnnOldDaemonset   = "extendeddaemonset.datadoghq.com/old-daemonset"
	AnnRollingPaused  = "extendeddaemonset.datadoghq.com/rolling-update-paused"
	AnnRolloutFrozen  = "extendeddaemonset.datadoghq.com/rollout-frozen"
)

// DefaultTolerations are the tolerations the DaemonSet controller documents
// (kubernetes.io/docs/concepts/workloads/controllers/daemonset/#taints-and-tolerations).
var DefaultTolerations = []corev1.Toleration{
	{Key: "node.kubernetes.io/not-ready", Operator: corev1.TolerationOpExists, Effect: corev1.TaintEffectNoExecute},
	{Key: "node.kubernetes.io/unreachable", Operator: corev1.TolerationOpExists, Effect: corev1.TaintEffectNoExecute},
	{Key: "node.kubernetes.io/disk-pressure", Operator: corev1.TolerationOpExists, Effect: corev1.TaintEffectNoSchedule},
	{Key: "node.kubernetes.io/memory-pressure", Operator: corev1.TolerationOpExists, Effect: corev1.TaintEffectNoSchedule},
	{Key: "node.kubernetes.io/unschedulable", Operator: corev1.TolerationOpExists, Effect: corev1.TaintEffectNoSchedule},
	{Key: "node.kubernetes.io/network-unavailable", Operator: corev1.TolerationOpExists, Effect: corev1.TaintEffectNoSchedule},
}

// ---------------------------------------------------------------- eligibility

// Malformed: a requirement the Kubernetes selector grammar rejects (the term that carries it matches nothing).
func Malformed(r corev1.NodeSelectorRequirement) bool {
	switch r.Operator {
	case corev1.NodeSelectorOpIn, corev1.NodeSelectorOpNotIn:
		return len(r.Values) == 0
	case corev1.NodeSelectorOpExists, corev1.NodeSelectorOpDoesNotExist:
		return len(r.Values) != 0
	case corev1.NodeSelectorOpGt, corev1.NodeSelectorOpLt:
		if len(r.Values) != 1 {
			return true
		}
		_, err := strconv.ParseInt(r.Values[0], 10, 64)
		return err != nil
	}
	return true // unknown operator
}

func matchExpr(r corev1.NodeSelectorRequirement, labels map[string]string) bool {
	if Malformed(r) {
		return false
	}
	v, has := labels[r.Key]
	switch r.Operator {
	case corev1.NodeSelectorOpIn:
		if !has {
			return false
		}
		for _, x := range r.Values {
			if x == v {
				return true
			}
		}
		return false
	case corev1.NodeSelectorOpNotIn:
		if !has {
			return true
		}
		for _, x := range r.Values {
			if x == v {
				return false
			}
		}
		return true
	case corev1.NodeSelectorOpExists:
		return has
	case corev1.NodeSelectorOpDoesNotExist:
		return !has
	case corev1.NodeSelectorOpGt, corev1.NodeSelectorOpLt:
		if !has || len(r.Values) != 1 {
			return false
		}
		a, err1 := strconv.ParseInt(v, 10, 64)
		b, err2 := strconv.ParseInt(r.Values[0], 10, 64)
		if err1 != nil || err2 != nil {
			return false
		}
		if r.Operator == corev1.NodeSelectorOpGt {
			return a > b
		}
		return a < b
	}
	return false
}

func matchField(r corev1.NodeSelectorRequirement, nodeName string) bool {
	if r.Key != "metadata.name" || len(r.Values) != 1 {
		return false
	}
	switch r.Operator {
	case corev1.NodeSelectorOpIn:
		return r.Values[0] == nodeName
	case corev1.NodeSelectorOpNotIn:
		return r.Values[0] != nodeName
	}
	return false
}

// MatchesSelectors: nodeSelector and required node affinity of the template against the node.
func MatchesSelectors(spec *corev1.PodSpec, node *corev1.Node) bool {
	for k, v := range spec.NodeSelector {
		if nv, ok := node.Labels[k]; !ok || nv != v {
			return false
		}
	}
	if spec.Affinity == nil || spec.Affinity.NodeAffinity == nil || spec.Affinity.NodeAffinity.RequiredDuringSchedulingIgnoredDuringExecution == nil {
		return true
	}
	for _, term := range spec.Affinity.NodeAffinity.RequiredDuringSchedulingIgnoredDuringExecution.NodeSelectorTerms {
		if len(term.MatchExpressions) == 0 && len(term.MatchFields) == 0 {
			continue
		}
		ok := true
		for _, e := range term.MatchExpressions {
			if !matchExpr(e, node.Labels) {
				ok = false
				break
			}
		}
		for _, f := range term.MatchFields {
			if !ok {
				break
			}
			if !matchField(f, node.Name) {
				ok = false
			}
		}
		if ok {
			return true
		}
	}
	return false
}

// Tolerates says whether one toleration tolerates one taint (Kubernetes semantics).
func Tolerates(t corev1.Toleration, taint corev1.Taint) bool {
	if t.Effect != "" && t.Effect != taint.Effect {
		return false
	}
	if t.Key != "" && t.Key != taint.Key {
		return false
	}
	switch t.Operator {
	case corev1.TolerationOpExists:
		return true
	case corev1.TolerationOpEqual, "":
		return t.Value == taint.Value
	}
	return false
}

// ToleratesTaints: every NoSchedule/NoExecute taint is tolerated by the template's
// tolerations or one of the default DaemonSet tolerations.
func ToleratesTaints(spec *corev1.PodSpec, node *corev1.Node) bool {
	tols := append(append([]corev1.Toleration{}, spec.Tolerations...), DefaultTolerations...)
	for _, taint := range node.Spec.Taints {
		if taint.Effect != corev1.TaintEffectNoSchedule && taint.Effect != corev1.TaintEffectNoExecute {
			continue
		}
		ok := false
		for _, t := range tols {
			if Tolerates(t, taint) {
				ok = true
				break
			}
		}
		if !ok {
			return false
		}
	}
	return true
}

// Eligible: may a pod of this template run on this node.
func Eligible(tpl *corev1.PodTemplateSpec, node *corev1.Node) bool {
	return node != nil && MatchesSelectors(&tpl.Spec, node) && ToleratesTaints(&tpl.Spec, node)
}

// NodeOf is the node a pod is bound or pinned to ("" if neither).
func NodeOf(p *corev1.Pod) string {
	if p.Spec.NodeName != "" {
		return p.Spec.NodeName
	}
	a := p.Spec.Affinity
	if a == nil || a.NodeAffinity == nil || a.NodeAffinity.RequiredDuringSchedulingIgnoredDuringExecution == nil {
		return ""
	}
	for _, t := range a.NodeAffinity.RequiredDuringSchedulingIgnoredDuringExecution.NodeSelectorTerms {
		for _, f := range t.MatchFields {
			if f.Key == "metadata.name" && len(f.Values) > 0 {
				return f.Values[0]
			}
		}
	}
	return ""
}

// Keeper: among several pods of one node the statement keeps "a scheduled pod
// if any, the oldest among those"; ties broken by name.
func Keeper(pods []*corev1.Pod) *corev1.Pod {
	if len(pods) == 0 {
		return nil
	}
	c := append([]*corev1.Pod(nil), pods...)
	sort.SliceStable(c, func(i, j int) bool {
		si, sj := c[i].Spec.NodeName != "", c[j].Spec.NodeName != ""
		if si != sj {
			return si
		}
		if !c[i].CreationTimestamp.Time.Equal(c[j].CreationTimestamp.Time) {
			return c[i].CreationTimestamp.Time.Before(c[j].CreationTimestamp.Time)
		}
		return c[i].Name < c[j].Name
	})
	return c[0]
}

// IsReady: the pod's Ready condition is True.
func IsReady(p *corev1.Pod) bool {
	for _, c := range p.Status.Conditions {
		if c.Type == corev1.PodReady {
			return c.Status == corev1.ConditionTrue
		}
	}
	return false
}

// Unresponsive: unscheduled for more than 10 minutes, or terminating past its grace period.
func Unresponsive(p *corev1.Pod, now time.Time) bool {
	if p.Spec.NodeName == "" && p.CreationTimestamp.Add(10*time.Minute).Before(now) {
		return true
	}
	if p.DeletionTimestamp != nil && p.DeletionGracePeriodSeconds != nil &&
		p.DeletionTimestamp.Add(time.Duration(*p.DeletionGracePeriodSeconds)*time.Second).Before(now) {
		return true
	}
	return false
}

// ---------------------------------------------------------------- numbers

// Resolve an int-or-percent against a base, rounding up; ok=false if malformed.
func Resolve(v *intstr.IntOrString, base int) (int, bool) {
	if v == nil {
		return 0, false
	}
	if v.Type == intstr.Int {
		return int(v.IntVal), true
	}
	s := v.StrVal
	if !strings.HasSuffix(s, "%") {
		return 0, false
	}
	n, err := strconv.Atoi(strings.TrimSuffix(s, "%"))
	if err != nil {
		return 0, false
	}
	return int(math.Ceil(float64(n) * float64(base) / 100)), true
}

// CreationBound = min(maxParallel, (1 + floor(t/interval)) * increase), in big integers.
func CreationBound(t, interval time.Duration, increase int, maxParallel int32) int64 {
	if interval <= 0 {
		return int64(maxParallel)
	}
	if t < 0 {
		t = 0
	}
	slots := new(big.Int).SetInt64(int64(t / interval))
	slots.Add(slots, big.NewInt(1))
	slots.Mul(slots, big.NewInt(int64(increase)))
	mp := big.NewInt(int64(maxParallel))
	if slots.Cmp(mp) > 0 {
		return mp.Int64()
	}
	return slots.Int64()
}

// ---------------------------------------------------------------- templates and hashes

// TemplateHash is the MD5 of the JSON rendering of a pod template (what the
// project documents as the template hash).
func TemplateHash(tpl *corev1.PodTemplateSpec) string {
	b, _ := json.Marshal(tpl)
	s := md5.Sum(b)
	return hex.EncodeToString(s[:])
}

// RSMatchesTemplate: the replica set's recorded hash equals the hash of tpl.
func RSMatchesTemplate(rs *edsv1.ExtendedDaemonSetReplicaSet, tpl *corev1.PodTemplateSpec) bool {
	return rs.Annotations[AnnTemplateHash] == TemplateHash(tpl)
}

// ---------------------------------------------------------------- conditions

// RSCond returns the replica-set condition of a type or nil.
func RSCond(st *edsv1.ExtendedDaemonSetReplicaSetStatus, t edsv1.ExtendedDaemonSetReplicaSetConditionType) *edsv1.ExtendedDaemonSetReplicaSetCondition {
	for i := range st.Conditions {
		if st.Conditions[i].Type == t {
			return &st.Conditions[i]
		}
	}
	return nil
}

// RSCondTrue says whether a replica-set condition is True.
func RSCondTrue(st *edsv1.ExtendedDaemonSetReplicaSetStatus, t edsv1.ExtendedDaemonSetReplicaSetConditionType) bool {
	c := RSCond(st, t)
	return c != nil && c.Status == corev1.ConditionTrue
}

// EDSCond returns the EDS condition of a type or nil.
func EDSCond(st *edsv1.ExtendedDaemonSetStatus, t edsv1.ExtendedDaemonSetConditionType) *edsv1.ExtendedDaemonSetCondition {
	for i := range st.Conditions {
		if st.Conditions[i].Type == t {
			return &st.Conditions[i]
		}
	}
	return nil
}

// ---------------------------------------------------------------- roles

// Role of a replica set as the API objects define it.
type Role string

// Roles.
const (
	RoleActive  Role = "active"
	RoleCanary  Role = "canary"
	RoleUnknown Role = "unknown"
)

// RoleOf derives the role from the EDS status.
func RoleOf(eds *edsv1.ExtendedDaemonSet, rsName string) Role {
	if eds == nil || eds.Status.ActiveReplicaSet == "" {
		return RoleUnknown
	}
	if eds.Status.ActiveReplicaSet == rsName {
		return RoleActive
	}
	if eds.Status.Canary != nil && eds.Status.Canary.ReplicaSet == rsName {
		return RoleCanary
	}
	return RoleUnknown
}

// OwnerEDSName is the name of the ExtendedDaemonSet owning a replica set ("" if none).
func OwnerEDSName(rs *edsv1.ExtendedDaemonSetReplicaSet) string {
	for _, ref := range rs.OwnerReferences {
		if ref.Kind == "ExtendedDaemonSet" {
			return ref.Name
		}
	}
	return ""
}

// Contains reports membership.
func Contains(l []string, s string) bool {
	for _, x := range l {
		if x == s {
			return true
		}
	}
	return false
}
