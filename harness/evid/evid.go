// Package evid collects, inside a test process, what a check actually covered
// (cases, non-trivial fingerprints, class histogram, samples) and every
// violation a monitor reported, and writes them to the file named by VERIF_EVID
// for the driver to merge.
package evid

import (
	"encoding/json"
	"fmt"
	"hash/fnv"
	"os"
	"sort"
	"sync"
)

// Violation is one firing of an oracle/monitor.
type Violation struct {
	Property  string      `json:"property"`
	Monitor   string      `json:"monitor"`
	Signature string      `json:"signature"`
	Detail    string      `json:"detail"`
	Trace     interface{} `json:"trace,omitempty"`
	size      int
}

// File is what one process hands to the driver.
type File struct {
	Test        string                 `json:"test"`
	Property    string                 `json:"property"`
	Evaluations int64                  `json:"evaluations"`
	Steps       int64                  `json:"steps"`
	Nontrivial  []string               `json:"nontrivial_fps"`
	Classes     map[string]int64       `json:"classes"`
	Samples     []interface{}          `json:"samples"`
	Violations  []*Violation           `json:"violations"`
	Extra       map[string]interface{} `json:"extra,omitempty"`
	Rule        string                 `json:"rule"`
	Exhaustive  bool                   `json:"exhaustive,omitempty"`
	Completed   bool                   `json:"completed"`
}

// Rec is a recorder for one test.
type Rec struct {
	mu      sync.Mutex
	f       File
	fps     map[uint64]struct{}
	viol    map[string]*Violation
	maxSamp int
}

var (
	regMu sync.Mutex
	reg   []*Rec
)

// New starts a recorder; Flush (or FlushAll from TestMain) writes it out.
func New(test, property, rule string) *Rec {
	r := &Rec{fps: map[uint64]struct{}{}, viol: map[string]*Violation{}, maxSamp: 6}
	r.f.Test, r.f.Property, r.f.Rule = test, property, rule
	r.f.Classes = map[string]int64{}
	r.f.Extra = map[string]interface{}{}
	regMu.Lock()
	reg = append(reg, r)
	regMu.Unlock()
	return r
}

// FP hashes any rendering of a case.
func FP(parts ...interface{}) uint64 {
	h := fnv.New64a()
	for _, p := range parts {
		fmt.Fprintf(h, "%v\x00", p)
	}
	return h.Sum64()
}

// Case counts one executed case. nontrivial per the test's stated rule.
func (r *Rec) Case(nontrivial bool, fp uint64, classes ...string) {
	r.mu.Lock()
	defer r.mu.Unlock()
	r.f.Evaluations++
	if nontrivial {
		r.fps[fp] = struct{}{}
	}
	for _, c := range classes {
		r.f.Classes[c]++
	}
}

// Class bumps a class counter without counting a case.
func (r *Rec) Class(c string, n int64) {
	r.mu.Lock()
	r.f.Classes[c] += n
	r.mu.Unlock()
}

// Steps adds executed steps (state machines: actions; monitors: records checked).
func (r *Rec) Steps(n int) {
	r.mu.Lock()
	r.f.Steps += int64(n)
	r.mu.Unlock()
}

// Sample keeps a few rendered cases (the first ones that are offered).
func (r *Rec) Sample(v interface{}) {
	r.mu.Lock()
	if len(r.f.Samples) < r.maxSamp {
		r.f.Samples = append(r.f.Samples, v)
	}
	r.mu.Unlock()
}

// WantSample says whether another sample would be kept.
func (r *Rec) WantSample() bool {
	r.mu.Lock()
	defer r.mu.Unlock()
	return len(r.f.Samples) < r.maxSamp
}

// Extra stores a free-form evidence key.
func (r *Rec) Extra(k string, v interface{}) {
	r.mu.Lock()
	r.f.Extra[k] = v
	r.mu.Unlock()
}

// Exhaustive marks the run as a complete enumeration.
func (r *Rec) Exhaustive(b bool) {
	r.mu.Lock()
	r.f.Exhaustive = b
	r.mu.Unlock()
}

// Violation records a violation; per signature the smallest trace is kept.
func (r *Rec) Violation(monitor, signature, detail string, trace interface{}, size int) {
	r.mu.Lock()
	defer r.mu.Unlock()
	v := &Violation{Property: r.f.Property, Monitor: monitor, Signature: signature, Detail: detail, Trace: trace, size: size}
	if old, ok := r.viol[signature]; !ok || size < old.size {
		r.viol[signature] = v
	}
}

// HasViolation tells whether a signature was already recorded.
func (r *Rec) HasViolation(signature string) bool {
	r.mu.Lock()
	defer r.mu.Unlock()
	_, ok := r.viol[signature]
	return ok
}

// Done marks the test as having run to completion (all requested cases).
func (r *Rec) Done() {
	r.mu.Lock()
	r.f.Completed = true
	r.mu.Unlock()
}

func (r *Rec) snapshot() File {
	r.mu.Lock()
	defer r.mu.Unlock()
	f := r.f
	f.Nontrivial = make([]string, 0, len(r.fps))
	for fp := range r.fps {
		f.Nontrivial = append(f.Nontrivial, fmt.Sprintf("%016x", fp))
	}
	sort.Strings(f.Nontrivial)
	f.Violations = nil
	sigs := make([]string, 0, len(r.viol))
	for s := range r.viol {
		sigs = append(sigs, s)
	}
	sort.Strings(sigs)
	for _, s := range sigs {
		f.Violations = append(f.Violations, r.viol[s])
	}
	return f
}

// FlushAll writes every recorder of this process to $VERIF_EVID (JSON lines).
func FlushAll() {
	path := os.Getenv("VERIF_EVID")
	if path == "" {
		return
	}
	regMu.Lock()
	defer regMu.Unlock()
	fh, err := os.OpenFile(path, os.O_CREATE|os.O_WRONLY|os.O_APPEND, 0o644)
	if err != nil {
		fmt.Fprintln(os.Stderr, "evid:", err)
		return
	}
	defer fh.Close()
	enc := json.NewEncoder(fh)
	for _, r := range reg {
		f := r.snapshot()
		if err := enc.Encode(&f); err != nil {
			fmt.Fprintln(os.Stderr, "evid:", err)
		}
	}
}
