#!/usr/bin/env python3
"""Evaluate one seeded change delivered by a sub-agent in a scratch worktree.

  tools/seedeval.py <seed-id> <worktree> <property> [more properties to run...]

1. confirms, in the worktree, that with the patch the touched packages' existing tests pass
   and the demonstration fails, and that without the patch the demonstration passes;
2. stores patch.diff, the demonstration and meta.json under /verif/seeded/<seed-id>/;
3. applies the patch to /repo, runs the quick checks of the given properties, records which
   report a violation, and restores /repo (git checkout -- .).
The worktree is left for the caller to remove.
"""
import json, os, re, shutil, subprocess, sys, time

ROOT = os.path.dirname(os.path.dirname(os.path.abspath(__file__)))
ENV = dict(os.environ, GOFLAGS="", GOPROXY="off", GOSUMDB="off", GOTOOLCHAIN="local")
ENV.pop("GOWORK", None)


def sh(cmd, cwd=None, timeout=1800):
    p = subprocess.run(cmd, cwd=cwd, shell=True, env=ENV, stdout=subprocess.PIPE, stderr=subprocess.STDOUT, text=True, timeout=timeout)
    return p.returncode, p.stdout


def main():
    sid, wt, props = sys.argv[1], sys.argv[2], sys.argv[3:]
    seed = os.path.join(wt, "SEED")
    meta = json.load(open(os.path.join(seed, "meta.json")))
    demo_src = open(os.path.join(seed, "demo_test.go.txt")).read()
    placement = meta.get("demo_placement", "")
    cands = re.findall(r"([\w./-]+/[\w.-]+_test\.go)", placement + " " + demo_src.splitlines()[0])
    cands = [re.sub(r"^.*?((controllers|pkg|api|cmd)/)", r"\1", c) for c in cands if re.search(r"(controllers|pkg|api|cmd)/", c)]
    if not cands:
        print("cannot determine demo placement from", placement)
        return 2
    demo_rel = cands[0]
    if demo_rel.startswith(wt.lstrip("/")):
        demo_rel = demo_rel[len(wt.lstrip("/")) + 1:]
    demo_rel = re.sub(r"^tmp/wt-[^/]+/", "", demo_rel)
    demo_path = os.path.join(wt, demo_rel)
    pkg = "./" + os.path.dirname(demo_rel)
    res = {"seed": sid, "properties": props, "demo": demo_rel}
    sh("git checkout -- . ", cwd=wt)
    # --- without the patch: demo passes
    open(demo_path, "w").write(demo_src)
    moddir = wt + "/api" if demo_rel.startswith("api/") else wt
    pkgarg = "./" + os.path.dirname(demo_rel[4:]) if demo_rel.startswith("api/") else pkg
    # honour -race / -run of the agent's own demo command (a package may contain an always-failing test)
    dc = meta.get("demo_command", "") + " " + demo_src.splitlines()[0]
    extra = ""
    if "-race" in dc:
        extra += " -race"
    mrun = re.search(r"-run[ =]+'?\"?([^'\" ]+)", dc)
    if mrun:
        extra += " -run '%s'" % mrun.group(1)
    rc0, out0 = sh("go test -count=1%s %s" % (extra, pkgarg), cwd=moddir)
    res["demo_passes_without_patch"] = rc0 == 0
    # --- with the patch: existing tests pass, demo fails
    rc, out = sh("git apply SEED/patch.diff", cwd=wt)
    if rc != 0:
        print("patch does not apply:", out)
        return 2
    rc1, out1 = sh("go test -count=1%s %s" % (extra, pkgarg), cwd=moddir)
    res["demo_fails_with_patch"] = rc1 != 0
    os.remove(demo_path)
    rcb, outb = sh("go build ./... && go vet ./controllers/... ./pkg/... 2>&1 | tail -3", cwd=wt)
    rc2, out2 = sh("go test -count=1 ./controllers/... ./pkg/... 2>&1 | grep -v 'no test files'", cwd=wt)
    rc3, out3 = sh("go test -count=1 ./... 2>&1 | grep -v 'no test files'", cwd=wt + "/api")
    fails = [l for l in (out2 + out3).splitlines() if l.startswith("FAIL") or l.startswith("--- FAIL")]
    fails = [l for l in fails if "TestAPIs" not in l and not re.match(r"FAIL\s+github.com/DataDog/extendeddaemonset/controllers\s", l) and l.strip() != "FAIL"]
    res["existing_tests_pass_with_patch"] = not fails
    res["existing_test_failures"] = fails
    sh("git checkout -- .", cwd=wt)
    ok = res["demo_passes_without_patch"] and res["demo_fails_with_patch"] and res["existing_tests_pass_with_patch"]
    res["confirmed"] = ok
    print(json.dumps(res, indent=1))
    if not ok:
        print("--- demo without patch ---\n", out0[-1500:], "\n--- demo with patch ---\n", out1[-1500:])
        return 1
    dst = os.path.join(ROOT, "seeded", sid)
    os.makedirs(dst, exist_ok=True)
    shutil.copy(os.path.join(seed, "patch.diff"), dst)
    shutil.copy(os.path.join(seed, "demo_test.go.txt"), dst)
    # --- run the checks against the patched tree. Default: the scratch worktree itself (VERIF_REPO), so that
    # /repo is never touched and several seeds can be evaluated at once; with SEEDEVAL_IN_REPO=1 the patch is
    # applied to /repo (git apply), the registered commands run unchanged, and /repo is restored afterwards.
    caught = {}
    in_repo = os.environ.get("SEEDEVAL_IN_REPO") == "1"
    scratch = "/var/tmp/verif-seed-%s" % sid
    shutil.rmtree(scratch, ignore_errors=True)
    env_prefix = ""
    if in_repo:
        st = subprocess.run("git -C /repo status --porcelain", shell=True, stdout=subprocess.PIPE, text=True).stdout
        if st.strip():
            print("/repo is not clean, refusing to apply")
            return 2
        rc, out = sh("git -C /repo apply %s" % os.path.join(dst, "patch.diff"))
    else:
        rc, out = sh("git apply SEED/patch.diff", cwd=wt)
        os.makedirs(scratch + "/build")
        env_prefix = "VERIF_REPO=%s VERIF_BUILD=%s/build VERIF_OUT=%s/out " % (wt, scratch, scratch)
    if rc != 0:
        print("patch does not apply:", out)
        return 2
    try:
        for p in props:
            t0 = time.time()
            rcp, outp = sh(env_prefix + "./verif check %s --tier quick" % p, cwd=ROOT, timeout=3600)
            sigs = re.findall(r"signature=(\S+)", outp)
            caught[p] = {"exit": rcp, "signatures": sorted(set(sigs))[:6], "wall_s": round(time.time() - t0, 1)}
            print(p, "exit", rcp, sorted(set(sigs))[:6])
            if rcp == 2:
                print(outp[-1500:])
    finally:
        if in_repo:
            sh("git -C /repo checkout -- .")
            sh("find %s/replays -name '*.json' -newermt '-30 minutes' -delete" % ROOT)
        else:
            sh("git checkout -- .", cwd=wt)
            shutil.rmtree(scratch, ignore_errors=True)
    meta_out = {"seed": sid, "breaks_property": meta.get("property"), "summary": meta.get("summary"),
                "needs_to_manifest": meta.get("what_it_needs_to_manifest"), "files_changed": meta.get("files_changed"),
                "demo_placement": demo_rel, "confirmation": {k: res[k] for k in ("demo_passes_without_patch", "demo_fails_with_patch", "existing_tests_pass_with_patch")},
                "what_i_ran": "tools/seedeval.py: demo without/with patch in a scratch worktree, go build+vet, existing tests of ./controllers/... ./pkg/... and ./api/... with the patch, then quick checks against /repo with the patch applied (reverted afterwards)",
                "checks": caught}
    json.dump(meta_out, open(os.path.join(dst, "meta.json"), "w"), indent=1)
    return 0


if __name__ == "__main__":
    sys.exit(main())
