#!/usr/bin/env python3
"""Regenerates /verif/MANIFEST.json from verif_props.PROPS (claimed checks) and
properties.jsonl (everything else goes to not_applicable with its reason)."""
import json, os, subprocess, sys
ROOT = os.path.dirname(os.path.dirname(os.path.abspath(__file__)))
sys.path.insert(0, ROOT)
from verif_props import PROPS, NOT_APPLICABLE  # noqa

props = [json.loads(l) for l in open(os.path.join(ROOT, "properties.jsonl"))]
hook_commits = subprocess.run(["git", "-C", "/repo", "log", "--format=%H %s", "--grep=^verif hook:"],
                              stdout=subprocess.PIPE, text=True).stdout.strip().splitlines()
checks = []
na = []
for p in props:
    pid = p["id"]
    if pid in PROPS:
        s = PROPS[pid]
        checks.append({
            "property_id": pid,
            "quick_cmd": "./verif check %s --tier quick" % pid,
            "thorough_cmd": "./verif check %s --tier thorough" % pid,
            "evidence_file": "/verif/evidence/%s.json" % pid,
            "replay_cmd_template": "./verif replay {path}",
            "engine": "rapid+gofuzz",
            "level_claimed": {"category": s.get("level", "exploration"), "text": s["level_text"], "design_ref": s.get("design_ref", "DESIGN.md section 6, " + pid)},
            "level_note": s["level_note"],
            "technique": s["technique"],
        })
    else:
        na.append({"property_id": pid, "reason": NOT_APPLICABLE.get(pid, "no check registered yet (machinery under construction; see DESIGN.md section 6)")})
m = {
    "version": 1,
    "setup_cmd": "./verif setup",
    "hooks": {
        "guard": "verif",
        "enable": "go test -tags verif,verif_plugin,verif_metrics,verif_canary,verif_rolling,verif_par -overlay /verif/.build/overlay.json (the overlay, derived from the current /repo tree by tools/mkoverlay, substitutes the virtual clock; the tagged zz_verif_*.go files only add exported wrappers)",
        "baseline_off_cmd": "for m in . api; do (cd /repo/$m && env GOFLAGS= go test -json -vet=off -count=1 -timeout 25m ./...); done",
        "source_commits": [c.split()[0] for c in hook_commits],
        "add_only": True,
    },
    "engines": [
        {"name": "rapid+gofuzz", "path": "/verif/harness", "serves_properties": sorted(PROPS), "kind_free_text": "pgregory.net/rapid v1.3.0 property tests (stateful where the property is over histories) and native go fuzz targets over a simulated cluster that runs the real reconcilers; driver /verif/verif"},
    ],
    "checks": checks,
    "not_applicable": na,
    "notes": "Known findings and fixed defects: /verif/KNOWN_FINDINGS.txt. Exit 2 of a check means inconclusive (build failure/timeout), never a violation.",
}
json.dump(m, open(os.path.join(ROOT, "MANIFEST.json"), "w"), indent=1)
print("MANIFEST.json: %d checks, %d not_applicable" % (len(checks), len(na)))
