#!/usr/bin/env python3
"""Build the prompt for a seeding sub-agent: property text + the sites/mechanisms of earlier seeds to avoid.
usage: mkseedprompt.py <Cnn> <worktree> <round-letter> [focus text]  -> prints the prompt
The agent gets nothing from /verif: only the property text and its own scratch worktree."""
import glob, json, os, sys
ROOT = os.path.dirname(os.path.dirname(os.path.abspath(__file__)))
pid, wt, letter = sys.argv[1:4]
focus = sys.argv[4] if len(sys.argv) > 4 else ""
prop = next(json.loads(l) for l in open(os.path.join(ROOT, "properties.jsonl")) if json.loads(l)["id"] == pid)
text = "%s — %s\n\nStatement: %s\n\nQuantified over: %s\n\nCode it is anchored in: %s\n" % (
    pid, prop["title"], prop["statement"], prop["quantifier"]["text"], ", ".join(prop["anchors"]["files"]))
prev = []
for d in sorted(glob.glob(os.path.join(ROOT, "seeded", "S-%s-*" % pid))):
    m = json.load(open(os.path.join(d, "meta.json")))
    prev.append("(%s) %s [files: %s]" % (os.path.basename(d)[-1], m["summary"][:260], ", ".join(m.get("files_changed", []))))
if prev:
    text += "\n\nIMPORTANT - this is a LATER round. Previous attempts already changed: " + " ; ".join(prev) + \
        ". Do NOT reuse those code sites or mechanisms. " + (("This time aim for: " + focus + " ") if focus else "") + \
        "The change must be subtle enough that a careful reviewer could approve it, and its manifestation must need a specific multi-step history, timing, input combination or fault point.\n"
t = open(os.path.join(ROOT, "tools", "seed_prompt.tmpl")).read()
print(t.replace("PROPERTY_TEXT", text).replace("PROP_ID", pid).replace("WT", wt))
