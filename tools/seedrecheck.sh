#!/bin/bash
# seedrecheck.sh <seed-id> <worktree> <prop> [verif args...]: apply seeded/<id>/patch.diff in the scratch worktree,
# run one check against it (VERIF_REPO), revert. /repo is never touched.
sid=$1; wt=$2; prop=$3; shift 3
scratch=/var/tmp/verif-seed-$sid-re
rm -rf $scratch; mkdir -p $scratch/build
git -C $wt checkout -- . && git -C $wt apply /verif/seeded/$sid/patch.diff || exit 2
(cd /verif && VERIF_REPO=$wt VERIF_BUILD=$scratch/build VERIF_OUT=$scratch/out ./verif check $prop --tier quick "$@" 2>&1 | grep -E "VIOLATION|KNOWN|OK |INCONCL|signature=" | sort | uniq -c | head -20)
git -C $wt checkout -- .
rm -rf $scratch
