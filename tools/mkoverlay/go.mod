module mkoverlay

go 1.22
