// mkoverlay derives, from the *current* /repo tree, the sources in which every
// wall-clock read is replaced by a read of the harness-owned virtual clock, and
// writes a `go build -overlay` file for them. It never touches /repo.
//
//	time.Now()                   -> verifclock.Now()
//	time.Since(x)                -> verifclock.Since(x)
//	metav1.Now()                 -> verifclock.MetaNow()
//	flowcontrol.NewBackOff(a, b) -> verifclock.WrapBackOff(flowcontrol.NewBackOff(a, b))
//
// stdlib only.
package main

import (
	"bytes"
	"encoding/json"
	"flag"
	"fmt"
	"go/ast"
	"go/format"
	"go/parser"
	"go/token"
	"os"
	"path/filepath"
	"sort"
	"strconv"
	"strings"
)

const clockImport = "github.com/DataDog/extendeddaemonset/pkg/verifclock"

type site struct {
	File string `json:"file"`
	Line int    `json:"line"`
	Call string `json:"call"`
}

func main() {
	repo := flag.String("repo", "/repo", "repository root")
	out := flag.String("out", "/verif/.build", "build directory")
	clockSrc := flag.String("clock", "/verif/harness/overlaysrc/clock.go.src", "virtual clock package source")
	flag.Parse()

	ovDir := filepath.Join(*out, "overlay")
	_ = os.RemoveAll(ovDir)
	if err := os.MkdirAll(ovDir, 0o755); err != nil {
		fatal(err)
	}
	replace := map[string]string{}
	var sites []site

	for _, top := range []string{"controllers", "pkg"} {
		root := filepath.Join(*repo, top)
		_ = filepath.Walk(root, func(path string, info os.FileInfo, err error) error {
			if err != nil {
				return nil
			}
			if info.IsDir() {
				if info.Name() == "verifclock" || info.Name() == "testdata" || info.Name() == "vendor" {
					return filepath.SkipDir
				}
				return nil
			}
			if !strings.HasSuffix(path, ".go") || strings.HasSuffix(path, "_test.go") {
				return nil
			}
			src, err := os.ReadFile(path)
			if err != nil {
				return nil
			}
			newSrc, fileSites, err := rewrite(path, src)
			if err != nil {
				fmt.Fprintf(os.Stderr, "mkoverlay: %s: %v (left untouched)\n", path, err)
				return nil
			}
			if len(fileSites) == 0 {
				return nil
			}
			rel, _ := filepath.Rel(*repo, path)
			dst := filepath.Join(ovDir, strings.ReplaceAll(rel, string(filepath.Separator), "__"))
			if err := os.WriteFile(dst, newSrc, 0o644); err != nil {
				fatal(err)
			}
			replace[path] = dst
			for i := range fileSites {
				fileSites[i].File = rel
			}
			sites = append(sites, fileSites...)
			return nil
		})
	}

	// the virtual clock package itself: a directory that exists only in the overlay
	clockDst := filepath.Join(ovDir, "verifclock__clock.go")
	b, err := os.ReadFile(*clockSrc)
	if err != nil {
		fatal(err)
	}
	if err := os.WriteFile(clockDst, b, 0o644); err != nil {
		fatal(err)
	}
	replace[filepath.Join(*repo, "pkg", "verifclock", "clock.go")] = clockDst

	ov, _ := json.MarshalIndent(map[string]interface{}{"Replace": replace}, "", " ")
	if err := os.WriteFile(filepath.Join(*out, "overlay.json"), ov, 0o644); err != nil {
		fatal(err)
	}
	sort.Slice(sites, func(i, j int) bool {
		if sites[i].File != sites[j].File {
			return sites[i].File < sites[j].File
		}
		return sites[i].Line < sites[j].Line
	})
	sj, _ := json.MarshalIndent(sites, "", " ")
	_ = os.WriteFile(filepath.Join(*out, "overlay_sites.json"), sj, 0o644)
	fmt.Printf("mkoverlay: %d clock sites rewritten in %d files\n", len(sites), len(replace)-1)
	if len(sites) == 0 {
		os.Exit(3)
	}
}

func fatal(err error) {
	fmt.Fprintln(os.Stderr, "mkoverlay:", err)
	os.Exit(2)
}

func importName(f *ast.File, path string) string {
	for _, im := range f.Imports {
		p, _ := strconv.Unquote(im.Path.Value)
		if p != path {
			continue
		}
		if im.Name != nil {
			return im.Name.Name
		}
		return path[strings.LastIndex(path, "/")+1:]
	}
	return ""
}

func rewrite(path string, src []byte) ([]byte, []site, error) {
	fset := token.NewFileSet()
	f, err := parser.ParseFile(fset, path, src, parser.ParseComments)
	if err != nil {
		return nil, nil, err
	}
	timeN := importName(f, "time")
	metaN := importName(f, "k8s.io/apimachinery/pkg/apis/meta/v1")
	if metaN == "v1" && importName(f, "k8s.io/apimachinery/pkg/apis/meta/v1") == "v1" {
		// unnamed import of meta/v1 is called "v1"
	}
	flowN := importName(f, "k8s.io/client-go/util/flowcontrol")
	var sites []site

	isSel := func(e ast.Expr, pkg, name string) bool {
		if pkg == "" {
			return false
		}
		s, ok := e.(*ast.SelectorExpr)
		if !ok || s.Sel.Name != name {
			return false
		}
		id, ok := s.X.(*ast.Ident)
		// an identifier that resolves to a local object is not the package
		return ok && id.Name == pkg && id.Obj == nil
	}
	clockSel := func(name string) *ast.SelectorExpr {
		return &ast.SelectorExpr{X: ast.NewIdent("verifclock"), Sel: ast.NewIdent(name)}
	}
	wrapped := map[*ast.CallExpr]bool{}
	ast.Inspect(f, func(n ast.Node) bool {
		c, ok := n.(*ast.CallExpr)
		if !ok || wrapped[c] {
			return true
		}
		line := fset.Position(c.Pos()).Line
		switch {
		case isSel(c.Fun, timeN, "Now") && len(c.Args) == 0:
			c.Fun = clockSel("Now")
			sites = append(sites, site{Line: line, Call: "time.Now"})
		case isSel(c.Fun, timeN, "Since") && len(c.Args) == 1:
			c.Fun = clockSel("Since")
			sites = append(sites, site{Line: line, Call: "time.Since"})
		case isSel(c.Fun, metaN, "Now") && len(c.Args) == 0:
			c.Fun = clockSel("MetaNow")
			sites = append(sites, site{Line: line, Call: "metav1.Now"})
		case isSel(c.Fun, flowN, "NewBackOff") && len(c.Args) == 2:
			inner := &ast.CallExpr{Fun: c.Fun, Args: c.Args}
			wrapped[inner] = true
			c.Fun = clockSel("WrapBackOff")
			c.Args = []ast.Expr{inner}
			sites = append(sites, site{Line: line, Call: "flowcontrol.NewBackOff"})
		}
		return true
	})
	if len(sites) == 0 {
		return src, nil, nil
	}
	var buf bytes.Buffer
	if err := format.Node(&buf, fset, f); err != nil {
		return nil, nil, err
	}
	out := buf.String()
	// add the import right after the package clause (a second import decl is legal)
	idx := strings.Index(out, "\npackage ")
	if strings.HasPrefix(out, "package ") {
		idx = -1
	}
	start := idx + 1
	eol := strings.Index(out[start:], "\n")
	head := out[:start+eol+1]
	tail := out[start+eol+1:]
	extra := "\nimport verifclock \"" + clockImport + "\"\n"
	keep := "\n// keep imports used after the clock rewrite\n"
	if timeN != "" && timeN != "_" && timeN != "." {
		keep += "var _ " + timeN + ".Duration\n"
	}
	if metaN != "" && metaN != "_" && metaN != "." {
		keep += "var _ " + metaN + ".Time\n"
	}
	if flowN != "" && flowN != "_" && flowN != "." {
		keep += "var _ *" + flowN + ".Backoff\n"
	}
	res := head + extra + tail + keep
	if _, err := parser.ParseFile(token.NewFileSet(), path, res, 0); err != nil {
		return nil, nil, fmt.Errorf("rewritten file does not parse: %w", err)
	}
	return []byte(res), sites, nil
}
